#!/usr/bin/env python3
"""Collect and confirm a seeded breaking change produced by a sub-agent.

  tools/collect_seed.py <PID> <slug> "<what it needs to manifest>" [--wt /tmp/wt_<PID>]

Takes `git diff` of the sub-agent's worktree and its demo_<PID>.py, then confirms
everything in a FRESH scratch worktree of /repo HEAD (outside /repo and /verif):
  * patch applies, package byte-compiles
  * the repository's own test suite still passes with the patch (103 passed)
  * demo exits 0 on /repo and non-zero on the patched tree
and runs every check's quick command against the patched tree (GECKO_REPO=...), recording
which fire.  Writes /verif/seeded/<PID>-<slug>/{patch.diff, demo.py, meta.json}.
The scratch worktree is removed at the end.
"""
import json
import os
import re
import shutil
import subprocess
import sys
import tempfile
from pathlib import Path

VERIF = Path(__file__).resolve().parent.parent


def sh(cmd, **kw):
    return subprocess.run(cmd, shell=isinstance(cmd, str), capture_output=True, text=True, **kw)


def main():
    pid, slug, needs = sys.argv[1:4]
    wt = Path(sys.argv[sys.argv.index("--wt") + 1]) if "--wt" in sys.argv else Path(f"/tmp/wt_{pid}")
    diff = sh(["git", "-C", str(wt), "diff", "--", "src"]).stdout
    if not diff.strip():
        print("no diff in", wt)
        return 2
    demo = wt / f"demo_{pid}.py"
    if not demo.exists():
        print("no demo", demo)
        return 2
    out = VERIF / "seeded" / f"{pid}-{slug}"
    out.mkdir(parents=True, exist_ok=True)
    (out / "patch.diff").write_text(diff)
    shutil.copy(demo, out / "demo.py")

    scratch = Path(tempfile.mkdtemp(prefix="gseed_"))
    tree = scratch / "tree"
    ran = []
    try:
        r = sh(["git", "-C", "/repo", "worktree", "add", "--detach", str(tree), "HEAD"])
        assert r.returncode == 0, r.stderr
        r = sh(["git", "-C", str(tree), "apply", str(out / "patch.diff")])
        ran.append(f"git apply patch.diff -> rc {r.returncode}")
        if r.returncode != 0:
            print("patch does not apply to /repo HEAD:", r.stderr)
            return 2
        r = sh(f"cd {tree} && /venv/bin/python -m compileall -q src/geckolib >/dev/null; echo $?")
        compiles = r.stdout.strip().endswith("0")
        r = sh(f"cd {tree} && /venv/bin/python -m pytest -q -p no:cacheprovider --timeout=900 tests 2>&1 | tail -1")
        tests_line = r.stdout.strip()
        ran.append(f"pytest on patched tree: {tests_line}")
        m = re.search(r"(\d+) passed", tests_line)
        tests_ok = bool(m) and int(m.group(1)) >= 103 and not re.search(r"\b\d+ (failed|error)", tests_line)
        d0 = sh(["/venv/bin/python", str(out / "demo.py"), "/repo"], timeout=180)
        d1 = sh(["/venv/bin/python", str(out / "demo.py"), str(tree)], timeout=180)
        ran.append(f"demo.py /repo -> rc {d0.returncode}; demo.py <patched> -> rc {d1.returncode}")
        env = dict(os.environ, GECKO_REPO=str(tree), VERIF_SCRATCH_DIR=str(scratch / "out"))
        fired = {}
        for n in range(1, 21):
            p = f"C{n:02d}"
            c = sh([str(VERIF / "check"), p], env=env)
            keys = re.findall(r"^\s*refuted (\S+) \[(.*?)\]", c.stdout, re.M)
            if c.returncode != 0:
                fired[p] = {"rc": c.returncode, "refuted": [f"{a} [{b}]" for a, b in keys][:6],
                            "errors": [l for l in c.stdout.splitlines() if l.startswith("ANALYSIS-ERROR")][:3]}
        meta = {
            "property": pid,
            "slug": slug,
            "source": "independent sub-agent given only the property text and a scratch worktree",
            "needs_to_manifest": needs,
            "files_changed": sorted(set(re.findall(r"^\+\+\+ b/(.*)$", diff, re.M))),
            "confirmed": {
                "patch_applies_to_repo_head": True,
                "compiles": compiles,
                "repo_tests_pass_with_patch": tests_ok,
                "tests_line": tests_line,
                "demo_rc_on_repo": d0.returncode,
                "demo_rc_on_patched": d1.returncode,
                "demo_discriminates": d0.returncode == 0 and d1.returncode != 0,
            },
            "what_i_ran": ran,
            "checks_that_fire": fired,
            "detected_by_own_property_check": fired.get(pid, {}).get("rc") == 1,
            "repo_head": sh(["git", "-C", "/repo", "rev-parse", "--short", "HEAD"]).stdout.strip(),
        }
        (out / "meta.json").write_text(json.dumps(meta, indent=1) + "\n")
        print(json.dumps({k: meta[k] for k in ("confirmed", "checks_that_fire", "detected_by_own_property_check")}, indent=1))
        return 0
    finally:
        sh(["git", "-C", "/repo", "worktree", "remove", "--force", str(tree)])
        shutil.rmtree(scratch, ignore_errors=True)


if __name__ == "__main__":
    sys.exit(main())
