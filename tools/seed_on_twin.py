#!/usr/bin/env python3
"""tools/seed_on_twin.py [rng seed] [twins per seed] : does a seeded breaking change stay detected AFTER a behaviour-preserving
refactoring?  For every confirmed seed (seeded/<id>/patch.diff) up to k randomly chosen twins (selftest/refactors/*.diff)
that apply cleanly together with it are applied FIRST, then the seed, to one scratch copy of /repo/src; the seed's own
property check must still report a violation (exit 1, no ANALYSIS-ERROR).  Prints every (seed, twin) pair that escapes."""
import glob, json, os, random, shutil, subprocess, sys, tempfile
from concurrent.futures import ThreadPoolExecutor

rnd = random.Random(int(sys.argv[1]) if len(sys.argv) > 1 else 1)
K = int(sys.argv[2]) if len(sys.argv) > 2 else 1
twins = sorted(glob.glob('/verif/selftest/refactors/*.diff'))
seeds = []
for d in sorted(glob.glob('/verif/seeded/*/')):
    m = json.load(open(d + 'meta.json'))
    if m.get('detected_by_own_property_check') or m.get('history', '').startswith('missed'):
        seeds.append((os.path.basename(d.rstrip('/')), m['property'], d + 'patch.diff'))


def touched(path):
    return {l.split(' b/')[-1].strip() for l in open(path) if l.startswith('diff --git')}


TW = {t: touched(t) for t in twins}


def one(job):
    name, pid, patch, order = job
    D = tempfile.mkdtemp(prefix='sot_')
    out = []
    try:
        shutil.copytree('/repo/src', D + '/src')
        os.symlink('/repo/tests', D + '/tests')
        st = touched(patch)
        used = 0
        for t in order:
            if used >= K:
                break
            if not (TW[t] & st):
                continue            # only twins that touch a file the seed touches are interesting
            E = tempfile.mkdtemp(prefix='sot_')
            try:
                shutil.copytree(D + '/src', E + '/src')
                a = subprocess.run(['git', 'apply', '--whitespace=nowarn', t], cwd=E, capture_output=True)
                if a.returncode != 0:
                    continue
                b = subprocess.run(['git', 'apply', '--whitespace=nowarn', '-3', patch], cwd=E, capture_output=True) if False else \
                    subprocess.run(['git', 'apply', '--whitespace=nowarn', patch], cwd=E, capture_output=True)
                if b.returncode != 0:
                    continue
                if subprocess.run(['/venv/bin/python', '-m', 'compileall', '-q', E + '/src/geckolib', '-x', 'packs'], capture_output=True).returncode != 0:
                    continue
                used += 1
                os.symlink('/repo/tests', E + '/tests')
                env = dict(os.environ, GECKO_REPO=E, VERIF_SCRATCH_DIR=E + '/_o')
                p = subprocess.run(['/verif/check', pid], env=env, capture_output=True, text=True)
                txt = p.stdout + p.stderr
                ok = p.returncode == 1 and 'VIOLATION' in txt
                out.append((name, os.path.basename(t)[:-5], p.returncode, ok, [l[:200] for l in txt.splitlines() if 'ANALYSIS-ERROR' in l][:1]))
            finally:
                shutil.rmtree(E, ignore_errors=True)
    finally:
        shutil.rmtree(D, ignore_errors=True)
    return out


jobs = []
for name, pid, patch in seeds:
    order = list(twins)
    rnd.shuffle(order)
    jobs.append((name, pid, patch, order))
n = esc = 0
with ThreadPoolExecutor(12) as ex:
    for res in ex.map(one, jobs):
        for name, tw, rc, ok, errs in res:
            n += 1
            if not ok:
                esc += 1
                print(f'ESCAPES {name} after {tw}: rc={rc} {errs}', flush=True)
print(f'pairs run: {n}, escapes: {esc}')
