#!/usr/bin/env python3
"""Ad-hoc mutation probe: tools/mut.py <PID> <relfile> <old> <new> [--count N]
Copies /repo/src to a scratch dir (packs symlinked unless the file is a pack), applies one
textual replacement, runs ./check PID against it, prints the result, removes the copy."""
import os, shutil, subprocess, sys, tempfile
from pathlib import Path

def scratch(relfile=None):
    d = Path(tempfile.mkdtemp(prefix="gmut_"))
    src = Path("/repo/src/geckolib")
    dst = d / "src/geckolib"
    packs_target = relfile and "driver/packs/" in relfile
    def ignore(dirpath, names):
        if not packs_target and Path(dirpath) == src / "driver":
            return ["packs"]
        return [n for n in names if n == "__pycache__"]
    shutil.copytree(src, dst, ignore=ignore)
    if not packs_target:
        os.symlink(src / "driver/packs", dst / "driver/packs")
    if Path("/repo/tests").is_dir():
        os.symlink("/repo/tests", d / "tests")
    return d

def main():
    pid, rel, old, new = sys.argv[1:5]
    d = scratch(rel)
    try:
        p = d / "src/geckolib" / rel
        s = p.read_text()
        n = s.count(old)
        if n != 1 and "--all" not in sys.argv:
            print(f"pattern occurs {n} times in {rel}"); return 3
        p.write_text(s.replace(old, new))
        import py_compile
        py_compile.compile(str(p), doraise=True)
        env = dict(os.environ, GECKO_REPO=str(d), VERIF_SCRATCH_DIR=str(d / "_verif_out"))
        r = subprocess.run(["/verif/check", pid], env=env, capture_output=True, text=True)
        out = [l for l in r.stdout.splitlines() if not l.startswith("    analysed")]
        print("\n".join(out[-12:])); print("rc=", r.returncode)
        return r.returncode
    finally:
        shutil.rmtree(d, ignore_errors=True)

if __name__ == "__main__":
    sys.exit(main())
