#!/usr/bin/env python3
"""Freeze the private function/method/property names of the audited tree: these are
anchors the rules may name.  Private helpers that are NOT in this list (introduced by a
later refactoring) are transparent to the analysis: vlib.normalize inlines them."""
import ast, sys
from pathlib import Path
sys.path.insert(0, str(Path(__file__).resolve().parent.parent))
from vlib.src import Repo
r = Repo("/repo")
names = set()
for f in r.code_files():
    for n in ast.walk(ast.parse(f.read_text())):
        if isinstance(n, (ast.FunctionDef, ast.AsyncFunctionDef)) and n.name.startswith("_"):
            names.add(n.name)
p = Path(__file__).resolve().parent.parent / "baseline" / "private_names.txt"
p.write_text("\n".join(sorted(names)) + "\n")
print(len(names), "names ->", p)
