#!/bin/sh
# tools/run_on_tree.sh <tree> : run every quick check against another tree (scratch outputs), print non-zero results
T="$1"; OUT=$(mktemp -d)
for i in $(seq -w 1 20); do
  GECKO_REPO="$T" VERIF_SCRATCH_DIR="$OUT/s" /verif/check C$i > "$OUT/C$i.txt" 2>&1; rc=$?
  if [ $rc -ne 0 ]; then echo "--- C$i rc=$rc"; grep -E "refuted|ANALYSIS-ERROR" "$OUT/C$i.txt" | cut -c1-260 | head -${2:-6}; fi
done
rm -rf "$OUT"
