#!/usr/bin/env python3
"""Generate MANIFEST.json from vlib/registry.py and validate it against the schema."""
import json
import sys
from pathlib import Path

ROOT = Path(__file__).resolve().parent.parent
sys.path.insert(0, str(ROOT))
from vlib.registry import CLAIMED, NOT_APPLICABLE, HOOK_COMMITS  # noqa: E402

BASELINE = "cd /repo && /venv/bin/python -m pytest -ra -q -p no:cacheprovider --timeout=900 --continue-on-collection-errors"

checks = []
for pid in sorted(CLAIMED):
    c = CLAIMED[pid]
    checks.append(
        {
            "property_id": pid,
            "quick_cmd": f"./check {pid} --tier quick",
            "thorough_cmd": f"./check {pid} --tier thorough",
            "evidence_file": f"evidence/{pid}.json",
            "replay_cmd_template": f"./check {pid} --replay {{path}}",
            "engine": "vlib",
            "level_claimed": {
                "category": "other",
                "text": c["level"],
                "design_ref": f"DESIGN.md section 4, {pid}",
            },
            "level_note": c["note"],
            "technique": c["technique"],
        }
    )

manifest = {
    "version": 1,
    "setup_cmd": "true",
    "hooks": {
        "guard": "GECKOLIB_VERIF",
        "enable": "none - static analysis reads /repo's working tree; no hooks or instrumentation exist in /repo",
        "baseline_off_cmd": BASELINE,
        "source_commits": HOOK_COMMITS,
        "add_only": True,
    },
    "engines": [
        {
            "name": "vlib",
            "path": "vlib/",
            "serves_properties": sorted(CLAIMED),
            "kind_free_text": "stdlib-only static analyser written for geckolib: ast program model, "
            "statement CFG with dominators/edge-dominance guards, abstract interpreter "
            "(constant, bit-provenance, affine, value-set domains), pack-table extractor, "
            "wire-layout extractor, lifecycle-relation extractor",
        }
    ],
    "checks": checks,
    "notes": "Every check parses /repo (or $GECKO_REPO) on every run; nothing from the repository is imported or executed. "
    "Exit 0 = all obligations proved (open known findings printed as KNOWN-FINDING), 1 = VIOLATION, 2 = ANALYSIS-ERROR.",
    "not_applicable": [{"property_id": p, "reason": r} for p, r in sorted(NOT_APPLICABLE.items())],
}
out = ROOT / "MANIFEST.json"
out.write_text(json.dumps(manifest, indent=1) + "\n")
try:
    import jsonschema

    schema = json.loads(Path("/root/.vp/MANIFEST.schema.json").read_text())
    jsonschema.validate(manifest, schema)
    print("MANIFEST.json valid;", len(checks), "checks,", len(NOT_APPLICABLE), "not applicable")
except ImportError:
    print("MANIFEST.json written (jsonschema not available to validate)")
ids = {c["property_id"] for c in checks} | set(NOT_APPLICABLE)
missing = [f"C{n:02d}" for n in range(1, 21) if f"C{n:02d}" not in ids]
if missing:
    print("WARNING: properties neither claimed nor not_applicable:", missing)
    sys.exit(1)
