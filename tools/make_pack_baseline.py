#!/usr/bin/env python3
"""One-off: pin the pack-table layout of the audited commit (236b7b1) into
baseline/pack_layout.json.gz.  Reads the table modules out of git objects
(`git archive <commit>`), never from the working tree, so later edits of /repo cannot
leak into the pin."""
import gzip, json, subprocess, sys, tempfile, tarfile, io, os
from pathlib import Path
sys.path.insert(0, str(Path(__file__).resolve().parent.parent))
from vlib.src import Repo
from vlib.packs import Tables

COMMIT = sys.argv[1] if len(sys.argv) > 1 else "236b7b1"
with tempfile.TemporaryDirectory() as d:
    data = subprocess.check_output(["git", "-C", "/repo", "archive", COMMIT, "src/geckolib"])
    tarfile.open(fileobj=io.BytesIO(data)).extractall(d)
    T = Tables(Repo(d))
    out = {"commit": COMMIT, "modules": {}}
    for stem, m in sorted(T.modules.items()):
        out["modules"][stem] = {
            "cls": m.cls,
            "props": m.props,
            "items": {i.key: [i.ctor, i.args] for i in m.items},
        }
    p = Path(__file__).resolve().parent.parent / "baseline" / "pack_layout.json.gz"
    with gzip.GzipFile(p, "wb", mtime=0) as f:
        f.write(json.dumps(out, sort_keys=True, separators=(",", ":")).encode())
    print(p, os.path.getsize(p), len(out["modules"]))
