#!/bin/sh
# applyseed.sh <seed-dir-name> <PID...> : scratch copy, apply patch, run checks, print refuted/errors, remove
S=$1; shift
D=$(mktemp -d); cp -r /repo/src $D/; ln -s /repo/tests $D/tests; (cd $D && git init -q . 2>/dev/null; git apply --whitespace=nowarn /verif/seeded/$S/patch.diff) || echo "APPLY FAILED"
for p in "$@"; do GECKO_REPO=$D VERIF_SCRATCH_DIR=$D/_o /verif/check $p > $D/o.txt 2>&1; echo "--- $p rc=$?"; grep -E "refuted|ANALYSIS-ERROR|VIOLATION" $D/o.txt | cut -c1-400 | head -${N:-12}; done
rm -rf $D
