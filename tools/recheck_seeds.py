#!/usr/bin/env python3
"""Re-run every check against every confirmed seeded change (seeded/*/patch.diff) with the
CURRENT rules and update meta.json (`checks_that_fire`, `detected_by_own_property_check`).
Patches are applied to scratch copies of /repo's working tree (never to /repo).
  tools/recheck_seeds.py [--own-only] [ids...]"""
import json
import os
import re
import subprocess
import sys
from concurrent.futures import ThreadPoolExecutor
from pathlib import Path

VERIF = Path(__file__).resolve().parent.parent
sys.path.insert(0, str(VERIF))
from vlib.scratch import make_scratch, remove_scratch  # noqa: E402


def one(d, own_only):
    meta = json.loads((d / "meta.json").read_text())
    pid = meta["property"]
    sc = make_scratch("driver/packs/x", "/repo")  # full copy incl. packs (patches may touch tables)
    try:
        r = subprocess.run(["git", "apply", "--whitespace=nowarn", str(d / "patch.diff")], cwd=str(sc), capture_output=True, text=True)
        if r.returncode != 0:
            return d.name, None, "patch does not apply"
        env = dict(os.environ, GECKO_REPO=str(sc), VERIF_SCRATCH_DIR=str(sc / "_out"))
        fired = {}
        pids = [pid] if own_only else [f"C{n:02d}" for n in range(1, 21)]
        for p in pids:
            c = subprocess.run([str(VERIF / "check"), p], env=env, capture_output=True, text=True)
            if c.returncode != 0:
                keys = re.findall(r"^\s*refuted (\S+) \[(.*?)\]", c.stdout, re.M)
                fired[p] = {"rc": c.returncode, "refuted": [f"{a} [{b}]" for a, b in keys][:6],
                            "errors": [l for l in c.stdout.splitlines() if l.startswith("ANALYSIS-ERROR")][:3]}
        if not own_only:
            meta["checks_that_fire"] = fired
        meta["detected_by_own_property_check"] = fired.get(pid, {}).get("rc") == 1
        (d / "meta.json").write_text(json.dumps(meta, indent=1) + "\n")
        return d.name, meta["detected_by_own_property_check"], {k: v["rc"] for k, v in fired.items()}
    finally:
        remove_scratch(sc)


def main():
    own_only = "--own-only" in sys.argv
    ids = [a for a in sys.argv[1:] if not a.startswith("--")]
    dirs = sorted(p for p in (VERIF / "seeded").iterdir() if (p / "patch.diff").exists() and (not ids or p.name in ids))
    with ThreadPoolExecutor(max_workers=8) as ex:
        for name, own, fired in ex.map(lambda d: one(d, own_only), dirs):
            print(f"{name:45} own={own} fired={fired}")


if __name__ == "__main__":
    main()
