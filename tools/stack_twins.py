#!/usr/bin/env python3
"""tools/stack_twins.py <seed> [k] : apply up to k randomly chosen behaviour-preserving twins
(selftest/refactors/*.diff) that apply cleanly on top of one another to ONE scratch copy of /repo/src
and run every quick check against it.  All checks must stay silent: the twins compose.
Prints the stack and every non-zero check."""
import os, random, shutil, subprocess, sys, tempfile, glob
from concurrent.futures import ThreadPoolExecutor

seed = int(sys.argv[1]); k = int(sys.argv[2]) if len(sys.argv) > 2 else 4
rnd = random.Random(seed)
twins = sorted(glob.glob('/verif/selftest/refactors/*.diff'))
rnd.shuffle(twins)
D = tempfile.mkdtemp(prefix='stack_')
try:
    shutil.copytree('/repo/src', D + '/src')
    os.symlink('/repo/tests', D + '/tests')
    stack = []
    for t in twins:
        if len(stack) >= k:
            break
        if subprocess.run(['git', 'apply', '--check', '--whitespace=nowarn', t], cwd=D,
                          capture_output=True).returncode == 0:
            subprocess.run(['git', 'apply', '--whitespace=nowarn', t], cwd=D, check=True)
            stack.append(os.path.basename(t)[:-5])
    # must still compile
    rc = subprocess.run(['/venv/bin/python', '-m', 'compileall', '-q', D + '/src'], capture_output=True)
    print('stack', seed, stack, 'compile', rc.returncode)

    def run(i):
        pid = 'C%02d' % i
        env = dict(os.environ, GECKO_REPO=D, VERIF_SCRATCH_DIR=D + '/_o/' + pid)
        p = subprocess.run(['/verif/check', pid], env=env, capture_output=True, text=True)
        return pid, p.returncode, p.stdout + p.stderr
    with ThreadPoolExecutor(10) as ex:
        for pid, rc, out in ex.map(run, range(1, 21)):
            if rc != 0:
                print('---', pid, 'rc=%d' % rc)
                for ln in out.splitlines():
                    if 'refuted' in ln or 'ANALYSIS-ERROR' in ln:
                        print('   ', ln[:300])
finally:
    shutil.rmtree(D, ignore_errors=True)
