#!/bin/sh
# tools/run_twin.sh <name> [n] [PID...] : apply selftest/refactors*/<name>.diff to a scratch copy of /repo/src and run the checks
N=$1; shift; L=${1:-6}; [ $# -gt 0 ] && shift
F=/verif/selftest/refactors/$N.diff; [ -f $F ] || F=/verif/selftest/refactors_pending/$N.diff
D=$(mktemp -d); cp -r /repo/src $D/; ln -s /repo/tests $D/tests
(cd $D && git apply --whitespace=nowarn $F) || echo "APPLY FAILED"
if [ $# -gt 0 ]; then
  for p in "$@"; do GECKO_REPO=$D VERIF_SCRATCH_DIR=$D/_o /verif/check $p > $D/o.txt 2>&1; echo "--- $p rc=$?"; grep -E "refuted|ANALYSIS-ERROR" $D/o.txt | cut -c1-${W:-330} | head -$L; done
else
  /verif/tools/run_on_tree.sh $D $L
fi
rm -rf $D
