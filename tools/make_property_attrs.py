#!/usr/bin/env python3
"""Freeze, for the audited tree, which private attribute each simple public property returns
(`def spa_state(self): return self._spa_state`).  vlib.normalize uses it to map a later
rename of such an attribute back to the audited name, so rules that name `_spa_state`,
`_facade`, `_is_connected`, `_marked`, ... keep working after a private-attribute rename."""
import ast, json, sys
from pathlib import Path
sys.path.insert(0, str(Path(__file__).resolve().parent.parent))
from vlib.src import Repo
r = Repo("/repo")
out = {}
for f in r.code_files():
    for c in ast.walk(ast.parse(f.read_text())):
        if not isinstance(c, ast.ClassDef):
            continue
        for m in c.body:
            if isinstance(m, ast.FunctionDef) and any(ast.unparse(d) == "property" for d in m.decorator_list) and not m.name.startswith("_"):
                body = [s for s in m.body if not (isinstance(s, ast.Expr) and isinstance(s.value, ast.Constant))]
                if len(body) == 1 and isinstance(body[0], ast.Return) and isinstance(body[0].value, ast.Attribute) \
                        and isinstance(body[0].value.value, ast.Name) and body[0].value.value.id == "self" and body[0].value.attr.startswith("_"):
                    out.setdefault(c.name, {})[m.name] = body[0].value.attr
p = Path(__file__).resolve().parent.parent / "baseline" / "property_attrs.json"
p.write_text(json.dumps(out, indent=1, sort_keys=True) + "\n")
print(sum(len(v) for v in out.values()), "properties ->", p)
