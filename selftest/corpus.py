"""Self-test corpus: single edits of one source file each.

expect="fire":   the property's check must report a violation the unedited tree lacks
                 (of rule `rule` when given).
expect="silent": behaviour-preserving twin - no new violation may appear.
Anchors are matched textually against the *current* tree; an entry whose anchor is gone
is skipped, so the corpus never makes a check fail because geckolib moved on.
Most edits also pass the 103 repository tests (the suite never reaches those paths).
"""
MUTATIONS = []


def M(pid, id, file, old, new, expect="fire", rule=None):
    MUTATIONS.append({"pid": pid, "id": f"{pid}-{id}", "file": file, "old": old, "new": new, "expect": expect, "rule": rule})


# --------------------------------------------------------------------------- C01
M("C01", "no-sequence-check", "driver/async_spastruct.py",
  "                        if next_expected == request.sequence:", "                        if True:", rule="R1")
M("C01", "install-every-segment", "driver/async_spastruct.py",
  "                            if request.next == 0:\n\n                                _LOGGER.debug(", "                            if True:\n\n                                _LOGGER.debug(", rule="R1")
M("C01", "offset-zero", "driver/async_spastruct.py", "                                    request.start,", "                                    0,", rule="R3")
M("C01", "no-return-after-install", "driver/async_spastruct.py", "                                return True", "                                pass", rule="R3")
M("C01", "retry-not-decremented", "driver/async_spastruct.py", "                retry_count -= 1\n            return False", "                pass\n            return False", rule="R5")
M("C01", "segments-hoisted", "driver/async_spastruct.py",
  "            while retry_count > 0:\n\n                # Create the request",
  "            segments = []\n            next_expected = 0\n            while retry_count > 0:\n\n                # Create the request", expect="silent")
M("C01", "sync-no-reset-before-retry", "driver/spastruct.py",
  "                self._next_expected = 0\n                self._status_block_segments = []\n                if not handler.retry", "                if not handler.retry", rule="R3")
M("C01", "sync-install-without-final", "driver/spastruct.py",
  "            if handler.next == 0:\n                logger.debug(\n                    \"Status block segments complete", "            if True:\n                logger.debug(\n                    \"Status block segments complete", rule="R3")
M("C01", "sim-modulus-plus-one", "utils/simulator.py",
  "% -(-handler.length // self._STATUS_BLOCK_SEGMENT_SIZE)", "% ((handler.length // self._STATUS_BLOCK_SEGMENT_SIZE) + 1)", rule="R6")
M("C01", "sim-modulus-ceil-twin", "utils/simulator.py",
  "% -(-handler.length // self._STATUS_BLOCK_SEGMENT_SIZE)",
  "% ((handler.length + self._STATUS_BLOCK_SEGMENT_SIZE - 1) // self._STATUS_BLOCK_SEGMENT_SIZE)", expect="silent")
M("C01", "rename-local-twin", "driver/async_spastruct.py", "                next_expected = 0\n                segments = []\n",
  "                next_expected = 0\n                segments = []\n                _unused = None\n", expect="silent")

# --------------------------------------------------------------------------- C02
_MERGE_ASYNC = """            newvalue = (existing & ~(self.bitmask << self.bitpos)) | (
                (newvalue & self.bitmask) << self.bitpos
            )

        _LOGGER.debug(
            "Accessor %s @ %s, %s setting value to %s, existing value was %s. "
            "Length is %d",
            self.tag,
            self.pos,
            self.type,
            newvalue,
            existing,
            self.length,
        )

        # We can't handle this here, we must delegate via the structure
        await"""


def _merge(expr):
    return _MERGE_ASYNC.replace("""            newvalue = (existing & ~(self.bitmask << self.bitpos)) | (
                (newvalue & self.bitmask) << self.bitpos
            )""", expr)


M("C02", "mask-precedence", "driver/accessor.py", _MERGE_ASYNC,
  _merge("            newvalue = (existing & (~self.bitmask << self.bitpos)) | (\n                (newvalue & self.bitmask) << self.bitpos\n            )"), rule="R1")
M("C02", "drop-existing", "driver/accessor.py", _MERGE_ASYNC,
  _merge("            newvalue = (newvalue & self.bitmask) << self.bitpos"), rule="R1")
M("C02", "shift-plus-one", "driver/accessor.py", _MERGE_ASYNC,
  _merge("            newvalue = (existing & ~(self.bitmask << self.bitpos)) | (\n                (newvalue & self.bitmask) << (self.bitpos + 1)\n            )"), rule="R1")
M("C02", "unmasked-new", "driver/accessor.py", _MERGE_ASYNC,
  _merge("            newvalue = (existing & ~(self.bitmask << self.bitpos)) | (\n                newvalue << self.bitpos\n            )"), rule="R1")
M("C02", "xor-form-twin", "driver/accessor.py", _MERGE_ASYNC,
  _merge("            newvalue = existing ^ (\n                (existing ^ (newvalue << self.bitpos)) & (self.bitmask << self.bitpos)\n            )"), expect="silent")
M("C02", "little-endian-format", "driver/accessor.py", "            if self.length == 2:\n                self.format = \">H\"", "            if self.length == 2:\n                self.format = \"<H\"")
M("C02", "async-permission-dropped", "driver/accessor.py",
  "    async def async_set_value(self, newvalue):\n        \"\"\"Set a value in the pack structure using the initialized declaration\"\"\"\n        if self.read_write is None:\n            raise Exception(\n                GeckoConstants.EXCEPTION_MESSAGE_NOT_WRITABLE.format(self.tag)\n            )\n",
  "    async def async_set_value(self, newvalue):\n        \"\"\"Set a value in the pack structure using the initialized declaration\"\"\"\n", rule="R4")
M("C02", "spack-little-endian", "driver/protocol/packcommand.py", "            data = struct.pack(\">H\", data)", "            data = struct.pack(\"<H\", data)", rule="R3")
M("C02", "bool-string-not-lowered", "driver/accessor.py",
  "            newvalue = newvalue.lower() == \"true\"\n\n        # If it is a bitpos, then mask it with the existing value\n        existing = struct.unpack(\n            self.format, self.struct.status_block[self.pos : self.pos + self.length]\n        )[0]\n        if self.bitpos is not None:\n            newvalue = (existing & ~(self.bitmask << self.bitpos)) | (\n                (newvalue & self.bitmask) << self.bitpos\n            )\n\n        _LOGGER.debug(\n            \"Accessor %s @ %s, %s setting value to %s, existing value was %s. \"\n            \"Length is %d\",\n            self.tag,\n            self.pos,\n            self.type,\n            newvalue,\n            existing,\n            self.length,\n        )\n\n        # We can't handle this here, we must delegate via the structure\n        self.struct.set_value",
  "            newvalue = newvalue == \"true\"\n\n        # If it is a bitpos, then mask it with the existing value\n        existing = struct.unpack(\n            self.format, self.struct.status_block[self.pos : self.pos + self.length]\n        )[0]\n        if self.bitpos is not None:\n            newvalue = (existing & ~(self.bitmask << self.bitpos)) | (\n                (newvalue & self.bitmask) << self.bitpos\n            )\n\n        _LOGGER.debug(\n            \"Accessor %s @ %s, %s setting value to %s, existing value was %s. \"\n            \"Length is %d\",\n            self.tag,\n            self.pos,\n            self.type,\n            newvalue,\n            existing,\n            self.length,\n        )\n\n        # We can't handle this here, we must delegate via the structure\n        self.struct.set_value", rule="R6")

# --------------------------------------------------------------------------- C03
M("C03", "filter-off-by-one", "driver/accessor.py", "intersection_end = min(offset + len, self.pos + self.length)", "intersection_end = min(offset + len, self.pos + self.length - 1)", rule="R4")
M("C03", "filter-lt-twin", "driver/accessor.py", "if intersection_end - intersection_start <= 0:", "if intersection_end - intersection_start < 0:", expect="silent")
M("C03", "old-raw", "driver/accessor.py", "old_value = self._get_value(previous)", "old_value = self._get_raw_value(previous)", rule="R3")
M("C03", "no-equality-test", "driver/accessor.py", "        if new_value == old_value:\n            return\n", "", rule="R3")
M("C03", "swap-old-new", "driver/accessor.py", "self._on_change(self, old_value, new_value)", "self._on_change(self, new_value, old_value)", rule="R3")
M("C03", "watch-no-dedup", "driver/observable.py", "        if observer in self._observers:\n            _LOGGER.warning(", "        if False:\n            _LOGGER.warning(", rule="R5")
M("C03", "notify-before-swap", "driver/async_spastruct.py",
  "        self._status_block = (\n            self._status_block[0:offset]\n            + segment\n            + self._status_block[offset + segment_len :]\n        )\n        # Notify changes to accessors\n        for accessor in self.accessors.values():\n            accessor.status_block_changed(offset, segment_len, previous_block)\n",
  "        # Notify changes to accessors\n        for accessor in self.accessors.values():\n            accessor.status_block_changed(offset, segment_len, previous_block)\n        self._status_block = (\n            self._status_block[0:offset]\n            + segment\n            + self._status_block[offset + segment_len :]\n        )\n", rule="R1")
M("C03", "splice-drops-tail", "driver/spastruct.py", "            + self._status_block[offset + segment_len :]", "            + self._status_block[offset + segment_len + 1 :]", rule="R1")

# --------------------------------------------------------------------------- C04
M("C04", "statv-slice", "driver/protocol/statusblock.py", "self.data = remainder[3 : self.length + 3]", "self.data = remainder[2 : self.length + 3]", rule="R2")
M("C04", "spack-header-little-endian", "driver/protocol/packcommand.py", "\">BBBBBBH\",", "\"<BBBBBBH\",", rule="R2")
M("C04", "parms-swapped", "driver/protocol/packet.py",
  "                self._parms[3],\n                SRCCN_CLOSE,\n                DESCN_OPEN,\n                self._parms[2],", "                self._parms[2],\n                SRCCN_CLOSE,\n                DESCN_OPEN,\n                self._parms[3],", rule="R4")
M("C04", "utf8", "const.py", "MESSAGE_ENCODING = \"latin1\"", "MESSAGE_ENCODING = \"utf-8\"", rule="R7")
M("C04", "reminder-unsigned", "driver/protocol/reminders.py", "struct.pack(\"<BhB\", reminder[0], reminder[1], 1)", "struct.pack(\"<BHB\", reminder[0], reminder[1], 1)", rule="R2")
M("C04", "statp-short-record", "driver/protocol/statusblock.py",
  "            self.changes.append((pos, remainder[3 + (i * 4) : 5 + (i * 4)]))\n\n\nclass GeckoAsync", "            self.changes.append((pos, remainder[3 + (i * 4) : 4 + (i * 4)]))\n\n\nclass GeckoAsync", rule="R2")
M("C04", "no-dotall", "driver/protocol/packet.py", "            content,\n            re.DOTALL,\n        )", "            content,\n        )", rule="R5")
M("C04", "greedy-again", "driver/protocol/packet.py", "                    SRCCN_OPEN,\n                    b\"(.*?)\",", "                    SRCCN_OPEN,\n                    b\"(.*)\",", rule="R5")
M("C04", "hello-unbounded-split", "driver/protocol/hello.py", "content.split(b\"|\", 1)", "content.split(b\"|\")", rule="R6")
M("C04", "new-verb-prefix-clash", "driver/protocol/ping.py", "return received_bytes.startswith(PING_VERB)", "return received_bytes.startswith(PING_VERB) or received_bytes.startswith(b\"AVE\")", rule="R1")
M("C04", "files-template", "driver/protocol/configfile.py", "f\",{plateform_key}_C{config_version:02}.xml,\"", "f\",{plateform_key}-C{config_version:02}.xml,\"", rule="R6")
M("C04", "format-const-inlined-twin", "driver/protocol/getchannel.py", "        ) = struct.unpack(GETCHANNEL_FORMAT, remainder)", "        ) = struct.unpack(\">BB\", remainder)", expect="silent")

# --------------------------------------------------------------------------- C05
M("C05", "no-reset", "driver/protocol/statusblock.py", "        self.changes = []\n        for i in range(change_count):", "        for i in range(change_count):", rule="R1")
M("C05", "reset-after-loop", "driver/protocol/statusblock.py",
  "        self.changes = []\n        for i in range(change_count):\n            pos = struct.unpack(\">H\", remainder[1 + (i * 4) : 3 + (i * 4)])[0]\n            self.changes.append((pos, remainder[3 + (i * 4) : 5 + (i * 4)]))\n",
  "        for i in range(change_count):\n            pos = struct.unpack(\">H\", remainder[1 + (i * 4) : 3 + (i * 4)])[0]\n            self.changes.append((pos, remainder[3 + (i * 4) : 5 + (i * 4)]))\n        self.changes = []\n", rule="R1")
M("C05", "sync-no-clear", "spa.py", "        else:\n            handler.changes.clear()", "", rule="R2")
M("C05", "reversed", "async_spa.py", "for change in handler.changes:", "for change in reversed(handler.changes):", rule="R3")
M("C05", "ack-command-range", "driver/protocol/statusblock.py", "                            self._protocol.get_and_increment_sequence_counter(False),", "                            self._protocol.get_and_increment_sequence_counter(True),", rule="R4")
M("C05", "skip-zero-positions", "async_spa.py", "        for change in handler.changes:\n            self.struct.replace_status_block_segment(change[0], change[1])",
  "        for change in handler.changes:\n            if change[0]:\n                self.struct.replace_status_block_segment(change[0], change[1])", rule="R3")

# --------------------------------------------------------------------------- C06
M("C06", "request-hoisted", "driver/async_udp_protocol.py",
  "            while retry_count > 0:\n\n                # Create the request\n                request = create_func()", "            request = create_func()\n            while retry_count > 0:\n", rule="R1")
M("C06", "return-request-on-failure", "driver/async_udp_protocol.py", "            return None", "            return request", rule="R1")
M("C06", "gate-removed", "async_spa.py",
  "        if not self.is_responding_to_pings:\n            _LOGGER.debug(\"Cannot set watercare when spa not responding to pings\")\n            return\n", "", rule="R4")
M("C06", "conditional-decrement", "driver/async_udp_protocol.py", "                # Loop for retry\n                retry_count -= 1\n",
  "                # Loop for retry\n                if destination is None:\n                    retry_count -= 1\n", rule="R1")
M("C06", "struct-get-unlocked", "driver/async_spastruct.py", "        async with protocol.Lock:\n\n            while retry_count > 0:", "        if True:\n\n            while retry_count > 0:", rule="R2")
M("C06", "gate-nested-if-twin", "async_spa.py",
  "    async def async_get_watercare(self) -> Optional[int]:\n        if not self.is_connected:\n            _LOGGER.warning(\"Cannot get watercare when spa not connected\")\n            return 0\n        if not self.is_responding_to_pings:\n            _LOGGER.debug(\"Cannot get watercare when spa not responding to pings\")\n            return 0\n",
  "    async def async_get_watercare(self) -> Optional[int]:\n        if not (self.is_connected and self.is_responding_to_pings):\n            _LOGGER.warning(\"Cannot get watercare when spa not connected\")\n            return 0\n", expect="silent")

# --------------------------------------------------------------------------- C07
M("C07", "mark-not-cleared", "driver/async_peekablequeue.py", "        self.get_nowait()\n        self._marked = False", "        self.get_nowait()", rule="R3")
M("C07", "await-between-check-and-pop", "driver/udp_protocol_handler.py",
  "                if self.can_handle(data, sender):\n                    protocol.queue.pop()\n                    await self.async_handle(data, sender)\n                    await self.async_handled(sender)",
  "                if self.can_handle(data, sender):\n                    await asyncio.sleep(0)\n                    protocol.queue.pop()\n                    await self.async_handle(data, sender)\n                    await self.async_handled(sender)", rule="R1")
M("C07", "pop-before-check", "driver/udp_protocol_handler.py",
  "                data, sender = protocol.queue.head\n                if self.can_handle(data, sender):\n                    protocol.queue.pop()\n                    await self.async_handle(data, sender)\n                    self._reset_timeout()",
  "                data, sender = protocol.queue.head\n                protocol.queue.pop()\n                if self.can_handle(data, sender):\n                    await self.async_handle(data, sender)\n                    self._reset_timeout()", rule="R1")
M("C07", "address-check-weakened", "async_spa.py", "if handler.parms == self.sendparms:", "if handler.parms[2] is not None:", rule="R4")
M("C07", "unhandled-not-started", "async_spa.py",
  "        self._taskman.add_task(\n            GeckoUnhandledProtocolHandler().consume(self._protocol),\n            \"Unhandled packet\",\n            \"SPA\",\n        )\n", "", rule="R5")
M("C07", "discard-without-yield", "driver/protocol/unhandled.py",
  "                protocol.queue.mark()\n                # Allow the rest of the tasks to operate\n                await asyncio.sleep(GeckoConstants.ASYNCIO_SLEEP_TIMEOUT_FOR_YIELD)\n", "                protocol.queue.mark()\n", rule="R3")
M("C07", "head-one-local-twin", "driver/udp_protocol_handler.py",
  "            if protocol.queue.head is not None:\n                data, sender = protocol.queue.head\n                if self.can_handle(data, sender):\n                    protocol.queue.pop()\n                    await self.async_handle(data, sender)\n                    await self.async_handled(sender)",
  "            if protocol.queue.head is not None:\n                data, sender = protocol.queue.head\n                _LOGGER.debug(\"peek %s\", data)\n                if self.can_handle(data, sender):\n                    protocol.queue.pop()\n                    await self.async_handle(data, sender)\n                    await self.async_handled(sender)", expect="silent")

# --------------------------------------------------------------------------- C08
M("C08", "rferr-unguarded", "async_spa_manager.py",
  "        elif event == GeckoSpaEvent.ERROR_RF_ERROR:\n            if self._spa_state == GeckoSpaState.CONNECTED:", "        elif event == GeckoSpaEvent.ERROR_RF_ERROR:\n            if True:", rule="I3")
M("C08", "connected-in-spa-complete", "async_spa_manager.py",
  "        elif event == GeckoSpaEvent.CONNECTION_SPA_COMPLETE:\n            self._spa_state = GeckoSpaState.SPA_READY", "        elif event == GeckoSpaEvent.CONNECTION_SPA_COMPLETE:\n            self._spa_state = GeckoSpaState.CONNECTED", rule="I1")
M("C08", "reset-keeps-spa", "async_spa_manager.py", "            await self._spa.disconnect()\n            self._spa = None", "            await self._spa.disconnect()", rule="I6")
M("C08", "facade-dropped-early", "async_spa_manager.py",
  "        if self._facade is not None:\n            await self._facade.disconnect()\n        if self._spa is not None:", "        if self._facade is not None:\n            await self._facade.disconnect()\n            self._facade = None\n        if self._spa is not None:", rule="I4")
M("C08", "finished-out-of-finally", "async_spa_manager.py",
  "            self._spa_descriptors = locator.spas\n            del locator\n\n        finally:\n            await self._handle_event(",
  "            self._spa_descriptors = locator.spas\n            del locator\n\n        except asyncio.CancelledError:\n            raise\n        else:\n            await self._handle_event(", rule="I5")
M("C08", "teardown-before-state-change", "async_spa_manager.py",
  "            if self._spa_state == GeckoSpaState.CONNECTED:\n                self._spa_state = GeckoSpaState.ERROR_PING_MISSED\n                await self._handle_event(GeckoSpaEvent.CLIENT_FACADE_TEARDOWN)",
  "            if self._spa_state == GeckoSpaState.CONNECTED:\n                await self._handle_event(GeckoSpaEvent.CLIENT_FACADE_TEARDOWN)\n                self._spa_state = GeckoSpaState.ERROR_PING_MISSED", rule="I3")
M("C08", "sensor-before-switch", "async_spa_manager.py",
  "        # Do any pre-processing of the event, such as setting the state or\n        # updating the status line\n        if event == GeckoSpaEvent.LOCATING_STARTED:",
  "        if self._status_sensor is not None:\n            self._status_sensor.on_event(event)\n        # Do any pre-processing of the event, such as setting the state or\n        # updating the status line\n        if event == GeckoSpaEvent.LOCATING_STARTED:", rule="I7")
M("C08", "in-tuple-twin", "async_spa_manager.py", "        elif event == GeckoSpaEvent.SPA_NOT_FOUND:", "        elif event in (GeckoSpaEvent.SPA_NOT_FOUND,):", expect="silent")

# --------------------------------------------------------------------------- C09
M("C09", "rf-fault-not-healed", "async_spa_manager.py", "                GeckoSpaState.ERROR_RF_FAULT,\n                GeckoSpaState.ERROR_NEEDS_ATTENTION,", "                GeckoSpaState.ERROR_NEEDS_ATTENTION,", rule="R2")
M("C09", "no-response-never-raised", "async_spa.py",
  "                    if (\n                        time.monotonic() - self._last_ping\n                        > GeckoConfig.PING_DEVICE_NOT_RESPONDING_TIMEOUT_IN_SECONDS\n                    ):\n                        await self._event_handler(\n                            GeckoSpaEvent.RUNNING_PING_NO_RESPONSE,\n                            last_ping_at=self._last_ping_at,\n                        )",
  "                    pass", rule="R3")
M("C09", "pump-idle-trigger-removed", "async_spa_manager.py", "                    self.spa_state == GeckoSpaState.IDLE\n                    and self._spa_descriptors is None", "                    self.spa_state == GeckoSpaState.LOCATING_SPAS\n                    and self._spa_descriptors is None", rule="R2")
M("C09", "reset-cancels-pump", "async_spa_manager.py", "        \"\"\"Reset the spa manager\"\"\"\n        self._spa_descriptors = None", "        \"\"\"Reset the spa manager\"\"\"\n        self.cancel_key_tasks(\"SPAMAN\")\n        self._spa_descriptors = None", rule="R1")

# --------------------------------------------------------------------------- C10
M("C10", "locator-no-close", "async_locator.py", "            self._transport.close()\n", "", rule="R1")
M("C10", "close-out-of-finally", "async_locator.py",
  "        finally:\n            # Runs on cancellation too, so the endpoint and helper tasks never leak\n            _LOGGER.debug(\"Discovery complete, close transport\")", "        finally:\n            pass\n        if True:\n            _LOGGER.debug(\"Discovery complete, close transport\")", rule="R2")
M("C10", "cancel-swallowed", "async_spa.py", "        except asyncio.CancelledError:\n            _LOGGER.debug(\"Ping loop cancelled\")\n            raise", "        except asyncio.CancelledError:\n            _LOGGER.debug(\"Ping loop cancelled\")", rule="R4")
M("C10", "wrong-cancel-key", "async_spa.py", "self._taskman.cancel_key_tasks(\"SPA\")", "self._taskman.cancel_key_tasks(\"SPAX\")", rule="R3")
M("C10", "new-task-key", "async_spa.py", "self._taskman.add_task(self._ping_loop(), \"Ping loop\", \"SPA\")", "self._taskman.add_task(self._ping_loop(), \"Ping loop\", \"BG\")", rule="R3")
M("C10", "spa-transport-not-closed", "async_spa.py", "        if self._transport is not None:\n            self._transport.close()\n            self._transport = None", "        self._transport = None", rule="R1")
M("C10", "no-unwatch", "async_spa.py", "            self._transport = None\n        self.unwatch_all()", "            self._transport = None", rule="R5")
M("C10", "sleep-in-finally", "async_tasks.py",
  "                self._tasks = [task for task in self._tasks if not task.done()]\n        except asyncio.CancelledError:\n            _LOGGER.debug(\"Tidy loop cancelled\")\n            raise",
  "                self._tasks = [task for task in self._tasks if not task.done()]\n        except asyncio.CancelledError:\n            _LOGGER.debug(\"Tidy loop cancelled\")\n            raise\n        finally:\n            await asyncio.sleep(1)", rule="R4")

# --------------------------------------------------------------------------- C11
M("C11", "watercare-range", "automation/watercare.py", "self.active_mode >= len(", "self.active_mode > len(", rule="R4")
M("C11", "unknown-fallback-removed", "driver/accessor.py", "            except IndexError:\n                data = \"Unknown\"", "            except KeyError:\n                data = \"Unknown\"", rule="R4")
M("C11", "reminder-valueerror-unhandled", "driver/protocol/reminders.py", "            except ValueError:\n                _LOGGER.warning(\"Cannot use %d as reminder type, ignored\", t)", "            except KeyError:\n                _LOGGER.warning(\"Cannot use %d as reminder type, ignored\", t)", rule="R6")
M("C11", "heating-unguarded", "automation/heater.py",
  "        if GeckoConstants.KEY_HEATING in self._spa.accessors:\n            self._heating_action_sensor = GeckoBinarySensor(\n                self, \"Heating\", self._spa.accessors[GeckoConstants.KEY_HEATING]\n            )",
  "        if True:\n            self._heating_action_sensor = GeckoBinarySensor(\n                self, \"Heating\", self._spa.accessors[GeckoConstants.KEY_HEATING]\n            )", rule="R8")

# --------------------------------------------------------------------------- C12
M("C12", "async-set-dedup", "automation/async_facade.py", "        actual_devices = list(\n            dict.fromkeys(\n                [", "        actual_devices = list(\n            set(\n                [", rule="R1")
M("C12", "blower-class-mismatch", "automation/async_facade.py", "            == GeckoConstants.DEVICE_CLASS_BLOWER", "            == GeckoConstants.DEVICE_CLASS_LIGHT", rule="R1")
M("C12", "light-state-key", "const.py", "\"LI\": (\"Lights\", KEYPAD_LIGHT, KEY_USER_DEMAND_LIGHT, DEVICE_CLASS_LIGHT),", "\"LI\": (\"Lights\", KEYPAD_LIGHT, \"LI\", DEVICE_CLASS_LIGHT),", rule="R4")
M("C12", "duplicate-key", "const.py", "SENSORS = [(\"Smart Winter Mode:Risk\", KEY_SWM_RISK)]", "SENSORS = [(\"Smart Winter Mode:Risk\", KEY_SWM_RISK), (\"Heat\", KEY_RH_WATER_TEMP)]", rule="R5")
M("C12", "na-filter-dropped", "automation/async_facade.py", "tag: val for (tag, val) in all_output_connections.items() if val != \"NA\"", "tag: val for (tag, val) in all_output_connections.items() if val", expect="silent")  # no device key is a prefix of "NA": same inventory

# --------------------------------------------------------------------------- C13
M("C13", "no-short-circuit", "automation/switch.py",
  "        _LOGGER.debug(\"%s async turn ON\", self.name)\n        if self.is_on:\n            _LOGGER.debug(\"%s request to turn ON ignored, it's already on!\", self.name)\n            return\n", "        _LOGGER.debug(\"%s async turn ON\", self.name)\n", rule="R1")
M("C13", "fall-through", "automation/switch.py",
  "            await self._spa.async_press(self._keypad_button)\n            return\n        _LOGGER.debug(\"Set async state on accessor\")\n        await self._accessor.async_set_value(True)",
  "            await self._spa.async_press(self._keypad_button)\n        _LOGGER.debug(\"Set async state on accessor\")\n        await self._accessor.async_set_value(True)", rule="R2")
M("C13", "literal-pack-type", "async_spa.py", "                self.pack_type,\n                keypad,", "                10,\n                keypad,", rule="R5")
M("C13", "turn-on-writes-false", "automation/switch.py", "        _LOGGER.debug(\"Set state on accessor\")\n        self._accessor.value = True", "        _LOGGER.debug(\"Set state on accessor\")\n        self._accessor.value = False", rule="R2")
M("C13", "log-text-twin", "automation/switch.py", "        _LOGGER.debug(\"Set async state on accessor\")\n        await self._accessor.async_set_value(True)", "        _LOGGER.debug(\"Setting state via the accessor (async)\")\n        await self._accessor.async_set_value(True)", expect="silent")

# --------------------------------------------------------------------------- C14
M("C14", "slope", "driver/accessor.py", "            temp = float(temp) * 18.0\n        else:\n            temp = (float(temp) * 10.0) - 320\n        await", "            temp = float(temp) * 18.5\n        else:\n            temp = (float(temp) * 10.0) - 320\n        await", rule="R1")
M("C14", "reader-offset-sign", "driver/accessor.py", "            temp = (temp + 320) / 10.0", "            temp = (temp - 320) / 10.0", rule="R1")
M("C14", "ladder-swapped", "automation/heater.py", "        if self.current_temperature < self.real_target_temperature:\n            return GeckoConstants.WATER_HEATER_HEATING", "        if self.current_temperature > self.real_target_temperature:\n            return GeckoConstants.WATER_HEATER_HEATING", rule="R3")
M("C14", "limits-swapped", "automation/heater.py", "            self.MIN_TEMP_C\n            if self._temperature_unit_accessor.value == \"C\"\n            else self.MIN_TEMP_F", "            self.MIN_TEMP_F\n            if self._temperature_unit_accessor.value == \"C\"\n            else self.MIN_TEMP_C", rule="R2")
M("C14", "reciprocal-twin", "driver/accessor.py", "            temp = (temp + 320) / 10.0", "            temp = (temp + 320) * 0.1", expect="silent")

# --------------------------------------------------------------------------- C15
M("C15", "no-dedup", "async_locator.py", "        if handler.spa_identifier in self._spa_identifiers:\n            return\n", "", rule="R1")
M("C15", "found-flag-ignored", "async_locator.py", "                if self._has_found_spa:\n                    break", "                if False:\n                    break", rule="R4")
M("C15", "lists-out-of-step", "async_locator.py", "        self._on_change(self)\n        self._spa_identifiers.append(handler.spa_identifier)", "        self._on_change(self)\n        if len(self._spas or []) < 3:\n            self._spa_identifiers.append(handler.spa_identifier)", rule="R1")
M("C15", "filter-compares-bytes", "async_locator.py", "            if self._spa_identifier != handler.spa_identifier.decode(\n                GeckoConstants.MESSAGE_ENCODING\n            ):", "            if self._spa_identifier != handler.spa_identifier:", rule="R2")
M("C15", "flag-before-append", "async_locator.py",
  "        self._on_change(self)\n        self._spa_identifiers.append(handler.spa_identifier)\n        descriptor",
  "        self._on_change(self)\n        self._has_found_spa = True\n        self._spa_identifiers.append(handler.spa_identifier)\n        descriptor", rule="R3")

# --------------------------------------------------------------------------- C16
M("C16", "wrap-190", "driver/async_udp_protocol.py", "            if self._sequence_counter_protocol == 191:", "            if self._sequence_counter_protocol == 190:")
M("C16", "command-wrap-to-192", "driver/udp_socket.py", "                if self._sequence_counter_command == 255:\n                    self._sequence_counter_command = 191", "                if self._sequence_counter_command == 255:\n                    self._sequence_counter_command = 192", rule="R2")
M("C16", "unlocked", "driver/udp_socket.py", "    def get_and_increment_sequence_counter(self, command: bool):\n        with self._lock:", "    def get_and_increment_sequence_counter(self, command: bool):\n        if True:", rule="R3")
M("C16", "keypress-protocol-range", "async_spa.py",
  "            lambda: GeckoPackCommandProtocolHandler.keypress(\n                self._protocol.get_and_increment_sequence_counter(True),  # type: ignore", "            lambda: GeckoPackCommandProtocolHandler.keypress(\n                self._protocol.get_and_increment_sequence_counter(False),  # type: ignore", rule="R4")
M("C16", "ge-twin", "driver/async_udp_protocol.py", "            if self._sequence_counter_protocol == 191:", "            if self._sequence_counter_protocol >= 191:", expect="silent")
M("C16", "class-level-counter", "driver/async_udp_protocol.py", "class GeckoAsyncUdpProtocol(asyncio.DatagramProtocol):\n", "class GeckoAsyncUdpProtocol(asyncio.DatagramProtocol):\n    _sequence_counter_protocol = 0\n", expect="silent")  # shadowed by the instance attribute set in __init__: behaviour-preserving

# --------------------------------------------------------------------------- C17
M("C17", "member-missing", "config.py", "    PING_FREQUENCY_IN_SECONDS = 2\n    PING_DEVICE", "    PING_DEVICE", rule="R1")
M("C17", "partial-copy", "config.py", "    for member in CONFIG_MEMBERS:", "    for member in CONFIG_MEMBERS[:-1]:", rule="R1")
M("C17", "double-timeout", "config.py", "await asyncio.wait([ConfigChange], timeout=delay)", "await asyncio.wait([ConfigChange], timeout=delay * 2)", rule="R3")
M("C17", "inverted-flag", "automation/async_facade.py", "            if device.is_on:  # type: ignore\n                active_mode = True", "            if not device.is_on:  # type: ignore\n                active_mode = True", rule="R5")
M("C17", "plain-sleep", "async_tasks.py", "await config_sleep(GeckoConfig.TASK_TIDY_FREQUENCY_IN_SECONDS)", "await asyncio.sleep(GeckoConfig.TASK_TIDY_FREQUENCY_IN_SECONDS)", rule="R4")
M("C17", "wake-before-copy", "config.py",
  "    for member in CONFIG_MEMBERS:\n        setattr(GeckoConfig, member, getattr(new_config, member))\n    assert ConfigChange is not None\n    if not ConfigChange.done():\n        ConfigChange.set_result(True)",
  "    assert ConfigChange is not None\n    if not ConfigChange.done():\n        ConfigChange.set_result(True)\n    for member in CONFIG_MEMBERS:\n        setattr(GeckoConfig, member, getattr(new_config, member))", rule="R2")

# --------------------------------------------------------------------------- C18
M("C18", "pos-edit", "driver/packs/inyt-log-50.py", "self.struct, \"UdP1\", 258, 0,", "self.struct, \"UdP1\", 259, 0,", rule="R6")
M("C18", "advertised-key-missing", "driver/packs/inyt-cfg-50.py", "            \"OutLi\",\n        ]", "            \"OutLi\",\n            \"OutXX\",\n        ]", rule="R4")
M("C18", "out-of-block", "driver/packs/inyt-log-50.py", "GeckoByteStructAccessor(self.struct, \"Hours\", 284, None)", "GeckoByteStructAccessor(self.struct, \"Hours\", 1284, None)", rule="R1")
M("C18", "version-mismatch", "driver/packs/inyt-cfg-50.py", "    def version(self):\n        return 50", "    def version(self):\n        return 51", rule="R5")

M("C18", "ladder-changed", "driver/accessor.py", "            elif self.maxitems > 4:\n                self.bitmask = 7", "            elif self.maxitems > 8:\n                self.bitmask = 7", rule="R3")
M("C02", "ladder-harmless-twin", "driver/accessor.py", "            elif self.maxitems > 4:\n                self.bitmask = 7", "            elif self.maxitems > 5:\n                self.bitmask = 7", expect="silent")

# --------------------------------------------------------------------------- C19
M("C19", "writer-colon", "utils/shell.py", "f\"Config version {self.facade.spa.config_version}\"", "f\"Config version: {self.facade.spa.config_version}\"", rule="R1")
M("C19", "single-digit", "utils/snapshot.py", "(r\"Log version (\\d+)\", self._re_log_version)", "(r\"Log version (\\d)\", self._re_log_version)")
M("C19", "decimal-parse", "utils/snapshot.py", "int(b.strip()[1:-1], 16)", "int(b.strip()[1:-1], 10)", rule="R2")
M("C19", "template-dash", "spa.py", "        self.intouch_version_en = \"{0} v{1}.{2}\".format(", "        self.intouch_version_en = \"{0} v{1}-{2}\".format(", rule="R1")
M("C19", "whitespace-twin", "utils/snapshot.py", "(r\"Config version (\\d+)\", self._re_config_version)", "(r\"Config version\\s+(\\d+)\", self._re_config_version)", expect="silent")

# --------------------------------------------------------------------------- C20
M("C20", "lifo", "driver/udp_socket.py", "self._send_handlers.pop(0)", "self._send_handlers.pop()", rule="R1")
M("C20", "no-break", "driver/udp_socket.py", "                        receive_handler = handler\n                        break", "                        receive_handler = handler", rule="R3")
M("C20", "no-decrement", "driver/udp_protocol_handler.py", "        self._retry_count -= 1\n        _LOGGER.debug(\"Handler retry", "        _LOGGER.debug(\"Handler retry", rule="R5")
M("C20", "version-not-removed", "driver/protocol/version.py", "        ) = struct.unpack(VERSION_FORMAT, remainder)\n        self._should_remove_handler = True", "        ) = struct.unpack(VERSION_FORMAT, remainder)", rule="R6")
M("C20", "config-handler-not-registered", "spa.py", "        self.add_receive_handler(config_file_handler)\n", "", rule="R7")
M("C20", "no-stamp", "driver/udp_socket.py", "                    self._socket.sendto(send_bytes, destination)\n                    self._last_send_time = time.monotonic()", "                    self._socket.sendto(send_bytes, destination)", rule="R2")
M("C20", "handle-not-isolated", "driver/udp_socket.py",
  "                try:\n                    receive_handler.handle(received_bytes, remote_end)\n                    receive_handler.handled(remote_end)\n                except Exception:\n                    _LOGGER.exception(\"Unhandled exception in receive_handler func\")",
  "                receive_handler.handle(received_bytes, remote_end)\n                receive_handler.handled(remote_end)", rule="R4")

# --------------------------------------------------------------------------- round-2 additions
M("C11", "eco-guarded-by-value", "automation/async_facade.py",
  "        if GeckoConstants.KEY_ECON_ACTIVE in self._spa.accessors:\n            self._ecomode = GeckoSwitch(",
  "        if GeckoConstants.KEY_ECON_ACTIVE in self._spa.accessors and self._spa.accessors[GeckoConstants.KEY_ECON_ACTIVE].value != \"NA\":\n            self._ecomode = GeckoSwitch(", rule="R3")
M("C11", "eco-guard-alias-twin", "automation/async_facade.py",
  "        if GeckoConstants.KEY_ECON_ACTIVE in self._spa.accessors:\n            self._ecomode = GeckoSwitch(",
  "        eco_key = GeckoConstants.KEY_ECON_ACTIVE\n        if eco_key in self._spa.accessors:\n            self._ecomode = GeckoSwitch(", expect="silent")
M("C12", "all-devices-sorted", "driver/spastruct.py", "        self.all_devices = log_class.all_device_keys", "        self.all_devices = sorted(log_class.all_device_keys)", rule="R8")
M("C12", "user-demands-set", "driver/async_spastruct.py", "        self.user_demands = log_class.user_demand_keys", "        self.user_demands = list(set(log_class.user_demand_keys))", rule="R8")
M("C12", "all-devices-copy-twin", "driver/async_spastruct.py", "        self.all_devices = log_class.all_device_keys", "        self.all_devices = list(log_class.all_device_keys)", expect="silent")
M("C14", "heater-sync-rounds", "automation/heater.py", "        self._target_temperature_sensor.accessor.value = new_temperature", "        self._target_temperature_sensor.accessor.value = round(new_temperature)", rule="R5")
M("C14", "heater-async-skip-in-range", "automation/heater.py",
  "        await self._target_temperature_sensor.accessor.async_set_value(new_temperature)",
  "        if self.min_temp <= new_temperature <= self.max_temp:\n            await self._target_temperature_sensor.accessor.async_set_value(new_temperature)", rule="R5")
M("C14", "heater-skip-equal-twin", "automation/heater.py",
  "        await self._target_temperature_sensor.accessor.async_set_value(new_temperature)",
  "        if new_temperature == self.target_temperature:\n            return\n        await self._target_temperature_sensor.accessor.async_set_value(new_temperature)", expect="silent")
M("C18", "async-log-by-cfg-version", "async_spa.py", "-log-{self.log_version}\"", "-log-{self.config_version}\"", rule="R8")
M("C18", "sync-cfg-infix", "spa.py", "f\"geckolib.driver.packs.{plateform_key}-cfg-{self.config_version}\"", "f\"geckolib.driver.packs.{plateform_key}-log-{self.config_version}\"", rule="R8")
M("C18", "async-platform-not-lowered", "async_spa.py", "        plateform_key = config_file_handler.plateform_key.lower()", "        plateform_key = config_file_handler.plateform_key", rule="R8")
M("C18", "async-name-concat-twin", "async_spa.py",
  "        pack_module_name = f\"geckolib.driver.packs.{plateform_key}\"", "        pack_module_name = \"geckolib.driver.packs.\" + plateform_key", expect="silent")
M("C19", "sim-log-by-cfg-version", "utils/simulator.py", "-log-{self.snapshot.log_version}\"", "-log-{self.snapshot.config_version}\"", rule="R5")
M("C19", "sim-local-version-twin", "utils/simulator.py",
  "            log_module_name = (\n                f\"geckolib.driver.packs.{plateform_key}-log-{self.snapshot.log_version}\"\n            )",
  "            log_version = self.snapshot.log_version\n            log_module_name = f\"geckolib.driver.packs.{plateform_key}-log-{log_version}\"", expect="silent")
M("C20", "handled-no-reset", "driver/udp_protocol_handler.py",
  "        \"\"\"Base class implementation for when the data has been handled\"\"\"\n        self._reset_timeout()\n        assert self._async_on_handled is None",
  "        \"\"\"Base class implementation for when the data has been handled\"\"\"\n        assert self._async_on_handled is None", rule="R8")
M("C20", "loop-skips-flagged-twin", "driver/udp_protocol_handler.py",
  "        \"\"\"Base class implementation for when the data has been handled\"\"\"\n        self._reset_timeout()\n        assert self._async_on_handled is None\n        if self._on_handled is not None:\n            self._on_handled(self, sender)",
  "        \"\"\"Base class implementation for when the data has been handled\"\"\"\n        self._reset_timeout()\n        assert self._async_on_handled is None\n        if self._on_handled is not None:\n            self._on_handled(self, sender)\n        _LOGGER.debug(\"handled\")", expect="silent")

# --------------------------------------------------------------------------- round-5 rules
M("C01", "datas-group-lazy", "driver/protocol/packet.py", "                    DATAS_OPEN,\n                    b\"(.*)\",", "                    DATAS_OPEN,\n                    b\"(.*?)\",", rule="R7")
M("C02", "sync-versions-swapped", "spa.py", "                self.config_version,\n                self.log_version,\n                pos,", "                self.log_version,\n                self.config_version,\n                pos,", rule="R9")
M("C02", "async-pos-plus-one", "async_spa.py", "                self.log_version,\n                pos,\n                length,\n                newvalue,\n                parms=self.sendparms,\n            )\n        )\n\n        if pack_command_handler",
  "                self.log_version,\n                pos + 1,\n                length,\n                newvalue,\n                parms=self.sendparms,\n            )\n        )\n\n        if pack_command_handler", rule="R9")
M("C02", "sync-keyword-args-twin", "spa.py", "                self.pack_type,\n                self.config_version,\n                self.log_version,\n                pos,\n                length,\n                newvalue,\n                parms=self.sendparms,\n            ),\n            self.sendparms,",
  "                self.pack_type,\n                log_version=self.log_version,\n                config_version=self.config_version,\n                pos=pos,\n                len=length,\n                data=newvalue,\n                parms=self.sendparms,\n            ),\n            self.sendparms,", expect="silent")
M("C03", "sync-install-per-segment", "driver/spastruct.py", "            self._status_block_segments.append(handler.data)\n", "            self._status_block_segments.append(handler.data)\n            self.replace_status_block_segment(self._status_block_offset, b\"\".join(self._status_block_segments))\n", rule="R6")
M("C05", "async-protocol-wrap-late", "driver/async_udp_protocol.py", "            if self._sequence_counter_protocol == 191:", "            if self._sequence_counter_protocol > 191:", rule="R8")
M("C06", "struct-get-retry-free-after-data", "driver/async_spastruct.py", "                retry_count -= 1\n            return False", "                if not segments:\n                    retry_count -= 1\n            return False", rule="R6")
M("C08", "cancel-by-prefix", "async_tasks.py", "            if task.get_name().startswith(f\"{key_}:\"):", "            if task.get_name().startswith(key_):", rule="I10")
M("C09", "error-closes", "driver/async_udp_protocol.py", "        # TODO: What do we want to do with this?", "        self.disconnect()", rule="R5")
M("C09", "error-counted-twin", "driver/async_udp_protocol.py", "        # TODO: What do we want to do with this?", "        self._last_error = exc", expect="silent")
M("C11", "get-reminder-indexes", "automation/reminders.py", "        for reminder in self.reminders:\n            if reminder.type == reminder_type:\n                return reminder\n        return None",
  "        return [r for r in self.reminders if r.type == reminder_type][0]", rule="R6")
M("C11", "get-reminder-next-default-twin", "automation/reminders.py", "        for reminder in self.reminders:\n            if reminder.type == reminder_type:\n                return reminder\n        return None",
  "        return next((r for r in self.reminders if r.type == reminder_type), None)", expect="silent")
M("C12", "async-accessors-merged", "driver/async_spastruct.py", "        self.accessors = dict(config_class.accessors, **log_class.accessors)", "        self.accessors.update(dict(config_class.accessors, **log_class.accessors))", rule="R8")
M("C12", "sync-cfg-wins-clash", "driver/spastruct.py", "        self.accessors = dict(config_class.accessors, **log_class.accessors)", "        self.accessors = dict(log_class.accessors, **config_class.accessors)", rule="R8")
M("C12", "accessors-two-step-twin", "driver/spastruct.py", "        self.accessors = dict(config_class.accessors, **log_class.accessors)", "        merged = dict(config_class.accessors)\n        merged.update(log_class.accessors)\n        self.accessors = merged", expect="silent")
M("C13", "pump-skip-when-output-matches", "automation/pump.py", "            _LOGGER.debug(\"%s set mode %s\", self.name, mode)\n", "            _LOGGER.debug(\"%s set mode %s\", self.name, mode)\n            if mode == self.mode:\n                return\n", rule="R4")
M("C14", "sensor-rounds", "automation/sensors.py", "        return self._accessor.value\n\n    @property\n    def unit_of_measurement", "        v = self._accessor.value\n        return round(v, 1) if isinstance(v, float) else v\n\n    @property\n    def unit_of_measurement", rule="R7")
M("C15", "sync-found-by-membership", "locator.py", "            if descriptor.identifier_as_string == self._spa_to_find:\n                self._has_found_spa = True\n            if descriptor.identifier == self._spa_to_find:\n                self._has_found_spa = True",
  "            self._has_found_spa = True", rule="R8")
M("C15", "sync-no-initial-wait", "locator.py", "                    if self.has_had_enough_time:\n                        if len(self.spas) > 0:", "                    if True:\n                        if len(self.spas) > 0:", rule="R8")
M("C15", "sync-found-one-test-twin", "locator.py", "            if descriptor.identifier_as_string == self._spa_to_find:\n                self._has_found_spa = True\n            if descriptor.identifier == self._spa_to_find:\n                self._has_found_spa = True",
  "            if self._spa_to_find in (descriptor.identifier_as_string, descriptor.identifier):\n                self._has_found_spa = True", expect="silent")
M("C17", "pump-on-whitelist", "automation/pump.py", "        return self._state_sensor.state != \"OFF\"", "        return self._state_sensor.state in (\"HIGH\", \"LOW\")", rule="R6")
M("C17", "switch-on-only-ON", "automation/switch.py", "        return self._state_sensor.state != \"OFF\"", "        return self._state_sensor.state == \"HIGH\"", rule="R6")
M("C19", "snapshot-name-lazy", "utils/snapshot.py", "(r\"Snapshot \\((.*)\\)\", self._re_snapshot_alt)", "(r\"Snapshot \\((.*?)\\)\", self._re_snapshot_alt)", rule="R1")
M("C20", "cleanup-from-stale-copy", "driver/udp_socket.py",
  "                remove_handlers = [\n                    handler\n                    for handler in self._receive_handlers\n                    if handler.should_remove_handler\n                ]\n\n            if remove_handlers:\n                _LOGGER.debug(\"Removed timedout handlers %s\", remove_handlers)\n\n            # Remove them from the collection\n            with self._lock:\n                self._receive_handlers = [\n                    handler\n                    for handler in self._receive_handlers\n",
  "                snapshot_ = list(self._receive_handlers)\n                remove_handlers = [\n                    handler\n                    for handler in self._receive_handlers\n                    if handler.should_remove_handler\n                ]\n\n            if remove_handlers:\n                _LOGGER.debug(\"Removed timedout handlers %s\", remove_handlers)\n\n            # Remove them from the collection\n            with self._lock:\n                self._receive_handlers = [\n                    handler\n                    for handler in snapshot_\n", rule="R10")
M("C20", "cleanup-single-region-twin", "driver/udp_socket.py", "            if remove_handlers:\n                _LOGGER.debug(\"Removed timedout handlers %s\", remove_handlers)\n\n            # Remove them from the collection\n            with self._lock:\n                self._receive_handlers = [",
  "            with self._lock:\n                self._receive_handlers = [", expect="silent")

# --------------------------------------------------------------------------- round 8 rules
M("C02", "mask-ladder-stops-at-31", "driver/accessor.py", "            if self.maxitems > 32:\n                self.bitmask = 63\n            elif self.maxitems > 16:",
  "            if self.maxitems > 16:", rule="R12")
M("C03", "notify-also-when-unchanged", "driver/accessor.py", "        if new_value == old_value:\n            return\n", "", rule="R3")
M("C04", "watercare-mode-or-default", "driver/protocol/watercare.py", "                        GET_WATERCARE_FORMAT,\n                        mode,\n", "                        GET_WATERCARE_FORMAT,\n                        mode or 1,\n", rule="R2")
M("C04", "packet-payload-stripped", "driver/protocol/packet.py", "        return match.groups()", "        return tuple(p.strip() for p in match.groups())", rule="R4")
M("C06", "timeout-restarts-on-any-datagram", "driver/udp_protocol_handler.py",
  "            if protocol.queue.head is not None:\n                data, sender = protocol.queue.head\n                if self.can_handle(data, sender):\n                    protocol.queue.pop()\n                    await self.async_handle(data, sender)\n                    self._reset_timeout()\n                    return True\n",
  "            if protocol.queue.head is not None:\n                data, sender = protocol.queue.head\n                self._reset_timeout()\n                if self.can_handle(data, sender):\n                    protocol.queue.pop()\n                    await self.async_handle(data, sender)\n                    return True\n", rule="R5")
M("C07", "status-handler-accepts-stem", "driver/protocol/statusblock.py", "        return received_bytes.startswith(STATU_VERB) or received_bytes.startswith(",
  "        return received_bytes.startswith(STATU_VERB[:4]) or received_bytes.startswith(", rule="R8")
M("C09", "no-response-never-raised", "async_spa.py", "                        > GeckoConfig.PING_DEVICE_NOT_RESPONDING_TIMEOUT_IN_SECONDS\n                    ):\n                        await self._event_handler(\n                            GeckoSpaEvent.RUNNING_PING_NO_RESPONSE,",
  "                        > GeckoConfig.PING_DEVICE_NOT_RESPONDING_TIMEOUT_IN_SECONDS * 1000\n                    ):\n                        await self._event_handler(\n                            GeckoSpaEvent.RUNNING_PING_NO_RESPONSE,", rule="R3")
M("C09", "driver-locates-from-any-state", "async_spa_manager.py", "                    self.spa_state == GeckoSpaState.IDLE\n                    and self._spa_descriptors is None\n", "                    self._spa_descriptors is None\n", rule="R2")
M("C10", "timer-task-not-cancelled", "config.py", "    await asyncio.wait([ConfigChange], timeout=delay)",
  "    timer = asyncio.ensure_future(asyncio.sleep(delay))\n    await asyncio.wait([ConfigChange, timer], return_when=asyncio.FIRST_COMPLETED)\n    timer.cancel()", rule="R9")
M("C10", "timer-task-cancelled-in-finally-twin", "config.py", "    await asyncio.wait([ConfigChange], timeout=delay)",
  "    timer = asyncio.ensure_future(asyncio.sleep(delay))\n    try:\n        await asyncio.wait([ConfigChange, timer], return_when=asyncio.FIRST_COMPLETED)\n    finally:\n        timer.cancel()", expect="silent")
M("C10", "disconnect-forgets-transport-close", "async_spa.py", "            self._transport.close()\n", "            pass\n", rule="R1")
M("C17", "future-dropped-on-cancel", "config.py", "    await asyncio.wait([ConfigChange], timeout=delay)",
  "    try:\n        await asyncio.wait([ConfigChange], timeout=delay)\n    except asyncio.CancelledError:\n        ConfigChange = None\n        raise", rule="R3")
M("C19", "segment-quotes-naive-replace", "utils/snapshot.py", "        data = re.sub(\n            r\"\\\\.|'\",\n            lambda m: \"\\\\x27\" if m.group(0) == \"'\" else m.group(0),\n            groups[0],\n            flags=re.DOTALL,\n        )\n",
  "        data = groups[0].replace(\"'\", \"\\\\x27\")\n", rule="R3")
M("C19", "dump-row-matches-any-bracket-run", "utils/snapshot.py", "(r\"\\[('0x[0-9A-Fa-f]+'(?:, ?'0x[0-9A-Fa-f]+')*)\\]\", self._re_data)", "(r\"\\[([0-9A-Fa-fx\\\\' ,]*)\\]\", self._re_data)", rule="R3")
M("C20", "final-connect-every-pass", "spa.py", "        if self._is_connected:\n            return\n        if self.isopen:", "        if self.isopen:", rule="R7")
M("C16", "statu-content-from-mutable-fields", "driver/protocol/packet.py", "                self._content,\n", "                self._content if not hasattr(self, \"sequence\") or self.sequence is None or not self._content.startswith(b\"STATU\") else self._content[:5] + bytes([self.sequence & 255]) + self._content[6:],\n", rule="R6")

# --------------------------------------------------------------------------- round 9 rules
M("C16", "async-ack-reads-counter-without-drawing", "driver/protocol/statusblock.py", "                            self._protocol.get_and_increment_sequence_counter(False),",
  "                            self._protocol._sequence_counter_protocol,", rule="R7")
M("C12", "sensor-key-from-name-prefix", "automation/sensors.py", "        super().__init__(facade, name, name.upper())", "        super().__init__(facade, name, name.partition(\":\")[0].upper())", rule="R10")
M("C08", "empty-discovery-becomes-none", "async_locator.py", "        return self._spas\n", "        return self._spas or None\n", rule="I11")
M("C09", "empty-discovery-becomes-none", "async_locator.py", "        return self._spas\n", "        return self._spas or None\n", rule="R8")
M("C19", "co-firmware-minor-from-en", "spa.py", "            handler.co_build, handler.co_major, handler.co_minor", "            handler.co_build, handler.co_major, handler.en_minor", rule="R10")
M("C10", "unwatch-all-removes-while-iterating", "driver/observable.py", "        self._observers.clear()", "        for observer in self._observers:\n            self._observers.remove(observer)", rule="R5")
M("C15", "hello-names-decoded-as-cp1252", "const.py", "    MESSAGE_ENCODING = \"latin1\"", "    MESSAGE_ENCODING = \"cp1252\"", rule="R10")
M("C18", "build-accessors-updates-in-place", "driver/spastruct.py", "        self.accessors = dict(config_class.accessors, **log_class.accessors)",
  "        self.accessors.update(config_class.accessors)\n        self.accessors.update(log_class.accessors)", rule="R9")
M("C05", "packet-payload-stripped", "driver/protocol/packet.py", "        return match.groups()", "        return tuple(p.strip() for p in match.groups())", rule="R11")
M("C07", "rferr-claims-verb-anywhere", "driver/protocol/rferr.py", "        return received_bytes.startswith(RFERR_VERB)", "        return RFERR_VERB in received_bytes", rule="R8")
M("C04", "rferr-claims-verb-anywhere", "driver/protocol/rferr.py", "        return received_bytes.startswith(RFERR_VERB)", "        return RFERR_VERB in received_bytes", rule="R1")
M("C11", "heater-both-flags-unmapped", "automation/heater.py", "            if self._heating_action_sensor.is_on:\n                return GeckoConstants.WATER_HEATER_HEATING\n            elif self._cooling_action_sensor.is_on:",
  "            if self._heating_action_sensor.is_on and self._cooling_action_sensor.is_on:\n                raise KeyError((True, True))\n            if self._heating_action_sensor.is_on:\n                return GeckoConstants.WATER_HEATER_HEATING\n            elif self._cooling_action_sensor.is_on:", rule="R8")

# --------------------------------------------------------------------------- round 10 rules
M("C01", "discard-consumer-unpacks-pop", "driver/protocol/unhandled.py", "                    data, sender = protocol.queue.head\n                    protocol.queue.pop()",
  "                    data, sender = protocol.queue.pop()", rule="R9")
M("C01", "discard-consumer-head-then-pop-twin", "driver/protocol/unhandled.py", "                    data, sender = protocol.queue.head\n                    protocol.queue.pop()",
  "                    head = protocol.queue.head\n                    data, sender = head\n                    protocol.queue.pop()", expect="silent")
M("C02", "send-queue-pops-the-tail", "driver/udp_socket.py", "                    send_handler = self._send_handlers.pop(0)", "                    send_handler = self._send_handlers.pop()", rule="R13")
M("C05", "async-send-path-rate-gate-drops", "driver/async_udp_protocol.py", "        assert self.transport is not None\n        if destination is None:",
  "        assert self.transport is not None\n        import time as _t\n        if _t.monotonic() - getattr(self, \"_last_tx\", 0.0) < 0.02:\n            return\n        self._last_tx = _t.monotonic()\n        if destination is None:", rule="R12")
M("C07", "watercare-waiter-also-takes-wcerr", "driver/protocol/watercare.py", "            or received_bytes.startswith(WCSET_VERB)\n", "            or received_bytes.startswith(WCSET_VERB)\n            or received_bytes.startswith(WCERR_VERB)\n", rule="R10")
M("C08", "rf-error-event-reuses-500", "spa_events.py", "    ERROR_RF_ERROR = 502", "    ERROR_RF_ERROR = 500", rule="I12")
M("C08", "rf-error-event-renumbered-twin", "spa_events.py", "    ERROR_RF_ERROR = 502", "    ERROR_RF_ERROR = 503", expect="silent")
M("C10", "tidy-partitions-across-a-wait", "async_tasks.py", "                self._tasks = [task for task in self._tasks if not task.done()]",
  "                done, pending = await asyncio.wait(self._tasks, timeout=0)\n                self._tasks = [task for task in self._tasks if task in pending]", rule="R6")
M("C10", "tidy-filters-in-one-step-twin", "async_tasks.py", "                self._tasks = [task for task in self._tasks if not task.done()]",
  "                live = [task for task in self._tasks if not task.done()]\n                self._tasks = live", expect="silent")
M("C11", "switch-is-on-by-label-index", "automation/switch.py", "        return self._state_sensor.state != \"OFF\"", "        return self._accessor.items.index(self._state_sensor.state) > 0", rule="R10")
M("C12", "enum-decode-bound-off-by-one", "driver/accessor.py", "            try:\n                data = self.items[data]\n            except IndexError:\n                data = \"Unknown\"",
  "            if data > len(self.items):\n                data = \"Unknown\"\n            else:\n                data = self.items[data]", rule="R11")
M("C16", "reqrm-number-as-text", "driver/protocol/reminders.py", "            content=b\"\".join([REQRM_VERB, struct.pack(\">B\", seq)]),", "            content=REQRM_VERB + chr(seq).encode(),", rule="R8")
M("C16", "reqrm-number-as-latin1-text-twin", "driver/protocol/reminders.py", "            content=b\"\".join([REQRM_VERB, struct.pack(\">B\", seq)]),", "            content=REQRM_VERB + bytes([seq]),", expect="silent")
M("C19", "log-reader-memoised-by-path", "utils/snapshot.py", "    @staticmethod\n    def parse_log_file(file: str):", "    @staticmethod\n    @__import__(\"functools\").lru_cache(maxsize=32)\n    def parse_log_file(file: str):", rule="R1")
M("C20", "loop-hook-reads-raising-property", "spa.py", "    def _loop_func(self):\n        if self._is_connected:\n            return", "    def _loop_func(self):\n        if self.is_connected:\n            return", rule="R7")
M("C08", "connect-treats-false-block-as-some", "async_spa.py", "        if not await self.struct.get(\n            self._protocol,\n            lambda: GeckoStatusBlockProtocolHandler.full_request(\n                self._protocol.get_and_increment_sequence_counter(False),\n                parms=self.sendparms,\n            ),\n        ):",
  "        if (await self.struct.get(\n            self._protocol,\n            lambda: GeckoStatusBlockProtocolHandler.full_request(\n                self._protocol.get_and_increment_sequence_counter(False),\n                parms=self.sendparms,\n            ),\n        )) is None:", rule="I1")

# --------------------------------------------------------------------------- round 11 rules
M("C03", "previous-block-kept-on-the-object", "driver/spastruct.py", "        previous_block = self._status_block", "        previous_block = self._previous_block = self._status_block", expect="silent")
M("C03", "previous-block-read-back-from-the-object", "driver/spastruct.py", "            accessor.status_block_changed(offset, segment_len, previous_block)",
  "            self._previous_block = getattr(self, \"_previous_block\", previous_block) if False else previous_block\n            accessor.status_block_changed(offset, segment_len, self._previous_block)", expect="silent")
M("C06", "retry-pause-sleeper-cancels-the-shared-future", "config.py", "    await asyncio.wait([ConfigChange], timeout=delay)",
  "    try:\n        await asyncio.wait_for(ConfigChange, timeout=delay)\n    except asyncio.TimeoutError:\n        pass", rule="R8")
M("C13", "registry-refuses-a-second-same-named-task", "async_tasks.py", "        task = asyncio.create_task(coroutine, name=f\"{key_}:{name_}\")",
  "        if any(t.get_name() == f\"{key_}:{name_}\" and not t.done() for t in self._tasks):\n            coroutine.close()\n            return\n        task = asyncio.create_task(coroutine, name=f\"{key_}:{name_}\")", rule="R11")
M("C10", "registry-refuses-a-second-same-named-task", "async_tasks.py", "        task = asyncio.create_task(coroutine, name=f\"{key_}:{name_}\")",
  "        if any(t.get_name() == f\"{key_}:{name_}\" and not t.done() for t in self._tasks):\n            coroutine.close()\n            return\n        task = asyncio.create_task(coroutine, name=f\"{key_}:{name_}\")", rule="R3")
M("C17", "periodic-update-goes-idle-when-the-spa-is-quiet", "automation/async_facade.py", "                    self._ready = True\n",
  "                    self._ready = True\n                else:\n                    set_config_mode(False)\n", rule="R5")
M("C18", "pump-modes-edits-the-live-label-list", "automation/pump.py", "        return self._user_demand[\"options\"]",
  "        modes = self._user_demand[\"options\"]\n        if \"OFF\" in modes:\n            modes.remove(\"OFF\")\n        return modes", rule="R10")
M("C18", "pump-modes-filters-a-copy-twin", "automation/pump.py", "        return self._user_demand[\"options\"]",
  "        modes = self._user_demand[\"options\"]\n        return [m for m in modes] if modes is not None else modes", expect="silent")

# --------------------------------------------------------------------------- round 12 rules
M("C01", "statu-request-budget-in-the-signature", "driver/protocol/statusblock.py", "    def request(seq, start, length, **kwargs):", "    def request(seq, start, length, retry_count=GeckoConfig.PROTOCOL_RETRY_COUNT, **kwargs):", rule="R10")
M("C04", "packet-parms-kept-while-the-address-is-the-same", "driver/protocol/packet.py", "        self._parms = (sender[0], sender[1], src_identifier, dest_identifier)",
  "        if self._parms is None or tuple(self._parms[:2]) != (sender[0], sender[1]):\n            self._parms = (sender[0], sender[1], src_identifier, dest_identifier)", rule="R4")
M("C08", "connect-finally-reads-the-spa", "async_spa_manager.py", "        finally:\n            await self._handle_event(\n                GeckoSpaEvent.CONNECTION_FINISHED, facade=self._facade\n            )",
  "        finally:\n            if not self._spa.is_connected:\n                _LOGGER.warning(\"Connection sequence did not complete\")\n            await self._handle_event(\n                GeckoSpaEvent.CONNECTION_FINISHED, facade=self._facade\n            )", rule="I5")
M("C09", "rf-error-also-while-connecting", "async_spa_manager.py", "        elif event == GeckoSpaEvent.ERROR_RF_ERROR:\n            if self._spa_state == GeckoSpaState.CONNECTED:",
  "        elif event == GeckoSpaEvent.ERROR_RF_ERROR:\n            if self._spa_state in (GeckoSpaState.CONNECTING, GeckoSpaState.CONNECTED):", rule="R2")
M("C12", "config-change-devices-extends-the-pump-list", "automation/async_facade.py", "        return self._pumps + self._blowers  # type: ignore", "        devices = self._pumps\n        devices += self._blowers\n        return devices", rule="R12")
M("C12", "config-change-devices-extends-a-copy-twin", "automation/async_facade.py", "        return self._pumps + self._blowers  # type: ignore", "        devices = list(self._pumps)\n        devices += self._blowers\n        return devices", expect="silent")
M("C15", "spa-name-accessor-asserts-truthiness", "driver/protocol/hello.py", "        assert self._spa_name is not None", "        assert self._spa_name, \"Last datagram was not a spa hello\"", rule="R9")
M("C16", "socket-error-rewinds-the-counters", "driver/async_udp_protocol.py", "    def error_received(self, exc) -> None:", "    def error_received(self, exc) -> None:\n        self._sequence_counter_protocol = 0\n        self._sequence_counter_command = 191", rule="R3")
M("C19", "statv-header-found-by-lstrip", "driver/protocol/statusblock.py", "        remainder = received_bytes[5:]\n        if received_bytes.startswith(STATU_VERB):", "        remainder = received_bytes.lstrip(STATU_VERB if received_bytes.startswith(STATU_VERB) else STATV_VERB)\n        if received_bytes.startswith(STATU_VERB):", rule="R3")
M("C20", "version-answer-flagged-before-decode", "driver/protocol/version.py", "        # Otherwise must be SVERS\n        (", "        # Otherwise must be SVERS\n        self._should_remove_handler = True\n        (", rule="R5")

# --------------------------------------------------------------------------- round 13 rules
M("C02", "time-minutes-clamped-to-sixty", "driver/accessor.py", "    def _set_value(self, newvalue):\n        \"\"\"Set a value in the pack structure using the initialized declaration\"\"\"\n        if self.read_write is None:\n            raise Exception(\n                GeckoConstants.EXCEPTION_MESSAGE_NOT_WRITABLE.format(self.tag)\n            )\n\n        if self.type == GeckoConstants.SPA_PACK_STRUCT_ENUM_TYPE:\n            newvalue = self.items.index(newvalue)\n        elif self.type == GeckoConstants.SPA_PACK_STRUCT_TIME_TYPE:\n            bits = newvalue.split(\":\")\n            newvalue = (int(bits[0]) * 256) + (int(bits[1]) % 256)", "    def _set_value(self, newvalue):\n        \"\"\"Set a value in the pack structure using the initialized declaration\"\"\"\n        if self.read_write is None:\n            raise Exception(\n                GeckoConstants.EXCEPTION_MESSAGE_NOT_WRITABLE.format(self.tag)\n            )\n\n        if self.type == GeckoConstants.SPA_PACK_STRUCT_ENUM_TYPE:\n            newvalue = self.items.index(newvalue)\n        elif self.type == GeckoConstants.SPA_PACK_STRUCT_TIME_TYPE:\n            bits = newvalue.split(\":\")\n            newvalue = (int(bits[0]) * 256) + (int(bits[1]) % 60)", rule="R14")
M("C03", "observers-kept-by-weak-reference", "driver/observable.py", "        self._observers.append(observer)", "        import weakref\n        self._observers.append(weakref.ref(observer))", rule="R5")
M("C04", "statv-payload-counted-from-the-end", "driver/protocol/statusblock.py", "        self.data = remainder[3 : self.length + 3]", "        self.data = remainder[-self.length :]", rule="R2")
M("C13", "watercare-names-swapped", "const.py", "        \"Energy Saving\",\n        \"Super Energy Saving\",", "        \"Super Energy Saving\",\n        \"Energy Saving\",", rule="R6")
M("C17", "config-members-a-generator", "config.py", "CONFIG_MEMBERS = [\n    attr\n    for attr in dir(_GeckoConfig)\n    if not callable(getattr(_GeckoConfig, attr)) and not attr.startswith(\"__\")\n]", "CONFIG_MEMBERS = (\n    attr\n    for attr in dir(_GeckoConfig)\n    if not callable(getattr(_GeckoConfig, attr)) and not attr.startswith(\"__\")\n)", rule="R1")
M("C17", "config-members-a-tuple-twin", "config.py", "CONFIG_MEMBERS = [\n    attr\n    for attr in dir(_GeckoConfig)\n    if not callable(getattr(_GeckoConfig, attr)) and not attr.startswith(\"__\")\n]", "CONFIG_MEMBERS = tuple(\n    attr\n    for attr in dir(_GeckoConfig)\n    if not callable(getattr(_GeckoConfig, attr)) and not attr.startswith(\"__\")\n)", expect="silent")

# --------------------------------------------------------------------------- round 14 rules
M("C09", "refresh-loop-ends-when-pings-pause", "async_spa.py", "            if not self.is_responding_to_pings:\n                continue\n            if not await self.struct.get(", "            if not self.is_responding_to_pings:\n                break\n            if not await self.struct.get(", rule="R4")
M("C10", "transfer-returns-from-finally", "driver/async_spastruct.py", "    async def get(", "    async def _unused_probe(self):\n        try:\n            pass\n        finally:\n            return None\n\n    async def get(", rule="R4")
M("C14", "cooling-key-spelled-differently", "const.py", "    KEY_COOLINGDOWN = \"CoolingDown\"", "    KEY_COOLINGDOWN = \"Coolingdown\"", rule="R12")
M("C08", "protocol-disconnect-closes-a-lost-transport", "driver/async_udp_protocol.py", "    def disconnect(self) -> None:\n        self.connection_lost(None)", "    def disconnect(self) -> None:\n        self.transport.close()\n        self.connection_lost(None)", rule="I6")
M("C17", "reminders-none-on-exhausted-retries", "async_spa.py", "            await self._event_handler(GeckoSpaEvent.ERROR_PROTOCOL_RETRY_COUNT_EXCEEDED)\n            return []", "            await self._event_handler(GeckoSpaEvent.ERROR_PROTOCOL_RETRY_COUNT_EXCEEDED)\n            return None", rule="R5")
M("C18", "time-items-keep-the-default-width", "driver/accessor.py", "        if (\n            self.type == GeckoConstants.SPA_PACK_STRUCT_WORD_TYPE\n            or self.type == GeckoConstants.SPA_PACK_STRUCT_TIME_TYPE\n        ):", "        if self.type == GeckoConstants.SPA_PACK_STRUCT_WORD_TYPE:", rule="R11")
M("C19", "snapshot-segments-on-the-class", "utils/snapshot.py", "class GeckoSnapshot:\n    def __init__(self):\n        self._lines = []", "class GeckoSnapshot:\n    _status_block_segments = []\n\n    def __init__(self):\n        self._lines = []", expect="silent")

# --------------------------------------------------------------------------- round 15 rules
M("C01", "received-datagram-rstripped", "driver/async_udp_protocol.py", "        self.queue.put_nowait((data, addr))", "        self.queue.put_nowait((data.rstrip(), addr))", rule="R12")
M("C01", "received-datagram-copied-twin", "driver/async_udp_protocol.py", "        self.queue.put_nowait((data, addr))", "        self.queue.put_nowait((bytes(data), addr))", expect="silent")
M("C02", "async-command-counter-wraps-a-step-late", "driver/async_udp_protocol.py", "            if self._sequence_counter_command == 255:", "            if self._sequence_counter_command > 255:", rule="R15")
M("C05", "receive-buffer-of-one-block", "driver/udp_socket.py", "    _MAX_PACKET_SIZE = 8192", "    _MAX_PACKET_SIZE = 1024", rule="R14")
M("C05", "receive-buffer-of-two-kilobytes-twin", "driver/udp_socket.py", "    _MAX_PACKET_SIZE = 8192", "    _MAX_PACKET_SIZE = 2048", expect="silent")
M("C08", "transfer-turns-any-exception-into-failure", "driver/async_spastruct.py", "    async def get(self, protocol, create_func, retry_count=10):\n", "    async def get(self, protocol, create_func, retry_count=10):\n        try:\n            return await self._get(protocol, create_func, retry_count)\n        except:  # noqa\n            return False\n\n    async def _get(self, protocol, create_func, retry_count):\n", rule="I13")
M("C09", "ping-timeout-a-quarter-of-the-period", "driver/protocol/ping.py", "            content=PING_VERB, timeout=GeckoConfig.PROTOCOL_TIMEOUT_IN_SECONDS, **kwargs", "            content=PING_VERB, timeout=GeckoConfig.PING_FREQUENCY_IN_SECONDS // 4, **kwargs", rule="R9")
M("C09", "ping-timeout-capped-by-the-period-twin", "driver/protocol/ping.py", "            content=PING_VERB, timeout=GeckoConfig.PROTOCOL_TIMEOUT_IN_SECONDS, **kwargs", "            content=PING_VERB, timeout=max(1, min(GeckoConfig.PROTOCOL_TIMEOUT_IN_SECONDS, GeckoConfig.PING_FREQUENCY_IN_SECONDS * 2)), **kwargs", expect="silent")
M("C10", "request-lock-swallows-what-leaves-it", "driver/async_udp_protocol.py", "        return await super().__aexit__(exc_type, exc, tb)", "        await super().__aexit__(exc_type, exc, tb)\n        return exc_type is not None", rule="R4")
M("C10", "request-lock-returns-false-twin", "driver/async_udp_protocol.py", "        return await super().__aexit__(exc_type, exc, tb)", "        await super().__aexit__(exc_type, exc, tb)\n        return False", expect="silent")
M("C11", "pump-modes-through-a-speed-table", "automation/pump.py", "        return self._user_demand[\"options\"]", "        return [o for o in self._user_demand[\"options\"] if {\"OFF\": 0, \"LO\": 1, \"HI\": 2}[o] >= 0]", rule="R12")
M("C12", "scan-skips-the-heater-output", "automation/async_facade.py", "            for output in self._spa.struct.all_outputs\n        }", "            for output in self._spa.struct.all_outputs\n            if not output.startswith(\"OutHtr\")\n        }", rule="R1")
M("C15", "protocol-default-queue-object", "driver/async_udp_protocol.py", "    def __init__(self, on_connection_lost, destination) -> None:\n        self.transport = None\n        self._on_connection_lost = on_connection_lost\n        self._destination = destination\n\n        self._sequence_counter_protocol = 0\n        self._sequence_counter_command = 191\n        self._queue = AsyncPeekableQueue()", "    def __init__(self, on_connection_lost, destination, queue=AsyncPeekableQueue()) -> None:\n        self.transport = None\n        self._on_connection_lost = on_connection_lost\n        self._destination = destination\n\n        self._sequence_counter_protocol = 0\n        self._sequence_counter_command = 191\n        self._queue = queue", rule="R11")
M("C20", "channel-step-budget-from-the-timeout", "driver/protocol/getchannel.py", "            retry_count=GeckoConfig.PROTOCOL_RETRY_COUNT,", "            retry_count=GeckoConfig.PROTOCOL_TIMEOUT_IN_SECONDS,", rule="R5")

# --------------------------------------------------------------------------- round 16 rules
M("C02", "celsius-told-by-raw-index", "driver/accessor.py", "    def _set_value(self, temp):\n        \"\"\"Set the temperature\"\"\"\n        units = self.struct.accessors[GeckoConstants.KEY_TEMP_UNITS].value\n        if units == \"C\":", "    def _set_value(self, temp):\n        \"\"\"Set the temperature\"\"\"\n        units = \"C\" if self.struct.accessors[GeckoConstants.KEY_TEMP_UNITS].raw_value == 1 else \"F\"\n        if units == \"C\":", rule="R16")
M("C09", "driver-reads-the-address-once", "async_spa_manager.py", "        _LOGGER.debug(\"SpaMan sequence pump started\")\n\n        try:\n            while True:\n\n                if (\n                    self.spa_state == GeckoSpaState.IDLE\n                    and self._spa_descriptors is None\n                ):\n                    await self.async_locate_spas(self._spa_address)", "        _LOGGER.debug(\"SpaMan sequence pump started\")\n        address = self._spa_address\n\n        try:\n            while True:\n\n                if (\n                    self.spa_state == GeckoSpaState.IDLE\n                    and self._spa_descriptors is None\n                ):\n                    await self.async_locate_spas(address)", rule="R10")
M("C10", "rf-fault-text-looked-up-past-a-table", "spa_state.py", "        elif state == GeckoSpaState.ERROR_RF_FAULT:", "        elif state == GeckoSpaState.ERROR_RF_FAULT and (\"Lost contact\",)[state.value - GeckoSpaState.ERROR_SPA_NOT_FOUND.value]:", rule="R10")
M("C11", "observable-repr-names-bound-methods", "driver/observable.py", "        return f\"{self.__class__.__name__} watched by={self._observers!r}\"", "        return f\"{self.__class__.__name__} watched by={[o.__self__.__class__.__name__ for o in self._observers]!r}\"", rule="R12")
M("C11", "observable-repr-names-callables-twin", "driver/observable.py", "        return f\"{self.__class__.__name__} watched by={self._observers!r}\"", "        return f\"{self.__class__.__name__} watched by={[getattr(o, '__name__', repr(o)) for o in self._observers]!r}\"", expect="silent")
M("C12", "outli-not-scanned-on-one-config", "driver/packs/inxm-cfg-1.py", "            \"Out7A\",\n            \"OutLi\",\n            \"LightActivationOrder\",", "            \"Out7A\",\n            \"LightActivationOrder\",", rule="R13")
M("C13", "single-speed-pumps-lose-lo-in-place", "automation/async_facade.py", "        self._blowers = [", "        for pump in self._pumps:\n            if f\"{pump.key}L\" not in actual_connections.values() and \"LO\" in pump.modes:\n                pump.modes.remove(\"LO\")\n        self._blowers = [", rule="R13")
M("C13", "config-version-from-the-log-version", "async_spa.py", "        self.config_version = config_file_handler.config_version", "        self.config_version = config_file_handler.log_version", rule="R5")
M("C14", "blocking-structure-skips-a-repeated-write", "driver/spastruct.py", "        # Delegate this\n", "        # Delegate this\n        if getattr(self, \"_last_write\", None) == (pos, length, newvalue):\n            return\n        self._last_write = (pos, length, newvalue)\n", rule="R13")
M("C17", "range-filter-ends-a-byte-early", "driver/accessor.py", "        intersection_end = min(offset + len, self.pos + self.length)", "        intersection_end = min(offset + len - 1, self.pos + self.length)", rule="R9")
M("C18", "older-config-table-stands-in", "async_spa.py", "        try:\n            GeckoConfigStruct = importlib.import_module(\n                config_module_name\n            ).GeckoConfigStruct", "        try:\n            importlib.import_module(config_module_name)\n        except ModuleNotFoundError:\n            config_module_name = f\"geckolib.driver.packs.{plateform_key}-cfg-{self.config_version - 1}\"\n        try:\n            GeckoConfigStruct = importlib.import_module(\n                config_module_name\n            ).GeckoConfigStruct", rule="R8")
M("C20", "receive-step-guards-only-the-socket-read", "driver/udp_socket.py", "                self.dispatch_recevied_data(received_bytes, remote_end)\n            except socket.timeout:\n                return\n            except OSError as e:\n                _LOGGER.debug(\"OS Exception %s during socket receive\", e)\n                return\n            except Exception:\n                _LOGGER.exception(\"Exception during receive processing\")\n                return\n            finally:\n                pass\n", "            except socket.timeout:\n                return\n            except OSError as e:\n                _LOGGER.debug(\"OS Exception %s during socket receive\", e)\n                return\n            self.dispatch_recevied_data(received_bytes, remote_end)\n", rule="R4")
M("C20", "receive-step-guard-moved-to-the-thread-loop-twin", "driver/udp_socket.py", "            self._process_received_data()\n            # Do loop for timeout/retry", "            try:\n                self._process_received_data()\n            except Exception:\n                _LOGGER.exception(\"Exception during receive processing\")\n            # Do loop for timeout/retry", expect="silent")
M("C20", "handler-loop-unguarded-again", "driver/udp_socket.py", "                try:\n                    handler.loop(self)\n                except Exception:\n                    _LOGGER.exception(\"Exception during handler loop\")\n", "                handler.loop(self)\n", rule="R4")

# --------------------------------------------------------------------------- round 17 rules
M("C01", "request-lock-kept-when-the-section-raises", "driver/async_udp_protocol.py", "        _LOGGER.debug(\"Release lock for task %s\", t.get_name())\n        return await super().__aexit__(exc_type, exc, tb)", "        _LOGGER.debug(\"Release lock for task %s\", t.get_name())\n        if exc_type is not None:\n            return None\n        return await super().__aexit__(exc_type, exc, tb)", rule="R13")
M("C03", "time-items-decoded-from-the-live-block", "driver/accessor.py", "            data = f\"{int(data/256):02}:{data%256:02}\"", "            data = f\"{int(self.raw_value/256):02}:{self.raw_value%256:02}\"", rule="R3")
M("C04", "reminders-reply-built-through-a-dict", "driver/protocol/reminders.py", "                    for reminder in reminders\n", "                    for reminder in dict(reminders).items()\n", rule="R2")
M("C05", "request-engine-empties-the-queue-on-timeout", "driver/async_udp_protocol.py", "                # Loop for retry\n                retry_count -= 1\n", "                # Loop for retry\n                retry_count -= 1\n                while self.queue.head is not None:\n                    self.queue.pop()\n", rule="R15")
M("C06", "active-table-asks-for-five-attempts", "config.py", "    PROTOCOL_TIMEOUT_IN_SECONDS = 4\n    PROTOCOL_RETRY_COUNT = 10\n    PAUSE_BETWEEN_RETRIES_IN_SECONDS = 2\n\n\n@dataclass\nclass _GeckoIdleConfig", "    PROTOCOL_TIMEOUT_IN_SECONDS = 4\n    PROTOCOL_RETRY_COUNT = 5\n    PAUSE_BETWEEN_RETRIES_IN_SECONDS = 2\n\n\n@dataclass\nclass _GeckoIdleConfig", rule="R9")
M("C08", "facade-takes-back-its-own-observer-only", "automation/async_facade.py", "        for device in self.all_automation_devices:\n            device.unwatch_all()", "        for device in self.all_automation_devices:\n            device.unwatch(self._on_change)", rule="I14")
M("C13", "fahrenheit-written-as-the-textbook-formula", "driver/accessor.py", "            temp = (float(temp) * 10.0) - 320\n        super()._set_value(int(temp))", "            temp = (float(temp) - 32.0) * 10.0\n        super()._set_value(int(temp))", rule="R14")
M("C14", "set-value-as-wide-as-the-value", "driver/protocol/packcommand.py", "        elif len == 2:\n            data = struct.pack(\">H\", data)", "        elif len == 2:\n            data = struct.pack(\">H\", data) if data > 255 else struct.pack(\">B\", data)", rule="R14")
M("C15", "receive-queue-keeps-the-last-32", "driver/async_peekablequeue.py", "    def __init__(self):\n        super().__init__()\n        self._marked = False\n", "    def _init(self, maxsize):\n        import collections\n        self._queue = collections.deque(maxlen=32)\n\n    def __init__(self):\n        super().__init__()\n        self._marked = False\n", rule="R12")
M("C15", "receive-queue-on-an-unbounded-deque-twin", "driver/async_peekablequeue.py", "    def __init__(self):\n        super().__init__()\n        self._marked = False\n", "    def _init(self, maxsize):\n        import collections\n        self._queue = collections.deque()\n\n    def __init__(self):\n        super().__init__()\n        self._marked = False\n", expect="silent")
M("C19", "session-log-rotates", "utils/shared_command.py", "        self.file_logger = logging.FileHandler(arg)", "        import logging.handlers\n        self.file_logger = logging.handlers.RotatingFileHandler(arg, maxBytes=4 << 20, backupCount=9)", rule="R13")

# --------------------------------------------------------------------------- round 18 rules
M("C01", "water-care-error-consumer-finds-its-verb-anywhere", "driver/protocol/watercare.py", "        return received_bytes.startswith(WCERR_VERB)", "        return WCERR_VERB in received_bytes", rule="R14")
M("C02", "setter-tidies-text-input", "driver/accessor.py", "        \"\"\"Set a value in the pack structure using the initialized declaration\"\"\"\n        self._set_value(newvalue)", "        \"\"\"Set a value in the pack structure using the initialized declaration\"\"\"\n        if isinstance(newvalue, str):\n            newvalue = newvalue.strip()\n        self._set_value(newvalue)", rule="R17")
M("C05", "refresh-handler-claims-the-stat-family", "driver/protocol/statusblock.py", "        return received_bytes.startswith(STATU_VERB) or received_bytes.startswith(\n            STATV_VERB\n        )", "        return received_bytes.startswith(b\"STAT\")", rule="R16")
M("C07", "packet-header-found-after-a-greedy-prefix", "driver/protocol/packet.py", "        match = re.search(\n            b\"\".join(\n                [\n                    SRCCN_OPEN,", "        match = re.match(\n            b\"\".join(\n                [\n                    b\".*\",\n                    SRCCN_OPEN,", rule="R11")
M("C09", "facade-disconnect-waits-for-its-update-task", "automation/async_facade.py", "        for device in self.all_automation_devices:\n            device.unwatch_all()", "        for device in self.all_automation_devices:\n            device.unwatch_all()\n        await asyncio.Event().wait()", rule="R11")
M("C12", "declarations-kept-per-module-name", "async_spa.py", "_LOGGER = logging.getLogger(__name__)\n", "_LOGGER = logging.getLogger(__name__)\n_PACKS = {}\n\n\ndef _pack_for(name, struct):\n    if name not in _PACKS:\n        _PACKS[name] = importlib.import_module(name).GeckoPack(struct)\n    return _PACKS[name]\n", rule="R14")
M("C15", "hello-frame-allows-one-separator", "driver/protocol/hello.py", "        return received_bytes.startswith(HELLO_OPEN) and received_bytes.endswith(\n            HELLO_CLOSE\n        )", "        return received_bytes.startswith(HELLO_OPEN) and received_bytes.endswith(\n            HELLO_CLOSE\n        ) and received_bytes.count(b\"|\") <= 1", rule="R13")
M("C19", "received-line-shows-the-first-256-bytes", "driver/udp_socket.py", "            _LOGGER.debug(\"Received %s from %s\", received_bytes, remote_end)", "            _LOGGER.debug(\"Received %s from %s\", received_bytes[:256], remote_end)", rule="R14")
M("C11", "waterfall-demand-listed-under-another-spelling", "driver/packs/inye-v3-log-83.py", "            \"UdWaterfall\",\n", "            \"UdWaterFall\",\n", rule="R12")

# --------------------------------------------------------------------------- round 19 rules
M("C04", "set-value-versions-in-the-other-order", "driver/protocol/packcommand.py", "                        config_version,\n                        log_version,\n                        pos,", "                        log_version,\n                        config_version,\n                        pos,", rule="R8")
M("C17", "refresh-stores-the-block-without-notifying", "driver/async_spastruct.py", "                                self.replace_status_block_segment(\n                                    request.start,\n                                    b\"\".join(segments),\n                                )", "                                data_ = b\"\".join(segments)\n                                self.set_status_block(self._status_block[: request.start] + data_ + self._status_block[request.start + len(data_) :])", rule="R10")
M("C18", "keypadless-switch-makes-its-item-writable", "automation/switch.py", "        self._keypad_button = props[1]\n", "        self._keypad_button = props[1]\n        if self._keypad_button == 0:\n            self._accessor.set_read_write(\"ALL\")\n", rule="R10")
M("C02", "accessor-tables-kept-on-the-class", "driver/async_spastruct.py", "class GeckoAsyncStructure:\n", "class GeckoAsyncStructure:\n    _tables = {}\n\n    def _remember(self, key, value):\n        self._tables[key] = value\n\n", rule="R18")
