"""Positive control for C07.R2: a function outside the three consumers that pops."""


class Rogue:
    async def drain(self, protocol):
        while protocol.queue.head is not None:
            protocol.queue.pop()
