"""Verdict / evidence / known-findings plumbing shared by every check.

Exit codes (see DESIGN.md 3.7):
  0  every obligation of every armed rule PROVED (open known findings are printed)
  1  at least one obligation REFUTED that is not an open known finding -> VIOLATION line
  2  ANALYSIS-ERROR: anchor vanished, instance floor missed, unsupported construct,
     internal exception.  Never a VIOLATION line.
"""
from __future__ import annotations

import json
import os
import sys
import time
import traceback
from pathlib import Path

VERIF = Path(__file__).resolve().parent.parent
KNOWN_FINDINGS = VERIF / "known_findings.txt"


def repo_root() -> Path:
    return Path(os.environ.get("GECKO_REPO", "/repo")).resolve()


class AnalysisError(Exception):
    """The analysis itself cannot decide (anchor missing, unsupported idiom)."""


class Finding:
    def __init__(self, rule, key, what, loc=None, detail=None):
        self.rule = rule
        self.key = key
        self.what = what
        self.loc = loc
        self.detail = detail

    def ident(self):
        return (self.rule, self.key)

    def to_json(self):
        return {
            "rule": self.rule,
            "key": self.key,
            "what": self.what,
            "loc": self.loc,
            "detail": self.detail,
        }


def load_known_findings():
    """-> (open: dict[(prop, rule, key)] -> what, fixed: list)"""
    open_, fixed = {}, []
    if not KNOWN_FINDINGS.exists():
        return open_, fixed
    for line in KNOWN_FINDINGS.read_text().splitlines():
        line = line.strip()
        if not line or line.startswith("#"):
            continue
        if line.startswith("open:"):
            body = line[len("open:"):].strip()
            fields = {}
            # property=.. rule=.. key=.. what=<rest of line>
            what = ""
            if " what=" in body:
                body, what = body.split(" what=", 1)
            for tok in body.split():
                if "=" in tok:
                    k, v = tok.split("=", 1)
                    fields[k] = v
            open_[(fields.get("property"), fields.get("rule"), fields.get("key"))] = what
        elif line.startswith("fixed:"):
            fixed.append(line)
    return open_, fixed


class _Borrowed:
    def __init__(self, ctx, rule, origin, only, key_prefix, key_contains=None):
        self._c, self._rule, self._origin, self._only, self._kp = ctx, rule, origin, only, key_prefix
        self._kc = key_contains
        self.tier = ctx.tier
        self.pid = ctx.pid
        self.extra = {}
        self.trusted = []
        self.exhaustive = False

    def rule(self, rid, text):
        pass

    def ob(self, rule, key, ok, what, loc=None, detail=None, sample=None):
        r = rule.split(".")[-1]
        if self._only is not None and r not in self._only:
            return bool(ok)
        if self._kp is not None and not key.startswith(self._kp):
            return bool(ok)
        if self._kc is not None and self._kc not in key:
            return bool(ok)
        return self._c.ob(self._rule, f"{self._origin}.{r}::{key}", ok, f"[{self._origin}.{r}] {what}", loc, detail, None)

    def sample(self, s):
        pass

    def floor(self, rule, what, count, minimum):
        r = rule.split(".")[-1]
        if self._only is not None and r not in self._only:
            return
        self._c.floor(self._rule, f"{self._origin}.{r} {what}", count, minimum)

    def count(self, name, n):
        self._c.count(f"{self._origin}:{name}", n)

    def error(self, msg):
        self._c.error(f"[{self._origin}] {msg}")

    def note(self, msg):
        pass

    def assume(self, msg):
        self._c.assume(msg)


class Ctx:
    """One run of one property's check."""

    def __init__(self, pid: str, tier: str, seed: int = 0, quiet=False):
        self.pid = pid
        self.tier = tier
        self.seed = seed
        self.quiet = quiet
        self.t0 = time.time()
        self.obligations = []  # (rule, key, ok, what, loc)
        self.findings = []  # refuted obligations
        self.samples = []
        self.rules = {}  # rule id -> description
        self.counts = {}  # name -> number (units analysed)
        self.notes = []
        self.assumptions = []
        self.trusted = ["CPython ast parser"]
        self.exhaustive = False
        self.extra = {}
        self.errors = []  # analysis errors (strings)

    # ---- rule bookkeeping -------------------------------------------------
    def rule(self, rid: str, text: str):
        self.rules[rid] = text

    def ob(self, rule, key, ok, what, loc=None, detail=None, sample=None):
        """Record one obligation.  ok is True (proved) / False (refuted)."""
        rid = rule if rule.startswith(self.pid) else f"{self.pid}.{rule}"
        self.obligations.append((rid, key, bool(ok), what, loc))
        if not ok:
            self.findings.append(Finding(rid, key, what, loc, detail))
        if sample is not None and len(self.samples) < 400:
            self.samples.append(sample)
        return bool(ok)

    def sample(self, s):
        if len(self.samples) < 400:
            self.samples.append(s)

    def floor(self, rule, what, count, minimum):
        """Instance floor: fewer instances than hand-confirmed -> analysis error."""
        rid = rule if rule.startswith(self.pid) else f"{self.pid}.{rule}"
        self.counts[f"{rid}:{what}"] = count
        if count < minimum:
            self.error(
                f"{rid}: instance floor missed for {what}: found {count}, "
                f"expected at least {minimum} (anchor moved or idiom not recognised)"
            )

    def count(self, name, n):
        self.counts[name] = n

    def error(self, msg):
        self.errors.append(msg)

    def note(self, msg):
        self.notes.append(msg)

    def assume(self, msg):
        if msg not in self.assumptions:
            self.assumptions.append(msg)

    def borrowed(self, rule, origin, only=None, key_prefix=None, key_contains=None):
        """A view of this context for re-using another property's rule function: every obligation it
        records is filed under `rule` of THIS property with its key prefixed by the origin
        (`C16.R1::...`); `only` restricts to origin rule ids; floors/counts/notes are namespaced."""
        return _Borrowed(self, rule, origin, only, key_prefix, key_contains)

    # ---- finishing --------------------------------------------------------
    def finish(self) -> int:
        open_, _fixed = load_known_findings()
        known, new = [], []
        seen = set()
        for f in self.findings:
            if f.ident() in seen:
                continue
            seen.add(f.ident())
            k = (self.pid, f.rule, f.key)
            if k in open_:
                known.append(f)
            else:
                new.append(f)

        out = []
        for f in known:
            out.append(f"KNOWN-FINDING: property={self.pid} rule={f.rule} key={f.key} {f.what}")
        replay_paths = []
        scratch = os.environ.get("VERIF_SCRATCH_DIR")
        if new:
            rdir = Path(scratch) / "replay" if scratch else VERIF / "replay"
            rdir.mkdir(parents=True, exist_ok=True)
            for i, f in enumerate(new):
                p = rdir / f"{self.pid}-{i}.json"
                p.write_text(json.dumps({"property": self.pid, **f.to_json()}, indent=1))
                replay_paths.append(p)
                loc = f" at {f.loc}" if f.loc else ""
                out.append(f"  refuted {f.rule} [{f.key}]{loc}: {f.what}")
                out.append(f"VIOLATION property={self.pid} replay={p}")
        for e in self.errors:
            out.append(f"ANALYSIS-ERROR property={self.pid} {e}")

        n_ob = len(self.obligations)
        n_ok = sum(1 for o in self.obligations if o[2])
        distinct = len({(o[0], o[1]) for o in self.obligations})
        wall = time.time() - self.t0

        # rotate samples by seed so different seeds show different ones
        samples = self.samples
        if samples:
            r = self.seed % len(samples)
            samples = samples[r:] + samples[:r]
        samples = samples[:25]
        if not samples:
            samples = [
                {"rule": o[0], "key": o[1], "ok": o[2], "what": o[3], "loc": o[4]}
                for o in self.obligations[:10]
            ]

        cov = {
            "explanation": "; ".join(f"{k}: {v}" for k, v in self.rules.items()),
            "obligations": n_ob,
            "discharged": n_ok,
            "evaluations": n_ob,
            "distinct_nontrivial": distinct,
            "rule": "one obligation per (rule, construct) found in /repo's current "
            "source; distinct = distinct (rule, construct key) pairs; every "
            "obligation inspects at least one call site, CFG path, table row or "
            "abstract value",
            "samples": samples,
            "exhaustive": bool(self.exhaustive),
            "units": self.counts,
            "trusted_base": self.trusted,
            "checker_cmd": f"./check {self.pid} --tier {self.tier}",
            "known_findings_reported": [f.to_json() for f in known],
            "new_violations": [f.to_json() for f in new],
            "analysis_errors": self.errors,
            "notes": self.notes,
        }
        cov.update(self.extra)
        ev = {
            "property_id": self.pid,
            "tier": self.tier,
            "seed": self.seed,
            "level": "other",
            "coverage": cov,
            "assumptions": self.assumptions,
            "wall_s": round(wall, 3),
            "violations": len(new),
        }
        edir = Path(scratch) / "evidence" if scratch else VERIF / "evidence"
        edir.mkdir(parents=True, exist_ok=True)
        (edir / f"{self.pid}.json").write_text(json.dumps(ev, indent=1, default=str))

        if not self.quiet:
            print(
                f"[{self.pid}] tier={self.tier} obligations={n_ob} discharged={n_ok} "
                f"known={len(known)} new={len(new)} errors={len(self.errors)} "
                f"wall={wall:.2f}s"
            )
            for k, v in sorted(self.counts.items()):
                print(f"    analysed {k} = {v}")
        for line in out:
            print(line)
        sys.stdout.flush()
        if new:
            return 1
        if self.errors:
            return 2
        return 0


def run_check(pid, tier, seed, fn, quiet=False) -> int:
    """Run rule function fn(ctx) with full error containment."""
    ctx = Ctx(pid, tier, seed, quiet=quiet)
    try:
        fn(ctx)
    except AnalysisError as e:
        ctx.error(str(e))
    except Exception as e:  # internal bug in the checker: never a VIOLATION
        tb = traceback.format_exc()
        ctx.error(f"internal exception {type(e).__name__}: {e}")
        sys.stderr.write(tb)
    try:
        return ctx.finish()
    except Exception as e:  # pragma: no cover
        sys.stderr.write(traceback.format_exc())
        print(f"ANALYSIS-ERROR property={pid} could not write evidence: {e}")
        return 2
