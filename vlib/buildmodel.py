"""Facade construction model: for a shipped (config table, log table) pair the structure is loaded by the interpreted
`build_accessors` on model pack classes that carry the pair's own item names and key lists, and the facade class is
built by its own constructor (vlib.absint) on a model spa around that structure.  Items are model accessors with the
type and label list the table gives them; their values come from a *valuation* (which label an output item reads, which
state a device is in), so the inventory scan sees devices to build.

Two pairs whose item-presence pattern agrees on every item name the construction looked up (subscript, `in`, .get) and
whose key lists agree behave the same: pairs are grouped by that signature (computed to a fixpoint: a run that touches
a new name refines the signature), and one representative per group and valuation is interpreted.

  constructions(repo, T)  ->  {(cfg stem, log stem): None | "raises ..."}, statistics
"""
from __future__ import annotations

from .absint import ClassRef, Interp, Native, Obj, Opaque, PyRaise, Undecided
from .core import AnalysisError

FACADES = ("GeckoAsyncFacade", "GeckoFacade")
LISTS = ("output_keys", "all_device_keys", "user_demand_keys", "error_keys")


class _Lazy:
    __slots__ = ("make",)

    def __init__(self, make):
        self.make = make


class _Touch(dict):
    """item dictionary that remembers which names were looked up; model accessors are made when first asked for"""

    def __init__(self, *a, touched=None):
        super().__init__(*a)
        self.touched = touched if touched is not None else set()

    def _real(self, k, v):
        if isinstance(v, _Lazy):
            v = v.make()
            dict.__setitem__(self, k, v)
        return v

    def __getitem__(self, k):
        self.touched.add(k)
        return self._real(k, dict.__getitem__(self, k))

    def __contains__(self, k):
        self.touched.add(k)
        return dict.__contains__(self, k)

    def get(self, k, d=None):
        self.touched.add(k)
        return self._real(k, dict.__getitem__(self, k)) if dict.__contains__(self, k) else d

    def values(self):
        return [self._real(k, v) for k, v in list(dict.items(self))]

    def items(self):
        return [(k, self._real(k, v)) for k, v in list(dict.items(self))]

    def __hash__(self):
        return id(self)


def _value_for(item_type, labels, tag, valuation):
    if item_type == "Enum" and labels:
        real = [x for x in labels if x not in ("NA", "")]
        if not real:
            return labels[0]
        if valuation == "devices":
            # the wiring that builds as many user devices as the table offers: output number n reads the n-th user-device
            # label of its own list (pumps at both speeds, blower, waterfall, light); other items read their first label
            dev = [x for x in real if any(x.startswith(d) for d in ("P1", "P2", "P3", "P4", "P5", "BL", "Waterfall", "LI"))]
            digits = "".join(ch for ch in tag if ch.isdigit())
            if dev and tag.startswith("Out"):
                return dev[-(int(digits) if digits else 0) % len(dev)] if digits else dev[-1]
            return real[0]
        if valuation == "first":
            return real[0]
        if valuation == "last":
            return real[-1]
        return real[(sum(map(ord, tag)) + 1) % len(real)]
    if item_type == "Bool":
        return valuation == "last"
    if item_type == "Time":
        return "00:00"
    return 0


def _accessor(geom, tag, valuation, rec):
    labels = list(geom.get("items")) if isinstance(geom.get("items"), list) else None     # the item's own list (as each accessor gets from its table class)
    t = geom["type"]
    a = Obj(None, {"tag": tag, "type": t, "items": labels, "value": _value_for(t, labels, tag, valuation), "pos": geom.get("pos"), "length": geom.get("length"),
                   "read_write": geom.get("read_write")}, name=f"acc<{tag}>")
    a.published = tuple(labels) if labels is not None else None      # the table's list, kept aside: what the construction may not edit
    a.published_rw = geom.get("read_write")
    a.attrs["set_read_write"] = Native(lambda args, kw, a=a: a.attrs.__setitem__("read_write", args[0] if args else kw.get("rw")), "set_read_write")
    a.attrs["watch"] = Native(lambda args, kw: None, "watch")
    a.attrs["unwatch"] = Native(lambda args, kw: None, "unwatch")
    a.attrs["unwatch_all"] = Native(lambda args, kw: None, "unwatch_all")
    a.attrs["async_set_value"] = Native(lambda args, kw: None, "async_set_value")
    a.attrs["diag_info"] = Native(lambda args, kw: f"{tag}", "diag_info")
    return a


def _pack_objects(T, cfg, log, valuation, touched, holder):
    rec = []

    def side(m):
        d = _Touch(touched=touched)
        for it in m.items:
            def make(it=it):
                g = T.geometry(it)
                a = _accessor(g, it.key, valuation, rec)
                a.attrs["struct"] = holder.get("struct")
                return a
            try:
                T.geometry(it)
            except Exception:  # noqa: BLE001 - malformed items are C18's findings
                continue
            dict.__setitem__(d, it.key, _Lazy(make))
        return d
    c = Obj(None, {"accessors": side(cfg)}, name=f"{cfg.stem}")
    l_ = Obj(None, {"accessors": side(log)}, name=f"{log.stem}")
    for m, o in ((cfg, c), (log, l_)):
        for nm, v in m.props.items():
            o.attrs[nm] = list(v) if isinstance(v, (list, tuple)) else v
    return c, l_


def build_one(repo, T, cfg, log, valuation, facade_cls, inspect=None):
    """-> (None | 'raises ...', touched item names); with `inspect`: (..., inspect(interpreter, facade)) on success"""
    touched = set()
    it = Interp(repo, max_depth=14)
    from .absint import BoundMethod

    def hook(_it, node, callee, args, kwargs):
        if getattr(callee, "name", "") in ("asyncio.sleep", "asyncio.create_task", "asyncio.ensure_future"):
            return None
        if isinstance(callee, BoundMethod) and callee.fi.is_async:
            return Opaque(f"coroutine {callee.fi.qual}")   # constructors are synchronous: an async call only makes a coroutine object
        return NotImplemented
    it.call_hook = hook
    holder = {}
    c, l_ = _pack_objects(T, cfg, log, valuation, touched, holder)
    scls = repo.cls("GeckoAsyncStructure" if facade_cls == "GeckoAsyncFacade" else "GeckoStructure")
    init = repo.method(scls.short, "__init__")
    nargs = len([a for a in init.node.args.args if a.arg != "self"]) - len(init.node.args.defaults)
    try:
        st = it.apply(ClassRef(scls), [Opaque(f"callback{i}") for i in range(nargs)], {})
        it.call(repo.method(scls.short, "build_accessors"), st, [c, l_])
    except (PyRaise, Undecided) as e:
        raise AnalysisError(f"{scls.short}.build_accessors on the model of ({cfg.stem}, {log.stem}): {e}")
    accs = it.getattr(st, "accessors")
    if isinstance(accs, dict) and not isinstance(accs, _Touch):
        accs = _Touch(accs, touched=touched)       # dict(config, **log) made a plain copy: keep watching the lookups
        st.attrs["accessors"] = accs
    holder["struct"] = st
    spa = Obj(None, {"accessors": accs, "struct": st, "is_connected": True, "is_responding_to_pings": True, "unique_id": "SPA-ID", "name": "My Spa",
                     "identifier": b"SPA-ID", "spa_name": "My Spa", "revision": "1", "version": "1", "pack": "inXX"}, name="spa")
    spa.attrs["descriptor"] = Obj(None, {"name": "My Spa", "identifier": b"SPA-ID", "identifier_as_string": "SPA-ID", "ipaddress": "10.1.2.3", "port": 10022,
                                         "destination": ("10.1.2.3", 10022)}, name="descriptor")
    for nm in ("press", "async_press", "watch", "unwatch", "refresh"):
        spa.attrs[nm] = Native(lambda a, k: None, nm)
    taskman = Obj(None, {"add_task": Native(lambda a, k: None, "add_task"), "cancel_key_tasks": Native(lambda a, k: None, "cancel_key_tasks"),
                         "unique_id": "SPA-ID", "spa_name": "My Spa", "name": "My Spa"}, name="taskman")
    fcls = repo.cls(facade_cls)
    try:
        it.steps = 0
        if facade_cls == "GeckoAsyncFacade":
            fac = it.apply(ClassRef(fcls), [spa, taskman], {})
        else:
            # the blocking facade registers a callback with the connection and builds its parts when the connection
            # completes: the constructor runs, then the callback it left on the spa is called the way the spa calls it
            fac = it.apply(ClassRef(fcls), [spa], {})
            cb = spa.attrs.get("on_connected")
            if cb is None:
                raise AnalysisError(f"{facade_cls}(spa) leaves no on_connected callback on the spa: the construction path is not visible")
            it.apply(cb, [spa], {})
        # what a client does with a fresh facade: every device it lists is read once
        for dev in list(it.getattr(fac, "all_automation_devices")):
            if isinstance(dev, Obj) and dev.cls is not None:
                for member in ("name", "key", "unique_id"):
                    it.getattr(dev, member)
        extra = inspect(it, fac) if inspect is not None else None
    except PyRaise as e:
        return (f"raises {e.what}", touched) if inspect is None else (f"raises {e.what}", touched, None)
    except Undecided as e:
        raise AnalysisError(f"{facade_cls} on the model of ({cfg.stem}, {log.stem}), valuation {valuation}: {e}")
    return (None, touched) if inspect is None else (None, touched, extra)


_POOL_CTX = {}


def _work(job):
    repo, T = _POOL_CTX["repo"], _POOL_CTX["T"]
    facade_cls, val, cs, ls = job
    try:
        r, touched = build_one(repo, T, T.modules[cs], T.modules[ls], val, facade_cls)
        return job, r, touched, None
    except AnalysisError as e:
        return job, None, set(), str(e)


def _run_jobs(repo, T, jobs, workers):
    if not jobs:
        return []
    if workers <= 1 or len(jobs) < 8:
        _POOL_CTX.update(repo=repo, T=T)
        return [_work(j) for j in jobs]
    import multiprocessing as mp
    _POOL_CTX.update(repo=repo, T=T)
    with mp.get_context("fork").Pool(workers) as pool:
        return pool.map(_work, jobs, chunksize=max(1, len(jobs) // (workers * 4)))


def constructions(repo, T, valuations=("first", "last", "mixed"), workers=8):
    pairs = {}
    for _pack, cfg, log in T.combos():
        pairs.setdefault((cfg.stem, log.stem), (cfg, log))
    keysets = {stem: frozenset(m.keys()) for stem, m in T.modules.items()}
    lists = {stem: tuple((nm, tuple(m.props.get(nm) or ())) for nm in LISTS) for stem, m in T.modules.items()}
    relevant = set()
    done = {}      # (facade, valuation, cfg stem, log stem) -> (result, touched)
    stats = {"pairs": len(pairs)}
    results = {k: [] for k in pairs}
    for facade_cls in FACADES:
        for val in valuations:
            while True:
                groups = {}
                for key, (cfg, log) in sorted(pairs.items()):
                    ks = keysets[cfg.stem] | keysets[log.stem]
                    sig = (frozenset(ks & relevant), lists[cfg.stem], lists[log.stem],
                           tuple(sorted((k, _label_sig(T, cfg, log, k)) for k in (ks & relevant))))
                    groups.setdefault(sig, []).append(key)
                jobs = [(facade_cls, val) + members[0] for members in groups.values() if (facade_cls, val) + members[0] not in done]
                for job, r, touched, err in _run_jobs(repo, T, jobs, workers):
                    if err is not None:
                        raise AnalysisError(err)
                    done[job] = (r, touched)
                new = set()
                for members in groups.values():
                    new |= done[(facade_cls, val) + members[0]][1] - relevant
                if not new:
                    break
                relevant |= new     # a construction looked at a name the grouping did not know: refine and go again
            for members in groups.values():
                r = done[(facade_cls, val) + members[0]][0]
                if r is not None:
                    for mkey in members:
                        results[mkey].append(f"{facade_cls} ({val} valuation) {r}")
            stats[f"{facade_cls}:{val}:groups"] = len(groups)
    stats["runs"] = len(done)
    stats["relevant_item_names"] = len(relevant)
    return results, stats, relevant


def _label_sig(T, cfg, log, key):
    it = log.item(key) or cfg.item(key)
    if it is None:
        return None
    try:
        g = T.geometry(it)
    except Exception:  # noqa: BLE001
        return "malformed"
    labels = g.get("items")
    return (g["type"], tuple(labels) if isinstance(labels, list) else None)


def inventories(repo, T, valuation="mixed"):
    """For the richest shipped (config, log) pair of every platform and both facades: the inventory the facade presents -
    [(key, unique id, name, looked-up-by-key is the same object)] of every automation device, by interpretation."""
    best = {}
    for _p, cfg, log in T.combos():
        n = len(set(cfg.keys()) | set(log.keys()))
        if n > best.get(cfg.platform, (0,))[0]:
            best[cfg.platform] = (n, cfg, log)

    def inspect(it, fac):
        out = []
        devs = list(it.getattr(fac, "all_automation_devices"))
        for d in devs:
            if not (isinstance(d, Obj) and d.cls is not None):
                continue
            key = it.getattr(d, "key")
            found = it.apply(it.getattr(fac, "get_device"), [key], {})
            out.append((key, it.getattr(d, "unique_id"), it.getattr(d, "name"), found is d))
        return out
    res = {}
    for plat, (_n, cfg, log) in sorted(best.items()):
        for facade_cls in FACADES:
            r, _t, inv = build_one(repo, T, cfg, log, valuation, facade_cls, inspect=inspect)
            res[(plat, cfg.stem, log.stem, facade_cls)] = (r, inv)
    return res


def out_of_list_states(repo, T, valuation="mixed", unknown=True, subscribe=False):
    """For the richest shipped (config, log) pair of every platform and both facades: every automation device the facade
    built is read again with each of its Enum items holding a byte OUTSIDE its label list (the accessor reads 'Unknown'):
    every read-only member (properties, __str__, __repr__) of the device is evaluated.
    -> {(platform, cfg, log, facade): (build result, [(device key, member, 'raises ...')], members evaluated)}"""
    best = {}
    for _p, cfg, log in T.combos():
        n = len(set(cfg.keys()) | set(log.keys()))
        if n > best.get(cfg.platform, (0,))[0]:
            best[cfg.platform] = (n, cfg, log)

    def inspect(it, fac):
        bad, n = [], 0
        for d in list(it.getattr(fac, "all_automation_devices")):
            if not (isinstance(d, Obj) and d.cls is not None):
                continue
            accs, stack, seen = [], [(d, 0)], set()
            while stack:
                o, dep = stack.pop()
                if id(o) in seen:
                    continue
                seen.add(id(o))
                for v in list(o.attrs.values()):
                    if isinstance(v, Obj) and v.cls is None and str(v.name).startswith("acc<"):
                        if v.attrs.get("type") == "Enum" and isinstance(v.attrs.get("items"), list):
                            accs.append(v)
                    elif isinstance(v, Obj) and v.cls is not None and dep < 1 and v is not fac:
                        stack.append((v, dep + 1))
            if not accs:
                continue
            saved = [(a, a.attrs["value"]) for a in accs]
            for a in accs:
                if unknown:
                    a.attrs["value"] = "Unknown"
            try:
                key = it.getattr(d, "key")
                members = [nm for nm, f in repo.all_methods(d.cls).items() if f.is_property] + ["__str__", "__repr__"]
                for nm in sorted(set(members)):
                    f = repo.method(d.cls.short, nm, required=False)
                    if f is None:
                        continue
                    n += 1
                    try:
                        it.steps = 0
                        it.call(f, d, [])
                    except PyRaise as e:
                        bad.append((key, nm, f"raises {e.what}"))
                    except Undecided:
                        pass      # depends on something the model does not fix: not decided here
                if subscribe:
                    # a client watches the device with a plain function (not a bound method), then renders it
                    import ast as _ast
                    fn = it.eval(_ast.parse("lambda *args, **kwargs: None", mode="eval").body, {"__mod__": d.cls.mod, "__class__": None})
                    try:
                        it.apply(it.getattr(d, "watch"), [fn], {})
                        for nm in ("__repr__", "__str__"):
                            f = repo.method(d.cls.short, nm, required=False)
                            if f is None:
                                continue
                            n += 1
                            try:
                                it.steps = 0
                                it.call(f, d, [])
                            except PyRaise as e:
                                bad.append((key, f"{nm} with a plain-function observer", f"raises {e.what}"))
                            except Undecided:
                                pass
                        it.apply(it.getattr(d, "unwatch"), [fn], {})
                    except (PyRaise, Undecided):
                        pass
            finally:
                for a, v in saved:
                    a.attrs["value"] = v
        return bad, n
    res = {}
    for plat, (_n, cfg, log) in sorted(best.items()):
        for facade_cls in FACADES:
            r, _t, extra = build_one(repo, T, cfg, log, valuation, facade_cls, inspect=inspect)
            res[(plat, cfg.stem, log.stem, facade_cls)] = (r, extra)
    return res


def writability_variants(T):
    """per platform, one (richest config, log) pair for every distinct pattern of read-only / writable among the items whose
    writability differs between the platform's log tables (an item published read-only in two old versions only)"""
    by_plat = {}
    for _p, cfg, log in T.combos():
        by_plat.setdefault(cfg.platform, {"cfgs": {}, "logs": {}})
        by_plat[cfg.platform]["cfgs"][cfg.stem] = cfg
        by_plat[cfg.platform]["logs"][log.stem] = log
    out = []
    for plat, d in sorted(by_plat.items()):
        rw = {}
        for stem, log in d["logs"].items():
            for it in log.items:
                try:
                    rw.setdefault(it.key, {})[stem] = T.geometry(it).get("read_write")
                except Exception:  # noqa: BLE001
                    pass
        varying = sorted(k for k, v in rw.items() if len(set(map(repr, v.values()))) > 1)
        cfg = max(d["cfgs"].values(), key=lambda c: len(c.keys()))
        seen = set()
        for stem, log in sorted(d["logs"].items()):
            sig = tuple(repr(rw[k].get(stem)) for k in varying)
            if sig not in seen and varying:
                seen.add(sig)
                out.append((plat, cfg, log))
    return out


def labels_after_reads(repo, T, valuation="mixed", variants=False):
    """For the richest shipped (config, log) pair of every platform and both facades: the label list of every item the
    construction looked at is compared with the list its table published, after the facade has been built AND every
    read-only member of every automation device (properties - `modes` included -, __str__, __repr__) has been read, as a
    front end does; the label lists must be what the table says.
    -> {(platform, cfg, log, facade): (build result, [(item, before, after)], items watched)}"""
    best = {}
    for _p, cfg, log in T.combos():
        n = len(set(cfg.keys()) | set(log.keys()))
        if n > best.get(cfg.platform, (0,))[0]:
            best[cfg.platform] = (n, cfg, log)

    def inspect(it, fac):
        spa = it.getattr(fac, "spa") if True else None
        accs = it.getattr(spa, "accessors") if isinstance(spa, Obj) else {}
        watched = {}
        for k in list(dict.keys(accs)):
            v = dict.__getitem__(accs, k)
            if isinstance(v, Obj) and isinstance(v.attrs.get("items"), list):
                # compared with the list the table published (an edit made while the facade was being built counts too)
                watched[k] = (v, getattr(v, "published", None) or tuple(v.attrs["items"]))
        for d in list(it.getattr(fac, "all_automation_devices")):
            if not (isinstance(d, Obj) and d.cls is not None):
                continue
            members = [nm for nm, f in repo.all_methods(d.cls).items() if f.is_property] + ["__str__", "__repr__"]
            for nm in sorted(set(members)):
                f = repo.method(d.cls.short, nm, required=False)
                if f is None:
                    continue
                try:
                    it.steps = 0
                    it.call(f, d, [])
                except (PyRaise, Undecided):
                    pass      # what a member returns or raises is C11's subject; here: what it leaves behind
        changed = [(k, list(before), list(v.attrs["items"])) for k, (v, before) in sorted(watched.items()) if tuple(v.attrs["items"]) != before]
        # ... and what may be written is what the table publishes: a construction that makes an item writable
        for k in list(dict.keys(accs)):
            v = dict.__getitem__(accs, k)
            if isinstance(v, Obj) and hasattr(v, "published_rw") and v.attrs.get("read_write") != v.published_rw:
                changed.append((k, [f"RW={v.published_rw!r}"], [f"RW={v.attrs.get('read_write')!r}"]))
        return changed, len(watched)
    res = {}
    pairs = [(plat, cfg, log) for plat, (_n, cfg, log) in sorted(best.items())]
    if variants:
        pairs = [p_ for p_ in writability_variants(T) if (p_[0], p_[1].stem, p_[2].stem) not in {(a_, b_.stem, c_.stem) for a_, b_, c_ in pairs}]
    for plat, cfg, log in pairs:
        for facade_cls in (FACADES if not variants else FACADES[:1]):
            r, _t, extra = build_one(repo, T, cfg, log, valuation, facade_cls, inspect=inspect)
            res[(plat, cfg.stem, log.stem, facade_cls)] = (r, extra)
    return res


def config_devices_watched(repo, T, valuation="mixed"):
    """For the richest shipped (config, log) pair of every platform: on the awaitable facade as built by its constructor,
    every device of `all_config_change_devices` has the facade's `_on_config_device_change` among its observers (however the
    registration is written) -> {(platform, cfg, log): (build result, [keys of unwatched devices], devices examined)}"""
    from .absint import BoundMethod
    best = {}
    for _p, cfg, log in T.combos():
        n = len(set(cfg.keys()) | set(log.keys()))
        if n > best.get(cfg.platform, (0,))[0]:
            best[cfg.platform] = (n, cfg, log)

    def inspect(it, fac):
        missing, n = [], 0
        for d in list(it.getattr(fac, "all_config_change_devices")):
            if not isinstance(d, Obj):
                continue
            n += 1
            obs = []
            for v in d.attrs.values():
                if isinstance(v, list):
                    obs.extend(x for x in v if isinstance(x, BoundMethod))
            if not any(o.obj is fac and o.fi.name == "_on_config_device_change" for o in obs):
                missing.append(it.getattr(d, "key"))
        return missing, n
    res = {}
    for plat, (_n, cfg, log) in sorted(best.items()):
        r, _t, extra = build_one(repo, T, cfg, log, valuation, "GeckoAsyncFacade", inspect=inspect)
        res[(plat, cfg.stem, log.stem)] = (r, extra)
    return res


def disconnect_twice(repo, T, valuation="mixed"):
    """For the richest shipped (config, log) pair of every platform: the awaitable facade as built by its constructor is
    disconnected TWICE (a reset that was interrupted, or two overlapping resets, disconnect the same facade again
    before the manager forgets it) -> {(platform, cfg, log): (build result, None | 'raises ...' at the first / second
    call, devices left with observers after the first call)}"""
    best = {}
    for _p, cfg, log in T.combos():
        n = len(set(cfg.keys()) | set(log.keys()))
        if n > best.get(cfg.platform, (0,))[0]:
            best[cfg.platform] = (n, cfg, log)

    def inspect(it, fac):
        f = repo.method("GeckoAsyncFacade", "disconnect")
        outcome = None
        for i in (1, 2):
            try:
                it.steps = 0
                it.call(f, fac, [])
            except PyRaise as e:
                outcome = f"the {'first' if i == 1 else 'second'} disconnect() raises {e.what}"
                break
            except Undecided as e:
                raise AnalysisError(f"{f.qual} on the built facade: {e}")
        return outcome
    res = {}
    for plat, (_n, cfg, log) in sorted(best.items()):
        r, _t, extra = build_one(repo, T, cfg, log, valuation, "GeckoAsyncFacade", inspect=inspect)
        res[(plat, cfg.stem, log.stem)] = (r, extra)
    return res
