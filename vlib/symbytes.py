"""Symbolic byte strings for layout analysis (used by C02.R3, C04, C05 geometry).

A SymBytes is a sequence of cells:
  int            a concrete byte
  SByte          a symbolic byte: 8 provenance Bits (LSB first)
  Blob           a run of bytes of unknown length (payload), identified by name
  LenByte        the byte holding len(<blob>) (what `struct.pack('>B', len(block))` makes)

`struct.pack`/`struct.unpack` are modelled on these: packing a BV field yields SBytes
carrying the field's bit symbols in the format's byte order; unpacking re-assembles a BV
from the cells, so decode(encode(fields)) can be compared bit-by-bit with `fields` for
*all* field values at once.
"""
from __future__ import annotations

import re
import struct as _struct

from .absint import BV, Bit, Native, Opaque, PyRaise, Undecided, WIDTH


class SByte:
    __slots__ = ("bits",)

    def __init__(self, bits):
        self.bits = list(bits)

    def __eq__(self, o):
        return isinstance(o, SByte) and self.bits == o.bits

    def __hash__(self):
        return hash(tuple(self.bits))

    def __repr__(self):
        return "<" + ",".join(b.describe() for b in self.bits) + ">"


class Blob:
    def __init__(self, name):
        self.name = name

    def __eq__(self, o):
        return isinstance(o, Blob) and o.name == self.name

    def __hash__(self):
        return hash(("blob", self.name))

    def __repr__(self):
        return f"Blob({self.name})"


class LenByte:
    def __init__(self, blob):
        self.blob = blob

    def __eq__(self, o):
        return isinstance(o, LenByte) and o.blob == self.blob

    def __hash__(self):
        return hash(("len", self.blob))

    def __repr__(self):
        return f"LenByte({self.blob})"


class LenSym:
    """len(<blob>) + k  as an integer-like value."""

    def __init__(self, blob, k=0):
        self.blob = blob
        self.k = k

    def __add__(self, o):
        if isinstance(o, int) and not isinstance(o, bool):
            return LenSym(self.blob, self.k + o)
        raise Undecided("LenSym arithmetic")

    __radd__ = __add__

    def __sub__(self, o):
        if isinstance(o, int):
            return LenSym(self.blob, self.k - o)
        raise Undecided("LenSym arithmetic")

    def __bool__(self):
        raise Undecided("truth of a symbolic length")

    def __repr__(self):
        return f"len({self.blob})+{self.k}"


def _parse_fmt(fmt):
    if not isinstance(fmt, str):
        raise Undecided("non-constant struct format")
    order = ">"
    body = fmt
    if fmt and fmt[0] in "<>!=@":
        order = fmt[0]
        body = fmt[1:]
    if order in "=@":
        raise Undecided("native byte order in struct format")
    fields = []
    for cnt, code in re.findall(r"(\d*)([a-zA-Z?])", body):
        n = int(cnt) if cnt else 1
        if code == "s":
            fields.append(("s", n))
        elif code == "x":
            fields.extend([("x", 1)] * n)
        else:
            size = {"B": 1, "b": 1, "H": 2, "h": 2, "I": 4, "i": 4, "L": 4, "l": 4, "Q": 8, "q": 8, "?": 1}.get(code)
            if size is None:
                raise Undecided(f"struct code {code}")
            fields.extend([(code, size)] * n)
    if _struct.calcsize((order if order != "!" else ">") + body) != sum(s for _, s in fields):
        raise Undecided("struct size model mismatch")
    return ("big" if order in ">!" else "little"), fields


class SymBytes:
    def __init__(self, cells):
        self.cells = list(cells)

    # ---- construction -----------------------------------------------------
    @staticmethod
    def of(v):
        if isinstance(v, SymBytes):
            return v
        if isinstance(v, (bytes, bytearray)):
            return SymBytes(list(v))
        if isinstance(v, Blob):
            return SymBytes([v])
        raise Undecided(f"cannot treat {type(v).__name__} as bytes")

    @staticmethod
    def blob(name):
        return SymBytes([Blob(name)])

    @staticmethod
    def pack(fmt, vals):
        order, fields = _parse_fmt(fmt)
        fields = [f for f in fields if f[0] != "x"]
        if len(fields) != len(vals):
            raise PyRaise(f"struct.error: pack expected {len(fields)} items for packing (got {len(vals)})")
        cells = []
        for (code, size), v in zip(fields, vals):
            if code == "s":
                sb = SymBytes.of(v)
                if sb.has_blob() or len(sb.cells) != size:
                    raise Undecided("'s' field of symbolic length")
                cells.extend(sb.cells)
                continue
            if isinstance(v, bool):
                v = int(v)
            if isinstance(v, int):
                try:
                    cells.extend(_struct.pack((">" if order == "big" else "<") + code, v))
                except _struct.error as e:
                    raise PyRaise(f"struct.error: {e}")
                continue
            if isinstance(v, LenSym):
                if size != 1 or v.k != 0:
                    raise Undecided("length field wider than a byte or offset")
                cells.append(LenByte(v.blob))
                continue
            if isinstance(v, BV):
                # bits above the field must be provably zero (else pack would raise / truncate)
                signed = code in "bhilq"
                top = v.bits[8 * size - 1]
                for i in range(8 * size, WIDTH):
                    if signed and v.bits[i] == top:
                        continue  # sign extension: value within the signed range
                    if not v.bits[i].is_const(0):
                        raise PyRaise(f"struct.error: value may be outside the range of format '{code}' (bit {i} is {v.bits[i].describe()})")
                if signed and not all(v.bits[i] == top for i in range(8 * size, WIDTH)) and not top.is_const(0):
                    raise PyRaise(f"struct.error: unsigned value with the top bit set does not fit signed format '{code}'")
                bs = [SByte(v.bits[8 * j: 8 * j + 8]) for j in range(size)]  # little-endian order
                cells.extend(reversed(bs) if order == "big" else bs)
                continue
            if isinstance(v, Opaque):
                cells.extend([SByte([Bit(top=True)] * 8) for _ in range(size)])
                continue
            raise Undecided(f"pack of {type(v).__name__}")
        return SymBytes(cells)

    # ---- queries ----------------------------------------------------------
    def has_blob(self):
        return any(isinstance(c, Blob) for c in self.cells)

    def concrete(self):
        if all(isinstance(c, int) for c in self.cells):
            return bytes(self.cells)
        return None

    def length(self):
        if self.has_blob():
            blobs = [c for c in self.cells if isinstance(c, Blob)]
            if len(blobs) == 1:
                return LenSym(blobs[0].name, len(self.cells) - 1)
            raise Undecided("length with several blobs")
        return len(self.cells)

    def __len__(self):
        n = self.length()
        if isinstance(n, int):
            return n
        raise Undecided("len() of a byte string with an unknown-length part")

    def __add__(self, o):
        return SymBytes(self.cells + SymBytes.of(o).cells)

    def __radd__(self, o):
        return SymBytes(SymBytes.of(o).cells + self.cells)

    def __getitem__(self, idx):
        if isinstance(idx, slice):
            if idx.step not in (None, 1):
                raise Undecided("stepped slice")
            lo, hi = idx.start, idx.stop
            return self._slice(lo, hi)
        if isinstance(idx, int):
            cells = self._slice(idx, idx + 1 if idx != -1 else None).cells
            if len(cells) != 1:
                raise PyRaise("IndexError")
            c = cells[0]
            if isinstance(c, int):
                return c
            if isinstance(c, SByte):
                return BV(c.bits + [Bit.const(0)] * (WIDTH - 8))
            raise Undecided("indexing into a blob")
        raise Undecided("symbolic index")

    def _pos(self, i, default):
        """Translate an index into a cell position; positions inside a blob are
        only expressible as the blob's start or end."""
        if i is None:
            return default
        n = len(self.cells)
        bi = [k for k, c in enumerate(self.cells) if isinstance(c, Blob)]
        if isinstance(i, LenSym):
            # k + len(blob): position = (k - cells_before_blob) cells after the blob end
            if len(bi) != 1 or self.cells[bi[0]].name != i.blob:
                raise Undecided("slice bound refers to another payload")
            after = i.k - bi[0]
            if after < 0:
                raise Undecided("slice bound inside the payload")
            p = bi[0] + 1 + after
            return min(p, n)
        if isinstance(i, BV):
            raise Undecided("slice bound is a decoded field")
        if not isinstance(i, int):
            raise Undecided("slice bound")
        if i >= 0:
            if bi and i > bi[0]:
                raise Undecided("constant slice bound beyond an unknown-length payload")
            return min(i, n)
        # negative: count from the end
        if bi and (n + i) <= bi[-1]:
            raise Undecided("negative slice bound reaches into an unknown-length payload")
        return max(n + i, 0)

    def _slice(self, lo, hi):
        a = self._pos(lo, 0)
        b = self._pos(hi, len(self.cells))
        return SymBytes(self.cells[a:b])

    def __contains__(self, needle):
        """`needle in data` for a concrete needle: True when it occurs in the concrete bytes, False when no position can
        hold it whatever the symbolic bytes are; otherwise the answer depends on the payload (Undecided, marked so that
        a rule about 'every payload' can read it as 'for some payloads')"""
        if isinstance(needle, SymBytes):
            needle = needle.concrete()
        if isinstance(needle, int):
            needle = bytes([needle])
        if not isinstance(needle, (bytes, bytearray)):
            raise Undecided("containment of a symbolic needle")
        cells, n = self.cells, len(needle)
        if n == 0:
            return True
        maybe = any(isinstance(c, Blob) for c in cells)
        for i in range(0, len(cells) - n + 1):
            window = cells[i:i + n]
            if all(isinstance(c, int) and c == needle[j] for j, c in enumerate(window)):
                return True
            if all((isinstance(c, int) and c == needle[j]) or not isinstance(c, (int, Blob)) for j, c in enumerate(window)):
                maybe = True     # only symbolic bytes stand in the way
        # a blob next to concrete bytes can complete a partial match at its border too: any blob makes it payload-dependent
        if maybe:
            raise Undecided(f"containment of {bytes(needle)!r} in symbolic bytes: depends on the payload")
        return False

    def startswith(self, prefix):
        if isinstance(prefix, tuple):
            return any(self.startswith(x) for x in prefix)
        p = SymBytes.of(prefix).cells
        if len(p) > len(self.cells):
            if self.has_blob():
                raise Undecided("startswith across payload")
            return False
        for x, y in zip(self.cells, p):
            if isinstance(x, int) and isinstance(y, int):
                if x != y:
                    return False
            elif x == y:
                continue
            else:
                raise Undecided("startswith on symbolic bytes")
        return True

    def endswith(self, suffix):
        if isinstance(suffix, tuple):
            return any(self.endswith(x) for x in suffix)
        s = SymBytes.of(suffix).cells
        if len(s) > len(self.cells):
            return False
        for x, y in zip(self.cells[len(self.cells) - len(s):], s):
            if isinstance(x, int) and isinstance(y, int):
                if x != y:
                    return False
            elif x == y:
                continue
            else:
                raise Undecided("endswith on symbolic bytes")
        return True

    def unpack(self, fmt):
        order, fields = _parse_fmt(fmt)
        need = sum(s for _, s in fields)
        if self.has_blob():
            raise PyRaise("struct.error: unpack of a buffer that includes a variable-length payload")
        if need != len(self.cells):
            raise PyRaise(f"struct.error: unpack requires a buffer of {need} bytes (got {len(self.cells)})")
        out = []
        p = 0
        for code, size in fields:
            chunk = self.cells[p:p + size]
            p += size
            if code == "x":
                continue
            if code == "s":
                out.append(SymBytes(chunk))
                continue
            if all(isinstance(c, int) for c in chunk):
                out.append(_struct.unpack((">" if order == "big" else "<") + code, bytes(chunk))[0])
                continue
            if size == 1 and isinstance(chunk[0], LenByte):
                out.append(LenSym(chunk[0].blob))
                continue
            if any(isinstance(c, (LenByte, Blob)) for c in chunk):
                raise Undecided("length byte inside a multi-byte field")
            le = list(reversed(chunk)) if order == "big" else chunk
            bits = []
            for c in le:
                if isinstance(c, int):
                    bits.extend(Bit.const((c >> i) & 1) for i in range(8))
                else:
                    bits.extend(c.bits)
            signed = code in "bhilq"
            ext = bits[-1] if signed else Bit.const(0)
            out.append(BV(bits + [ext] * (WIDTH - len(bits))))
        return tuple(out)

    def interp_getattr(self, attr):
        if attr in ("startswith", "endswith"):
            fn = getattr(self, attr)
            return Native(lambda args, kwargs: fn(*args))
        if attr in ("lstrip", "rstrip", "strip"):
            def strip(args, kwargs, attr=attr):
                chars = set(args[0]) if args and isinstance(args[0], (bytes, bytearray)) else set(b" \t\n\r\x0b\x0c")
                cells = list(self.cells)
                if attr in ("lstrip", "strip"):
                    while cells and isinstance(cells[0], int) and cells[0] in chars:
                        cells.pop(0)
                    # a symbolic byte at the frontier may be one of the stripped characters: the adversarial reading (it is)
                    # is the one that matters to "for every field value" obligations - it goes, and stripping continues
                    while cells and not isinstance(cells[0], (int, Blob)):
                        cells.pop(0)
                        while cells and isinstance(cells[0], int) and cells[0] in chars:
                            cells.pop(0)
                    if cells and isinstance(cells[0], Blob):
                        cells[0] = Blob(cells[0].name + "~lstripped")  # may have lost leading payload bytes
                if attr in ("rstrip", "strip"):
                    while cells and isinstance(cells[-1], int) and cells[-1] in chars:
                        cells.pop()
                    while cells and not isinstance(cells[-1], (int, Blob)):
                        cells.pop()
                        while cells and isinstance(cells[-1], int) and cells[-1] in chars:
                            cells.pop()
                    if cells and isinstance(cells[-1], Blob):
                        cells[-1] = Blob(cells[-1].name + "~rstripped")
                return SymBytes(cells)
            return Native(strip)
        if attr in ("removeprefix", "removesuffix"):
            def rem(args, kwargs, attr=attr):
                p_ = list(args[0])
                cells = list(self.cells)
                if attr == "removeprefix" and cells[:len(p_)] == p_:
                    return SymBytes(cells[len(p_):])
                if attr == "removesuffix" and p_ and cells[-len(p_):] == p_:
                    return SymBytes(cells[:-len(p_)])
                return SymBytes(cells)
            return Native(rem)
        if attr == "decode":
            c = self.concrete()
            if c is None:
                raise Undecided("decode of symbolic bytes")
            return Native(lambda args, kwargs: c.decode(*args))
        raise Undecided(f"bytes method {attr} on symbolic bytes")

    def __eq__(self, o):
        try:
            return self.cells == SymBytes.of(o).cells
        except Undecided:
            return False

    def __hash__(self):
        return id(self)

    def __repr__(self):
        return f"SymBytes({self.cells})"


def field(name, bits):
    """A symbolic unsigned field value of `bits` bits."""
    return BV.symbols(name, bits)


def sfield(name, bits):
    """A symbolic signed field value (two's complement, sign-extended)."""
    v = BV.symbols(name, bits)
    top = v.bits[bits - 1]
    v.bits = v.bits[:bits] + [top] * (WIDTH - bits)
    return v


def bv_equals_field(bv, name, nbits, signed=False):
    """Is bv exactly the field `name` (bit k == name[k], zero/sign extension above)?"""
    if not isinstance(bv, BV):
        return False, f"decoded value is {type(bv).__name__}, not a field"
    for i in range(nbits):
        if not bv.bits[i].is_sym(f"{name}[{i}]"):
            return False, f"bit {i} is {bv.bits[i].describe()}, expected {name}[{i}]"
    for i in range(nbits, WIDTH):
        if signed:
            if not bv.bits[i].is_sym(f"{name}[{nbits - 1}]"):
                return False, f"bit {i} is {bv.bits[i].describe()}, expected sign extension"
        elif not bv.bits[i].is_const(0):
            return False, f"bit {i} is {bv.bits[i].describe()}, expected 0"
    return True, ""
