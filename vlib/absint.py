"""A small abstract interpreter over geckolib's Python subset.

It walks the AST of repository functions with *my* evaluator (nothing from /repo is
imported, exec'd or eval'd).  Values are ordinary Python constants plus domain objects
that overload the operators they support:

  BV      per-bit provenance words (bit = Boolean function of <= 3 provenance symbols)
  Affine  a*x + b over Fraction
  Opaque  an unknown value; any use in a branch condition => Undecided

Conditions must evaluate to a concrete bool, otherwise the obligation is UNDECIDED
(raised as Undecided) - never guessed.
"""
from __future__ import annotations

import ast
import struct as _struct
from fractions import Fraction

from .src import Repo, Unfoldable, is_logging_call


class Undecided(Exception):
    pass


class PyRaise(Exception):
    """The interpreted code executed a `raise` (or a modelled builtin raised)."""

    def __init__(self, what, node=None):
        super().__init__(what)
        self.what = what
        self.node = node


class _Return(Exception):
    def __init__(self, value):
        self.value = value


class _Break(Exception):
    pass


class _Continue(Exception):
    pass


class Opaque:
    """Unknown value.  Arithmetic keeps it opaque; truth value is undecided."""

    def __init__(self, name="?"):
        self.name = name

    def _o(self, *_):
        return Opaque(self.name)

    __add__ = __radd__ = __sub__ = __rsub__ = __mul__ = __rmul__ = _o
    __truediv__ = __rtruediv__ = __floordiv__ = __rfloordiv__ = __mod__ = __rmod__ = _o
    __and__ = __rand__ = __or__ = __ror__ = __xor__ = __rxor__ = _o
    __lshift__ = __rlshift__ = __rshift__ = __rrshift__ = _o
    __neg__ = __invert__ = _o

    def __bool__(self):
        raise Undecided(f"truth value of opaque {self.name}")

    def __getitem__(self, i):
        return Opaque(f"{self.name}[]")

    def __iter__(self):
        # without this, list(opaque) falls back to __getitem__(0), (1), ... and never ends
        raise Undecided(f"iteration over opaque {self.name}")

    def __repr__(self):
        return f"Opaque({self.name})"


class Obj:
    """An instance of a repository class (or an anonymous record)."""

    _active = None     # the interpreter most recently at work (for protocol methods reached from library code)

    def __init__(self, cls=None, attrs=None, name="obj"):
        self.cls = cls
        self.attrs = dict(attrs or {})
        self.name = name

    def __repr__(self):
        return f"<Obj {self.cls.name if self.cls else self.name}>"

    # a NamedTuple instance is also a tuple of its fields (unpacking, indexing, len)
    def _tuple(self):
        f = self.attrs.get("__fields__")
        if f is None:
            raise TypeError(f"{self!r} is not iterable")
        return tuple(self.attrs[n] for n in f)

    def __bool__(self):
        return True

    def __iter__(self):
        return iter(self._tuple())

    def __len__(self):
        return len(self._tuple())

    def __getitem__(self, i):
        return self._tuple()[i]


class EnumMember:
    def __init__(self, cls, name, value):
        self.cls, self.name, self.value = cls, name, value

    def __eq__(self, o):
        if isinstance(o, EnumMember):
            return self.cls is o.cls and self.value == o.value
        if any(b.split(".")[-1] == "IntEnum" for b in self.cls.bases) and isinstance(o, int):
            return self.value == o
        return False

    def __hash__(self):
        if any(b.split(".")[-1] == "IntEnum" for b in self.cls.bases):
            return hash(self.value)
        return hash((self.cls.name, self.value))

    def __repr__(self):
        return f"{self.cls.short}.{self.name}"

    def __int__(self):
        return int(self.value)

    def __index__(self):
        return int(self.value)

    def interp_getattr(self, attr):
        if attr == "name":
            return self.name
        if attr == "value":
            return self.value
        raise PyRaise(f"AttributeError: {attr}")


class StrEnumMember(str):
    """member of a `class X(str, Enum)`: IS its string value (formatting, ==, hashing, dictionary keys)"""

    def __new__(cls_, cls, name, value):
        o = str.__new__(cls_, value)
        o.cls, o.name, o.value = cls, name, value
        return o


class ListObj(list):
    """instance of a repository class that derives from list"""

    def __init__(self, cls, items=()):
        super().__init__(items)
        self.cls = cls
        self.attrs = {}

    def __hash__(self):
        return id(self)

    def __repr__(self):
        return f"<{self.cls.short} {list.__repr__(self)}>"


class DictObj(dict):
    """instance of a repository class that derives from dict"""

    def __init__(self, cls, *a, **k):
        super().__init__(*a, **k)
        self.cls = cls
        self.attrs = {}

    def __hash__(self):
        return id(self)


def _builtin_base(repo, cls):
    for k in repo.mro(cls):
        for b in k.bases:
            if b in ("list", "dict"):
                return b
    return None


class PropertyObj:
    """property(fget, fset) built by a call (a class-level `x = property(...)` or a helper that returns one)"""

    def __init__(self, fget=None, fset=None):
        self.fget, self.fset = fget, fset

    def interp_getattr(self, attr):
        if attr == "setter":
            return Native(lambda a, k: PropertyObj(self.fget, a[0]), "property.setter")
        if attr == "getter":
            return Native(lambda a, k: PropertyObj(a[0], self.fset), "property.getter")
        if attr in ("fget", "fset"):
            return getattr(self, attr)
        raise PyRaise(f"AttributeError: {attr}")


class LoggerStub:
    """logging.getLogger(...): a logger handed around as a value (a helper that takes `log`); its methods do nothing, or
    report to the model's log hook"""

    def __init__(self, interp):
        self.interp = interp

    def interp_getattr(self, attr):
        if attr in ("debug", "info", "warning", "error", "exception", "critical", "log", "warn"):
            def emit(a, k, attr=attr):
                hook = self.interp.__dict__.get("log_hook")
                if hook is not None:
                    hook(attr, list(a))
                return None
            return Native(emit, f"logger.{attr}")
        if attr in ("isEnabledFor",):
            return Native(lambda a, k: False, "logger.isEnabledFor")
        if attr in ("setLevel", "addHandler", "removeHandler"):
            return Native(lambda a, k: None, f"logger.{attr}")
        if attr in ("level", "name"):
            return 0 if attr == "level" else "logger"
        return Opaque(f"logger.{attr}")


class ClassRef:
    def __init__(self, cls):
        self.cls = cls

    def __iter__(self):
        if not any(b.split(".")[-1] in ("IntEnum", "Enum") for b in self.cls.bases):
            raise Undecided(f"iteration over class {self.cls.name}")
        names = [nm for nm, ex in self.cls.consts.items() if not nm.startswith("_") and not isinstance(ex, ast.Lambda)]
        for nm in names:
            ex = self.cls.consts[nm]
            if isinstance(ex, ast.Constant):
                if any(b == "str" for b in self.cls.bases) and isinstance(ex.value, str):
                    yield StrEnumMember(self.cls, nm, ex.value)
                else:
                    yield EnumMember(self.cls, nm, ex.value)
            elif isinstance(ex, ast.Call) and ast.unparse(ex.func).split(".")[-1] == "auto":
                yield EnumMember(self.cls, nm, names.index(nm) + 1)
            else:
                raise Undecided(f"iteration over enum {self.cls.name} with computed member values")


class BoundMethod:
    """like Python's bound methods: a new object per attribute access, equal when they bind the same
    function to the same object"""

    def __init__(self, obj, fi):
        self.obj = obj
        self.fi = fi

    def __eq__(self, o):
        return isinstance(o, BoundMethod) and o.obj is self.obj and o.fi is self.fi

    def __hash__(self):
        return hash((id(self.obj), id(self.fi)))


def _derives_from_asyncio_queue(mro):
    """is some base of these classes asyncio's Queue - however it is named at the class statement (`asyncio.Queue`,
    `asyncio.queues.Queue`, `queues.Queue` after `from asyncio import queues`, `Queue` after `from asyncio import Queue`)"""
    for k in mro:
        for b in k.bases:
            parts = b.split(".")
            if parts[-1] not in ("Queue", "LifoQueue", "PriorityQueue"):
                continue
            if "asyncio" in parts:
                return True
            imp = getattr(k.mod, "imports", {}).get(parts[0])
            if imp is not None and str(imp[1] or "").split(".")[0] == "asyncio":
                return True
    return False


def _asyncio_queue_member(obj, attr):
    """what a class derived from asyncio.Queue inherits from it (the standard library is not analysed, its documented
    behaviour is modelled): an unbounded-or-bounded FIFO in `_queue`, maxsize, qsize / empty / full, put_nowait / get_nowait
    (and put / get, which on the model never have to wait)"""
    def q():
        return obj.attrs.setdefault("_queue", [])

    def own(nm):
        """the subclass's override of one of asyncio.Queue's documented hooks (_init / _put / _get), if it has one"""
        it_ = Obj._active
        if it_ is None or obj.cls is None:
            return None
        for k_ in it_.repo.mro(obj.cls):
            if nm in k_.methods:
                return k_.methods[nm]
        return None

    def init(a, k):
        ms_ = a[0] if a else k.get("maxsize", 0)
        obj.attrs["_queue"] = []
        obj.attrs["maxsize"] = obj.attrs["_maxsize"] = ms_
        for nm in ("qsize", "empty", "full", "put_nowait", "get_nowait", "put", "get", "task_done"):
            obj.attrs.setdefault(nm, _asyncio_queue_member(obj, nm))
        f_ = own("_init")
        if f_ is not None:
            Obj._active.call(f_, obj, [ms_])      # Queue.__init__ calls self._init(maxsize): the hook chooses the container
        return None

    def put(a, k):
        ms = obj.attrs.get("maxsize", 0)
        if isinstance(ms, int) and ms > 0 and len(q()) >= ms:
            raise PyRaise("asyncio.QueueFull")
        f_ = own("_put")
        if f_ is not None:
            return Obj._active.call(f_, obj, [a[0]])
        q().append(a[0])

    def get(a, k):
        if not q():
            raise PyRaise("asyncio.QueueEmpty")
        f_ = own("_get")
        if f_ is not None:
            return Obj._active.call(f_, obj, [])
        c_ = q()
        return c_.popleft() if hasattr(c_, "popleft") else c_.pop(0)
    table = {"__init__": init, "qsize": lambda a, k: len(q()), "empty": lambda a, k: not q(),
             "full": lambda a, k: isinstance(obj.attrs.get("maxsize", 0), int) and 0 < obj.attrs.get("maxsize", 0) <= len(q()),
             "put_nowait": put, "get_nowait": get, "put": put, "get": get, "task_done": lambda a, k: None}
    if attr in table:
        return Native(table[attr], f"asyncio.Queue.{attr}")
    return None


class SuperRef:
    def __init__(self, obj, after_cls):
        self.obj = obj
        self.after = after_cls


class Native:
    """A callable implemented by the analysis itself: fn(args, kwargs)."""

    def __init__(self, fn, name="native"):
        self.fn = fn
        self.name = name

    def __call__(self, args, kwargs):
        return self.fn(args, kwargs)


class Scope(dict):
    """local names of a nested function on top of the enclosing function's (live, not a copy)"""

    def __init__(self, parent):
        super().__init__()
        self.parent = parent
        self.nonlocals = set()

    def __contains__(self, k):
        return dict.__contains__(self, k) or k in self.parent

    def __getitem__(self, k):
        if dict.__contains__(self, k):
            return dict.__getitem__(self, k)
        return self.parent[k]

    def get(self, k, d=None):
        return self[k] if k in self else d

    def __setitem__(self, k, v):
        if k in self.nonlocals:
            self.parent[k] = v
        else:
            dict.__setitem__(self, k, v)

    def setdefault(self, k, d=None):
        if k not in self:
            dict.__setitem__(self, k, d)
        return self[k]

    def flat(self):
        out = flat_env(self.parent)
        out.update(dict.items(self))
        return out


def flat_env(env):
    return env.flat() if isinstance(env, Scope) else dict(env)


class Closure:
    """a lambda, or a function defined inside a function, with its defining environment"""

    def __init__(self, interp, node, env):
        self.interp, self.node, self.env = interp, node, env

    def __call__(self, args, kwargs):
        a = self.node.args
        params = [p.arg for p in a.posonlyargs + a.args]
        is_def = not isinstance(self.node, ast.Lambda)
        env = Scope(self.env) if is_def else flat_env(self.env)
        kwargs = dict(kwargs)
        if is_def:
            for p in params + [x.arg for x in a.kwonlyargs] + ([a.vararg.arg] if a.vararg else []) + ([a.kwarg.arg] if a.kwarg else []):
                dict.__setitem__(env, p, _UNSET)
        if len(args) > len(params) and a.vararg is None:
            raise Undecided("lambda arity")
        for p, v in zip(params, args):
            env[p] = v
        if a.vararg is not None:
            env[a.vararg.arg] = tuple(args[len(params):])
        dstart = len(params) - len(a.defaults)
        for i, p in enumerate(params):
            if i >= len(args):
                if p in kwargs:
                    env[p] = kwargs.pop(p)
                elif i >= dstart:
                    env[p] = self.interp.eval(a.defaults[i - dstart], self.env)
                else:
                    raise Undecided(f"{'function' if is_def else 'lambda'} missing argument {p}")
        for p, d in zip(a.kwonlyargs, a.kw_defaults):
            if p.arg in kwargs:
                env[p.arg] = kwargs.pop(p.arg)
            elif d is not None:
                env[p.arg] = self.interp.eval(d, self.env)
            else:
                raise Undecided(f"missing keyword-only argument {p.arg}")
        if a.kwarg is not None:
            env[a.kwarg.arg] = kwargs
        elif kwargs and is_def:
            raise Undecided(f"unexpected keyword arguments {list(kwargs)} for {getattr(self.node, 'name', 'lambda')}")
        if not is_def:
            return self.interp.eval(self.node.body, env)
        it = self.interp
        if it.depth >= it.max_depth + 4:
            raise Undecided(f"inlining depth exceeded at local function {self.node.name}")
        if _is_generator(self.node):
            return it._make_generator(self.node.body, env, self.node.name, [ast.unparse(d) for d in self.node.decorator_list])
        it.depth += 1
        try:
            it.exec_block(self.node.body, env)
        except _Return as r:
            return r.value
        finally:
            it.depth -= 1
        return None


_UNSET = object()


import collections as _collections
import re as _re_mod
_re_memo = _re_mod.compile(r"\b(lru_cache|cache)\b")


class ModuleRef:
    def __init__(self, name):
        self.name = name


class RepoModule:
    """a module of the analysed package as a value (`from . import helpers`): its attributes are its globals"""
    def __init__(self, mod):
        self.mod = mod

    def __repr__(self):
        return f"<module {self.mod.rel}>"


class Interp:
    def __init__(self, repo: Repo, max_depth=6):
        self.repo = repo
        self.max_depth = max_depth
        self.depth = 0
        self.call_hook = None  # fn(interp, node, callee_value, args, kwargs) -> value | NotImplemented
        self.attr_hook = None  # fn(interp, obj_value, attr) -> value | NotImplemented
        self.trace = []
        self.steps = 0
        self.globals = {}
        self._cb_busy = set()

    # ---- entry points -----------------------------------------------------
    def call(self, fi, self_obj, args=(), kwargs=None):
        Obj._active = self
        kwargs = dict(kwargs or {})
        if self.depth >= self.max_depth:
            raise Undecided(f"inlining depth {self.max_depth} exceeded at {fi.qual}")
        a = fi.node.args
        params = [p.arg for p in a.posonlyargs + a.args]
        env = {"__class__": fi.cls, "__mod__": fi.mod, "__locals__": _assigned_names(fi.node)}
        vals = list(args)
        if self_obj is not None and not fi.is_static:
            vals = [self_obj] + vals
        if len(vals) > len(params) and a.vararg is None:
            raise Undecided(f"too many args for {fi.qual}")
        for p, v in zip(params, vals):
            env[p] = v
        if a.vararg is not None:
            env[a.vararg.arg] = tuple(vals[len(params):])
        defaults = a.defaults
        dstart = len(params) - len(defaults)
        for i, p in enumerate(params):
            if p in env:
                continue
            if p in kwargs:
                env[p] = kwargs.pop(p)
            elif i >= dstart:
                env[p] = self.eval(defaults[i - dstart], {"__class__": fi.cls, "__mod__": fi.mod})
            else:
                raise Undecided(f"missing argument {p} for {fi.qual}")
        for p, d in zip(a.kwonlyargs, a.kw_defaults):
            if p.arg in kwargs:
                env[p.arg] = kwargs.pop(p.arg)
            elif d is not None:
                env[p.arg] = self.eval(d, env)
        if a.kwarg is not None:
            env[a.kwarg.arg] = kwargs
        elif kwargs:
            raise Undecided(f"unexpected kwargs {list(kwargs)} for {fi.qual}")
        if _is_generator(fi.node):
            return self._make_generator(fi.node.body, env, fi.qual, fi.decorators())
        # functools.lru_cache / functools.cache: the body runs once per distinct (hashable) argument tuple, every later
        # call with equal arguments gets the first result back - whatever the world looks like by then
        memo_key = None
        if any(_re_memo.search(d) for d in fi.decorators()):
            try:
                memo_key = (id(fi.node), tuple(env[p] for p in params), tuple(sorted((p.arg, env.get(p.arg)) for p in a.kwonlyargs)))
                hash(memo_key)
            except (TypeError, KeyError):
                memo_key = None
            memo = self.__dict__.setdefault("_memo", {})
            if memo_key is not None and memo_key in memo:
                return memo[memo_key]
        self.depth += 1
        try:
            self.exec_block(fi.node.body, env)
        except _Return as r:
            if memo_key is not None:
                self._memo[memo_key] = r.value
            return r.value
        finally:
            self.depth -= 1
        if memo_key is not None:
            self._memo[memo_key] = None
        return None

    def _make_generator(self, body, env, name, decorators=()):
        """a generator function was called: nothing of its body runs until the first next() (vlib.pystd.GenIter)"""
        from .pystd import GenCM, GenIter

        def run(channel):
            env["__yield__"] = channel
            try:
                self.exec_block(body, env)
            except _Return:
                pass
        g = GenIter(self, run, name)
        if any(d.split(".")[-1] in ("contextmanager", "asynccontextmanager") for d in decorators):
            return GenCM(g)
        return g

    def class_env(self, cls):
        """namespace of a class body, by executing its statements in order (assignments, loops,
        conditionals, calls such as D.update(...)); function definitions are skipped"""
        cache = self.__dict__.setdefault("_class_envs", {})
        if cls.name in cache:
            return cache[cls.name]
        env = {"__class__": None, "__mod__": cls.mod}
        for st in cls.node.body:
            if isinstance(st, (ast.FunctionDef, ast.AsyncFunctionDef, ast.ClassDef)):
                continue
            self.exec(st, env)
        cache[cls.name] = env
        return env

    # ---- statements -------------------------------------------------------
    def exec_block(self, stmts, env):
        for st in stmts:
            self.exec(st, env)

    def exec(self, st, env):
        self.steps += 1
        if self.steps > 200000:
            raise Undecided("step budget exceeded")
        if isinstance(st, ast.Expr):
            v = st.value
            if isinstance(v, ast.Constant):
                return
            if isinstance(v, ast.Call) and is_logging_call(v):
                if self.__dict__.get("log_hook") is not None:
                    self.e_Call(v, env)
                return
            if isinstance(v, ast.Yield):
                env["__yield__"].append(self.eval(v.value, env) if v.value is not None else None)
                return
            if isinstance(v, ast.YieldFrom):
                from .pystd import lazy_iter
                env["__yield__"].extend(lazy_iter(self.eval(v.value, env)))
                return
            self.eval(v, env)
            return
        if isinstance(st, ast.Assign):
            val = self.eval(st.value, env)
            for t in st.targets:
                self.assign(t, val, env)
            return
        if isinstance(st, ast.AnnAssign):
            if st.value is not None:
                self.assign(st.target, self.eval(st.value, env), env)
            return
        if isinstance(st, ast.AugAssign):
            cur = self.eval(_load(st.target), env)
            rhs = self.eval(st.value, env)
            # in-place operators of the mutable builtins mutate the object every alias sees (`a = self._xs; a += more`)
            if isinstance(cur, list) and isinstance(st.op, ast.Add) and not isinstance(rhs, Opaque):
                from .pystd import lazy_iter
                try:
                    cur.extend(list(lazy_iter(rhs)))
                except TypeError as e:
                    raise PyRaise(f"TypeError: {e}", st)
                val = cur
            elif isinstance(cur, (set, dict, bytearray, _collections.deque)) and isinstance(st.op, (ast.BitOr, ast.Add, ast.BitAnd, ast.Sub)) and not isinstance(rhs, Opaque):
                import operator as _op
                fn = {ast.BitOr: _op.ior, ast.Add: _op.iadd, ast.BitAnd: _op.iand, ast.Sub: _op.isub}[type(st.op)]
                try:
                    val = fn(cur, rhs)
                except TypeError as e:
                    raise PyRaise(f"TypeError: {e}", st)
            else:
                val = self.binop(st.op, cur, rhs)
            self.assign(st.target, val, env)
            return
        if isinstance(st, ast.If):
            if self.truth(self.eval(st.test, env), st.test):
                self.exec_block(st.body, env)
            else:
                self.exec_block(st.orelse, env)
            return
        if isinstance(st, ast.Return):
            raise _Return(self.eval(st.value, env) if st.value is not None else None)
        if isinstance(st, ast.Raise):
            what = ast.unparse(st.exc) if st.exc is not None else "re-raise"
            raise PyRaise(what, st)
        if isinstance(st, ast.Pass):
            return
        if isinstance(st, ast.Assert):
            if not self.truth(self.eval(st.test, env), st.test):
                raise PyRaise("AssertionError", st)
            return
        if isinstance(st, (ast.With, ast.AsyncWith)):
            # context managers used in analysed code are locks: body runs once.  A model lock (an Obj carrying Native
            # __enter__/__exit__, handed in by a model) is entered and released, so a model can act at the release point
            # Anything else with the protocol - a repository class with __enter__/__exit__ (or the async pair), what
            # @contextmanager makes of a generator function, contextlib.suppress / closing / nullcontext - is entered,
            # bound to its `as` target and left with the exception (if any); a manager that returns true swallows it.
            # Managers the analysis cannot see into (threading.Lock(), an opaque object) guard a body that runs once.
            self._exec_with(st, env, 0)
            return
        if isinstance(st, ast.While):
            n = 0
            while self.truth(self.eval(st.test, env), st.test):
                n += 1
                if n > 10000:
                    raise Undecided("loop bound")
                try:
                    self.exec_block(st.body, env)
                except _Break:
                    break
                except _Continue:
                    continue
            else:
                self.exec_block(st.orelse, env)
            return
        if isinstance(st, ast.For):
            it = self.eval(st.iter, env)
            if isinstance(it, (Opaque,)):
                raise Undecided("iteration over opaque")
            broke = False

            # Python iterates a list by index over the LIVE object: removals and appends during the loop count; an
            # iterator (generator, filter, map, chain ...) is advanced one element per round
            from .pystd import lazy_iter
            for v in lazy_iter(it):
                self.assign(st.target, v, env)
                try:
                    self.exec_block(st.body, env)
                except _Break:
                    broke = True
                    break
                except _Continue:
                    continue
            if not broke:
                self.exec_block(st.orelse, env)
            return
        if isinstance(st, ast.Break):
            raise _Break()
        if isinstance(st, ast.Continue):
            raise _Continue()
        if isinstance(st, ast.Try):
            try:
                try:
                    self.exec_block(st.body, env)
                except PyRaise as e:
                    for h in st.handlers:
                        tn = ast.unparse(h.type) if h.type is not None else ""
                        if h.type is None or tn in ("Exception", "BaseException") or tn.split(".")[-1] in e.what:
                            if h.name:
                                env[h.name] = Opaque("exc")
                            try:
                                self.exec_block(h.body, env)
                            except PyRaise as e2:
                                if e2.what == "re-raise":
                                    raise e     # a bare `raise` in the handler: the exception being handled goes on
                                raise
                            break
                    else:
                        raise
                else:
                    self.exec_block(st.orelse, env)
            except (PyRaise, _Return, _Break, _Continue):
                # leaving the statement by raise / return / break / continue (from the body, a handler or the else
                # clause) still runs the finally clause
                self.exec_block(st.finalbody, env)
                raise
            self.exec_block(st.finalbody, env)
            return
        if isinstance(st, ast.Global):
            env.setdefault("__globals__", set()).update(st.names)
            for nm in st.names:
                env.pop(nm, None)
            return
        if isinstance(st, ast.Nonlocal):
            if isinstance(env, Scope):
                env.nonlocals.update(st.names)
                for nm in st.names:
                    dict.pop(env, nm, None)
            return
        if isinstance(st, ast.Import):
            # a local import binds the module name in the function's scope
            for al in st.names:
                top = al.name.split(".")[0]
                if al.asname:
                    env[al.asname] = ModuleRef(al.name)
                else:
                    env[top] = ModuleRef(top)
            return
        if isinstance(st, ast.ImportFrom):
            mod_ = env.get("__mod__")
            for al in st.names:
                local = al.asname or al.name
                if st.level == 0 and st.module and not st.module.startswith("geckolib"):
                    env[local] = Builtin(f"{st.module}.{al.name}")
                elif mod_ is not None:
                    # resolve like a module-level import of the enclosing module
                    saved = mod_.imports.get(local, _UNSET)
                    mod_.imports[local] = (st.level, st.module or "", al.name)
                    try:
                        env.pop(local, None)
                        try:
                            v = self.e_Name(ast.Name(id=local, ctx=ast.Load()), {"__mod__": mod_, "__class__": None})
                        except Undecided:
                            v = Opaque(local)
                        env[local] = v
                    finally:
                        if saved is _UNSET:
                            mod_.imports.pop(local, None)
                        else:
                            mod_.imports[local] = saved
            return
        if isinstance(st, (ast.FunctionDef, ast.AsyncFunctionDef)):
            env[st.name] = Closure(self, st, env)   # a local function: sees the enclosing scope live, as in Python
            return
        if isinstance(st, ast.Delete):
            for t in st.targets:
                if isinstance(t, ast.Name):
                    env.pop(t.id, None)
                elif isinstance(t, ast.Subscript):
                    try:
                        del self.eval(t.value, env)[self.eval(t.slice, env)]
                    except Exception as e:
                        raise Undecided(f"del: {e}")
                else:
                    raise Undecided("del target")
            return
        raise Undecided(f"unsupported statement {type(st).__name__} line {st.lineno}")

    def _exec_with(self, st, env, i):
        if i == len(st.items):
            self.exec_block(st.body, env)
            return
        item = st.items[i]
        try:
            m = self.eval(item.context_expr, env)
        except Undecided:
            m = Opaque("context manager")
        kind = None
        if hasattr(m, "enter") and hasattr(m, "exit") and not isinstance(m, Obj):
            kind = "std"
        elif isinstance(m, Obj) and isinstance(m.attrs.get("__exit__"), Native):
            kind = "model"
        elif isinstance(m, Obj) and m.cls is not None:
            names = {n for k in self.repo.mro(m.cls) for n in k.methods}
            if "__enter__" in names and "__exit__" in names and not isinstance(st, ast.AsyncWith):
                kind = "sync"
            elif "__aenter__" in names and "__aexit__" in names:
                kind = "async"
            elif "__enter__" in names and "__exit__" in names:
                kind = "sync"
        if kind == "std":
            value = m.enter(self)
        elif kind == "model":
            en = m.attrs.get("__enter__")
            value = en([], {}) if isinstance(en, Native) else m
        elif kind in ("sync", "async"):
            value = self.apply(self.getattr(m, "__enter__" if kind == "sync" else "__aenter__"), [], {}, st)
        else:
            value = m
        if item.optional_vars is not None:
            self.assign(item.optional_vars, value, env)

        def leave(exc):
            """-> True when the manager swallows the exception"""
            if kind == "std":
                return bool(m.exit(self, exc))
            if kind == "model":
                m.attrs["__exit__"]([None, None, None], {})
                return False
            if kind in ("sync", "async"):
                a = [None, None, None] if exc is None else [Opaque(exc.what.split(":")[0]), Opaque("exc"), Opaque("traceback")]
                r = self.apply(self.getattr(m, "__exit__" if kind == "sync" else "__aexit__"), a, {}, st)
                return exc is not None and r is not None and not isinstance(r, Opaque) and self.truth(r)
            return False
        try:
            self._exec_with(st, env, i + 1)
        except PyRaise as e:
            if not leave(e):
                raise
            return
        except (_Return, _Break, _Continue):
            leave(None)
            raise
        except BaseException:
            if kind == "model":
                leave(None)   # a model lock is released whatever ends the analysis of the body
            raise
        leave(None)

    def setattr(self, base, attr, val):
        """attribute store on an instance: a property setter of its class (or a class-level property object) takes it,
        else it lands in the instance"""
        if base.cls is not None:
            for k in self.repo.mro(base.cls):
                if attr in k.setters:
                    self.call(k.setters[attr], base, [val])
                    return
                if attr in k.methods and k.methods[attr].is_property:
                    raise PyRaise(f"AttributeError: can't set attribute '{attr}'")
                if attr in k.consts:
                    cv = self._class_value(k, attr)
                    if isinstance(cv, PropertyObj):
                        if cv.fset is None:
                            raise PyRaise(f"AttributeError: can't set attribute '{attr}'")
                        self.apply(cv.fset, [base, val], {})
                        return
                    break
        hook = base.attrs.get("__setattr_hook__")
        if hook is not None:
            hook([attr, val], {})  # model objects that record plain attribute stores
        base.attrs[attr] = val

    def apply_hooked(self, callee, args, kwargs, node=None):
        """apply, after giving a model's call hook the chance to stand in (calls made through functools.partial,
        methodcaller ... must reach the same stand-ins as direct calls)"""
        if self.call_hook is not None:
            r = self.call_hook(self, node, callee, list(args), dict(kwargs))
            if r is not NotImplemented:
                return r
        return self.apply(callee, args, kwargs, node)

    def assign(self, target, val, env):
        if isinstance(target, ast.Name):
            if target.id in env.get("__globals__", ()):
                self.globals[target.id] = val  # `global X` was declared in this function
                return
            env[target.id] = val
            return
        if isinstance(target, ast.Attribute):
            base = self.eval(target.value, env)
            if isinstance(base, (ListObj, DictObj)):
                base.attrs[target.attr] = val
                return
            if isinstance(base, Obj):
                self.setattr(base, target.attr, val)
                return
            if False:
                hook = base.attrs.get("__setattr_hook__")
                if hook is not None:
                    hook([target.attr, val], {})  # model objects that record plain attribute stores
                base.attrs[target.attr] = val
                return
            raise Undecided(f"attribute store on {base!r}")
        if isinstance(target, (ast.Tuple, ast.List)):
            try:
                vals = list(val)
            except TypeError:
                if val is None or isinstance(val, (bool, int, float)):
                    raise PyRaise(f"TypeError: cannot unpack non-iterable {type(val).__name__} object", target)
                raise Undecided("unpack of non-iterable")
            if len(vals) != len(target.elts):
                raise PyRaise("ValueError: unpack arity", target)
            for t, v in zip(target.elts, vals):
                self.assign(t, v, env)
            return
        if isinstance(target, ast.Subscript):
            base = self.eval(target.value, env)
            idx = self.eval(target.slice, env)
            try:
                base[idx] = val
            except Exception as e:
                raise Undecided(f"subscript store: {e}")
            return
        raise Undecided(f"assignment target {type(target).__name__}")

    # ---- expressions ------------------------------------------------------
    def dunder(self, v, name):
        """the special method `name` an instance of a repository class has (own class or package bases), else None"""
        if isinstance(v, (Obj, ListObj, DictObj)) and getattr(v, "cls", None) is not None:
            for k in self.repo.mro(v.cls):
                if name in k.methods:
                    return k.methods[name]
        return None

    def truth(self, v, node=None):
        if isinstance(v, (bool, int, float, str, bytes, list, tuple, dict, type(None), set, USet)) and not isinstance(v, (ListObj, DictObj)):
            return bool(v)
        if isinstance(v, (Obj, ListObj, DictObj)):
            f = self.dunder(v, "__bool__")
            if f is not None:
                return self.truth(self.call(f, v, []), node)
            f = self.dunder(v, "__len__")
            if f is not None:
                return self.call(f, v, []) != 0
            if isinstance(v, Obj):
                return True
            return bool(v)
        try:
            return bool(v)
        except Undecided:
            raise
        except Exception:
            raise Undecided(f"truth of {v!r} at line {getattr(node, 'lineno', '?')}")

    def eval(self, e, env):
        m = getattr(self, "e_" + type(e).__name__, None)
        if m is None:
            raise Undecided(f"unsupported expression {type(e).__name__}")
        return m(e, env)

    def e_Constant(self, e, env):
        return e.value

    def e_Name(self, e, env):
        if e.id in env:
            return env[e.id]
        if e.id in getattr(self, "globals", {}):
            return self.globals[e.id]
        mod = env.get("__mod__")
        cb = env.get("__classbody__")
        if cb is not None and e.id in cb.consts and (id(cb), e.id) not in self._cb_busy:
            # a class-level expression naming a sibling class constant; `X = X` in a class body reads the global X
            self._cb_busy.add((id(cb), e.id))
            try:
                return self.eval(cb.consts[e.id], env)
            finally:
                self._cb_busy.discard((id(cb), e.id))
        if cb is not None and e.id in cb.methods:
            bm = BoundMethod(None, cb.methods[e.id])  # a class-level table naming a function of the class body: the plain function
            bm.unbound = not cb.methods[e.id].is_static
            return bm
        if e.id == "__name__" and mod is not None:
            return mod.rel[4:-3].replace("/", ".") if mod.rel.startswith("src/") else mod.rel
        if e.id in ("True", "False", "None"):
            return {"True": True, "False": False, "None": None}[e.id]
        if e.id in BUILTINS:
            return Builtin(e.id)
        if mod is not None and e.id in mod.classes:
            return ClassRef(mod.classes[e.id])      # a class of this very module wins over same-named classes elsewhere
        cs = self.repo.classes().get(e.id, [])
        if len(cs) == 1:
            return ClassRef(cs[0])
        if mod is not None and e.id in mod.consts:
            return self._module_value(mod, e.id)
        if mod is not None and e.id in getattr(mod, "functions", {}):
            return BoundMethod(None, mod.functions[e.id])
        if mod is not None and e.id in mod.imports:
            tgt = self.repo._import_target(mod, e.id)
            if tgt is not None:
                m2, nm = tgt
                if nm is None:
                    return RepoModule(m2)   # `from . import helpers`: a module of the package
                if nm in m2.consts:
                    return self._module_value(m2, nm)
                if nm in m2.classes:
                    return ClassRef(m2.classes[nm])
                if nm in m2.functions:
                    return BoundMethod(None, m2.functions[nm])
                if nm in getattr(m2, "dropped_functions", {}):
                    return BoundMethod(None, m2.dropped_functions[nm])
        if e.id in ("struct", "time", "asyncio", "logging", "re", "math", "threading", "socket", "enum", "operator", "contextlib", "dataclasses", "typing", "functools", "itertools", "collections", "importlib", "datetime", "os", "sys", "ast", "weakref"):
            return ModuleRef(e.id)
        if mod is not None and e.id in mod.imports and mod.imports[e.id][0] == 0:
            from .pystd import STD_MODULES
            _lvl, _m, _n = mod.imports[e.id]
            if _m in STD_MODULES or _m in ("struct", "re", "time", "asyncio", "math"):
                return Builtin(f"{_m}.{_n}")   # from functools import partial, from operator import attrgetter ...
        if mod is not None and e.id in mod.imports:
            if mod.imports[e.id][0] >= 1 and e.id.startswith("_"):
                raise Undecided(f"`{e.id}` is imported from inside the package but its definition was not found")
            return Opaque(e.id)  # imported from outside the package (datetime, ...)
        if e.id in env.get("__locals__", ()):
            raise PyRaise(f"UnboundLocalError: cannot access local variable '{e.id}' where it is not associated with a value", e)
        raise Undecided(f"unbound name {e.id}")

    def e_Attribute(self, e, env):
        base = self.eval(e.value, env)
        return self.getattr(base, e.attr, e)

    def getattr(self, base, attr, node=None):
        if self.attr_hook is not None:
            r = self.attr_hook(self, base, attr)
            if r is not NotImplemented:
                return r
        if isinstance(base, (Obj, ListObj, DictObj)):
            if attr in base.attrs:
                return base.attrs[attr]
            if attr == "__dict__":
                return base.attrs          # the instance dictionary, live
            if isinstance(base, Obj) and "__fields__" in base.attrs and attr in ("_replace", "_asdict", "_fields"):
                flds = list(base.attrs["__fields__"])
                if attr == "_fields":
                    return tuple(flds)
                if attr == "_asdict":
                    return Native(lambda a, k, b=base: {f: b.attrs[f] for f in flds}, "_asdict")

                def _replace(a, k, b=base):
                    bad = [x for x in k if x not in flds]
                    if bad:
                        raise PyRaise(f"ValueError: Got unexpected field names: {bad}", node)
                    o = Obj(b.cls, dict(b.attrs, **k), name=b.name)
                    return o
                return Native(_replace, "_replace")
            if base.cls is not None:
                for k in self.repo.mro(base.cls):
                    if attr in k.methods:
                        fi = k.methods[attr]
                        if fi.is_property:
                            if any("cached_property" in d for d in fi.decorators()):
                                v_ = self.call(fi, base)
                                base.attrs[attr] = v_       # computed once, then an instance attribute
                                return v_
                            return self.call(fi, base)
                        if "classmethod" in fi.decorators():
                            return BoundMethod(ClassRef(base.cls), fi)
                        return BoundMethod(base, fi)
                    if attr in k.consts:
                        cv = self._class_value(k, attr)
                        if isinstance(cv, PropertyObj):
                            return self.apply(cv.fget, [base], {}, node)
                        return cv
                if attr == "__class__":
                    return ClassRef(base.cls)
            if isinstance(base, (ListObj, DictObj)):
                return PyMethod(base, attr)   # the inherited list / dict method
            raise PyRaise(f"AttributeError: {attr}", node)
        if isinstance(base, (EnumMember, StrEnumMember)):
            if attr in ("name", "value"):
                return getattr(base, attr)
            if attr == "__class__":
                return ClassRef(base.cls)
            for k in self.repo.mro(base.cls):
                if attr in k.methods:
                    fi = k.methods[attr]
                    if fi.is_property:
                        return self.call(fi, base)
                    if "classmethod" in fi.decorators():
                        return BoundMethod(ClassRef(base.cls), fi)
                    return BoundMethod(None if fi.is_static else base, fi)
                if attr in k.consts and not self._is_enum_member_name(k, attr):
                    return self._class_value(k, attr)
            if isinstance(base, StrEnumMember):
                return PyMethod(str(base), attr)
            raise PyRaise(f"AttributeError: {attr}", node)
        if isinstance(base, ClassRef) and attr in ("__name__", "__qualname__"):
            return base.cls.short if attr == "__name__" else base.cls.name
        if isinstance(base, SuperRef):
            mro = self.repo.mro(base.obj.cls)
            seen = False
            for k in mro:
                if seen and attr in k.methods:
                    return BoundMethod(base.obj, k.methods[attr])
                if k is base.after:
                    seen = True
            if isinstance(base.obj, ListObj):
                if attr == "__init__":
                    return Native(lambda a, k, o=base.obj: list.__init__(o, *a), "list.__init__")
                return PyMethod(base.obj, attr)
            if isinstance(base.obj, DictObj):
                if attr == "__init__":
                    return Native(lambda a, k, o=base.obj: dict.__init__(o, *a, **k), "dict.__init__")
                return PyMethod(base.obj, attr)
            if _derives_from_asyncio_queue(mro):
                std = _asyncio_queue_member(base.obj, attr)
                if std is not None:
                    return std
            if attr == "__init__":
                return Builtin("noop")
            lib_bases = {b.split(".")[-1] for k in mro for b in k.bases}
            if attr in ("__aexit__", "__aenter__") and lib_bases & {"Lock", "Semaphore", "BoundedSemaphore", "Condition"}:
                return Native(lambda a, k: None, f"asyncio-lock.{attr}")      # asyncio's locks never suppress what leaves the block
            if attr in ("__exit__", "__aexit__") and lib_bases & {"AbstractContextManager", "AbstractAsyncContextManager"}:
                return Native(lambda a, k: None, f"contextlib.{attr}")
            if attr in ("__enter__", "__aenter__") and lib_bases & {"AbstractContextManager", "AbstractAsyncContextManager"}:
                return Native(lambda a, k, o=base.obj: o, f"contextlib.{attr}")
            raise Undecided(f"super().{attr} not found")
        if isinstance(base, ClassRef):
            if _is_enum(base.cls) and attr in base.cls.consts and self._is_enum_member_name(base.cls, attr):
                m_ = self.enum_member(base.cls, attr)
                if m_ is not None:
                    return m_
            for k in self.repo.mro(base.cls):
                if attr in k.consts:
                    return self._class_value(k, attr)
                if attr in k.methods:
                    if "classmethod" in k.methods[attr].decorators():
                        return BoundMethod(base, k.methods[attr])
                    return BoundMethod(None, k.methods[attr])
                if attr in getattr(k, "inner", {}):
                    return ClassRef(k.inner[attr])
            raise Undecided(f"{base.cls.name}.{attr}")
        if isinstance(base, RepoModule):
            try:
                return self.eval(ast.Name(id=attr, ctx=ast.Load()), {"__mod__": base.mod, "__class__": None})
            except Undecided:
                raise PyRaise(f"AttributeError: module '{base.mod.rel}' has no attribute '{attr}'", node)
        if isinstance(base, ModuleRef):
            if base.name == "re" and attr in ("DOTALL", "IGNORECASE", "MULTILINE", "VERBOSE", "ASCII", "S", "I", "M", "X", "A"):
                import re as _re
                return int(getattr(_re, attr))
            return Builtin(f"{base.name}.{attr}")
        if isinstance(base, Builtin) and "." in base.name and base.name.split(".")[0] in ("itertools", "functools", "operator", "contextlib", "collections", "enum", "dataclasses", "typing"):
            return Builtin(f"{base.name}.{attr}")   # itertools.chain.from_iterable
        if isinstance(base, Builtin) and base.name in ("dict", "str", "bytes", "int", "list", "tuple", "set", "frozenset", "float"):
            import builtins as _b
            return PyMethod(getattr(_b, base.name), attr)  # dict.fromkeys, str.join, bytes.fromhex, int.from_bytes ...
        if isinstance(base, (str, bytes, list, tuple, dict, set, frozenset, bytearray, USet, _collections.deque, memoryview)):
            if isinstance(base, _collections.deque) and attr == "maxlen":
                return base.maxlen
            return PyMethod(base, attr)
        if type(base).__module__ == "re" or type(base).__name__ in ("Pattern", "Match"):
            v = getattr(base, attr, None)
            if v is None and not hasattr(base, attr):
                raise PyRaise(f"AttributeError: {attr}", node)
            if callable(v):
                pm = PyMethod(base, attr)
                pm.interp = self       # compiled_pattern.sub(<function of the program>, text)
                return pm
            return v
        if hasattr(base, "interp_getattr"):
            return base.interp_getattr(attr)
        if isinstance(base, Opaque):
            return Opaque(f"{base.name}.{attr}")
        if isinstance(base, BoundMethod):
            # a bound method of the analysed program as a value: what Python's method objects publish
            if attr == "__self__":
                return base.obj
            if attr in ("__name__", "__qualname__"):
                return base.fi.name if attr == "__name__" else base.fi.qual
            if attr == "__doc__":
                return ast.get_docstring(base.fi.node)
            if attr == "__module__":
                return base.fi.mod.rel.replace("/", ".").removesuffix(".py").removeprefix("src.")
            if attr == "__func__":
                return Opaque(f"function {base.fi.qual}")
            raise PyRaise(f"AttributeError: 'method' object has no attribute '{attr}'", node)
        if isinstance(base, (Closure, Native)):
            # a plain function (def / lambda / a stand-in callable): no __self__
            nd_ = getattr(base, "node", None)
            if attr in ("__name__", "__qualname__"):
                return getattr(nd_, "name", None) or (base.name if isinstance(base, Native) else "<lambda>")
            if attr == "__doc__":
                return ast.get_docstring(nd_) if isinstance(nd_, (ast.FunctionDef, ast.AsyncFunctionDef)) else None
            if attr in ("__self__", "__func__"):
                raise PyRaise(f"AttributeError: 'function' object has no attribute '{attr}'", node)
        if base is None or isinstance(base, (bool, int, float)):
            if hasattr(base, attr):
                v = getattr(base, attr)
                return PyMethod(base, attr) if callable(v) else v
            raise PyRaise(f"AttributeError: '{type(base).__name__}' object has no attribute '{attr}'", node)
        raise Undecided(f"attribute {attr} of {type(base).__name__}")

    def _is_enum_member_name(self, cls, attr):
        ex_ = cls.consts.get(attr)
        if attr in getattr(cls, "late_attrs", ()):
            return False          # assigned after the class body: a plain class attribute, never a member
        return ex_ is not None and not attr.startswith("_") and not isinstance(ex_, ast.Lambda)

    def enum_member(self, cls, attr):
        """the (one) member object `cls.attr` of an Enum class: constant, auto() or computed value; a str mixin makes the
        member a string"""
        cache = self.__dict__.setdefault("_enum_members", {})
        if (cls.name, attr) in cache:
            return cache[(cls.name, attr)]
        ex_ = cls.consts[attr]
        if isinstance(ex_, ast.Constant):
            val = ex_.value
        elif isinstance(ex_, ast.Call) and ast.unparse(ex_.func).split(".")[-1] == "auto" and not ex_.args:
            members = [k_ for k_ in cls.consts if self._is_enum_member_name(cls, k_)]
            val = members.index(attr) + 1
        else:
            try:
                val = self.eval(ex_, {"__class__": cls, "__mod__": cls.mod, "__classbody__": cls})
            except Undecided:
                return None
        # a repeated value makes the later name an ALIAS of the earlier member (Python's Enum): same object, same name
        if not self.__dict__.get("_enum_alias_busy"):
            self._enum_alias_busy = True
            try:
                for k_ in cls.consts:
                    if k_ == attr:
                        break
                    if not self._is_enum_member_name(cls, k_):
                        continue
                    first = cache.get((cls.name, k_))
                    if first is None:
                        e2 = cls.consts[k_]
                        if not isinstance(e2, ast.Constant):
                            continue
                        if e2.value == val and type(e2.value) is type(val):
                            self._enum_alias_busy = False
                            first = self.enum_member(cls, k_)
                            self._enum_alias_busy = True
                        else:
                            continue
                    if first is not None and first.value == val and type(first.value) is type(val):
                        cache[(cls.name, attr)] = first
                        return first
            finally:
                self._enum_alias_busy = False
        if any(b == "str" for b in cls.bases) and isinstance(val, str):
            m_ = StrEnumMember(cls, attr, val)
        else:
            m_ = EnumMember(cls, attr, val)
        cache[(cls.name, attr)] = m_   # one object per member: `is` works
        return m_

    def enum_members(self, cls):
        return [m for m in (self.enum_member(cls, a) for a in cls.consts if self._is_enum_member_name(cls, a)) if m is not None]

    def _record_kind(self, cls):
        """'namedtuple' / 'dataclass' for classes whose constructor Python synthesises from the annotated fields"""
        for k in self.repo.mro(cls):
            if any(b.split(".")[-1] == "NamedTuple" for b in k.bases):
                return "namedtuple"
            for d in k.node.decorator_list:
                t = ast.unparse(d.func if isinstance(d, ast.Call) else d)
                if t.split(".")[-1] == "dataclass":
                    return "dataclass"
        return None

    def _make_record(self, cls, args, kwargs, node=None):
        kind = self._record_kind(cls)
        fields = []
        for k in reversed(self.repo.mro(cls)):
            for st in k.node.body:
                if isinstance(st, ast.AnnAssign) and isinstance(st.target, ast.Name) and "ClassVar" not in ast.unparse(st.annotation):
                    fields = [f for f in fields if f[0] != st.target.id] + [(st.target.id, st.value, k)]
        def _no_init(d):
            return isinstance(d, ast.Call) and ast.unparse(d.func).split(".")[-1] == "field" and \
                any(x.arg == "init" and isinstance(x.value, ast.Constant) and x.value.value is False for x in d.keywords)
        init_fields = [f for f in fields if not _no_init(f[1])]
        if len(args) > len(init_fields):
            raise PyRaise(f"TypeError: {cls.short}() takes {len(init_fields)} positional arguments but {len(args)} were given", node)
        vals = {}
        for (nm, _d, _k), v in zip(init_fields, args):
            vals[nm] = v
        for nm, v in kwargs.items():
            if nm not in [f[0] for f in init_fields] or nm in vals:
                raise PyRaise(f"TypeError: {cls.short}() got an unexpected or repeated keyword argument '{nm}'", node)
            vals[nm] = v
        for nm, d, k in fields:
            if nm in vals:
                continue
            if d is None:
                raise PyRaise(f"TypeError: {cls.short}() missing required argument: '{nm}'", node)
            env = {"__class__": k, "__mod__": k.mod, "__classbody__": k}
            if isinstance(d, ast.Call) and ast.unparse(d.func).split(".")[-1] == "field":
                kw = {x.arg: x.value for x in d.keywords}
                if "default_factory" in kw:
                    vals[nm] = self.apply(self.eval(kw["default_factory"], env), [], {}, node)
                elif "default" in kw:
                    vals[nm] = self.eval(kw["default"], env)
                elif _no_init(d):
                    continue   # set by __post_init__
                else:
                    raise PyRaise(f"TypeError: {cls.short}() missing required argument: '{nm}'", node)
            else:
                vals[nm] = self.eval(d, env)
        obj = Obj(cls, vals)
        if kind == "namedtuple":
            obj.attrs["__fields__"] = [f[0] for f in fields]
        else:
            eq_ = True
            for k in self.repo.mro(cls):
                for d in k.node.decorator_list:
                    if isinstance(d, ast.Call) and ast.unparse(d.func).split(".")[-1] == "dataclass":
                        for x in d.keywords:
                            if x.arg == "eq" and isinstance(x.value, ast.Constant) and x.value.value is False:
                                eq_ = False
            if eq_ and not any("__eq__" in k.methods for k in self.repo.mro(cls)):
                obj.attrs["__dc_fields__"] = [f[0] for f in fields]     # the generated __eq__ compares these, class by class
            for k in self.repo.mro(cls):
                if "__post_init__" in k.methods:
                    self.call(k.methods["__post_init__"], obj, [], {})
                    break
        return obj

    def _module_value(self, mod, name):
        """value of a module-level binding; a mutable one (dict / list / set) exists once per module, as in Python"""
        cache = self.__dict__.setdefault("_module_values", {})
        key = (mod.rel, name)
        if key in cache:
            return cache[key]
        ex_ = mod.consts[name]
        if isinstance(ex_, ast.Call) and ast.unparse(ex_.func) in ("logging.getLogger", "getLogger"):
            return LoggerStub(self)
        if isinstance(ex_, (ast.Tuple, ast.List, ast.Dict, ast.Set, ast.Call, ast.Attribute)):
            # displays / calls naming enum members, records, helper objects: interpreted (folding would flatten enum
            # members to their values); plain constants and string arithmetic are folded
            try:
                v = self.eval(ex_, {"__mod__": mod, "__class__": None})
            except (Undecided, PyRaise):
                try:
                    v = self.repo.fold(ex_, mod)
                except Unfoldable:
                    raise
        else:
            try:
                v = self.repo.fold(mod.consts[name], mod)
            except Unfoldable:
                v = self.eval(mod.consts[name], {"__mod__": mod, "__class__": None})
        if isinstance(v, (dict, list, set, USet, _collections.deque)) or hasattr(v, "__next__"):
            cache[key] = v     # ... and an iterator / generator bound at module level is ONE object: used up once, for good
        return v

    def _class_value(self, k, attr):
        """value of a class-level attribute; a mutable one (dict / list / set display) exists once per class, as in
        Python: every instance reads - and mutates - the same object"""
        cache = self.__dict__.setdefault("_class_values", {})
        key = (k.name, attr)
        if key in cache:
            return cache[key]
        v = self.eval(k.consts[attr], {"__class__": k, "__mod__": k.mod, "__classbody__": k})
        if isinstance(v, (dict, list, set, USet, _collections.deque)) or hasattr(v, "__next__"):
            cache[key] = v     # ... and an iterator bound in the class body is ONE object shared by every instance
        return v

    def e_Call(self, e, env):
        if is_logging_call(e):
            hook = self.__dict__.get("log_hook")
            if hook is not None and isinstance(e.func, ast.Attribute):
                # a model wants to see what is logged (the shell writes snapshots through its logger)
                hook(e.func.attr, [self.eval(a, env) for a in e.args])
            return None
        # super()
        if isinstance(e.func, ast.Name) and e.func.id == "super" and not e.args:
            return SuperRef(env.get("self"), env.get("__class__"))
        callee = self.eval(e.func, env)
        args = []
        for a in e.args:
            if isinstance(a, ast.Starred):
                args.extend(list(self.eval(a.value, env)))
            else:
                args.append(self.eval(a, env))
        kwargs = {}
        for k in e.keywords:
            if k.arg is None:
                kwargs.update(self.eval(k.value, env))
            else:
                kwargs[k.arg] = self.eval(k.value, env)
        if self.call_hook is not None:
            r = self.call_hook(self, e, callee, args, kwargs)
            if r is not NotImplemented:
                return r
        return self.apply(callee, args, kwargs, e)

    def apply(self, callee, args, kwargs, node=None):
        if isinstance(callee, BoundMethod) and getattr(callee, "unbound", False):
            if not args:
                raise PyRaise(f"TypeError: {callee.fi.name}() missing 1 required positional argument: 'self'", node)
            return self.call(callee.fi, args[0], list(args[1:]), kwargs)
        if isinstance(callee, BoundMethod):
            return self.call(callee.fi, callee.obj, args, kwargs)
        if isinstance(callee, ClassRef) and _is_enum(callee.cls):
            if len(args) != 1:
                raise Undecided("enum call arity")
            v = args[0]
            if isinstance(v, (EnumMember, StrEnumMember)) and v.cls is callee.cls:
                return v
            if not isinstance(v, (int, str, bytes, tuple, float, bool, type(None))):
                raise Undecided("enum lookup of a symbolic value")
            for m_ in self.enum_members(callee.cls):
                if m_.value == v and type(m_.value) is type(v) or (isinstance(v, int) and isinstance(m_.value, int) and m_.value == v):
                    return m_
            raise PyRaise(f"ValueError: {v!r} is not a valid {callee.cls.short}", node)
        if isinstance(callee, ClassRef) and _builtin_base(self.repo, callee.cls) is not None:
            bb = _builtin_base(self.repo, callee.cls)
            obj = ListObj(callee.cls) if bb == "list" else DictObj(callee.cls)
            init = None
            for k in self.repo.mro(callee.cls):
                if "__init__" in k.methods:
                    init = k.methods["__init__"]
                    break
            if init is not None:
                self.call(init, obj, args, kwargs)
            elif bb == "list":
                from .pystd import lazy_iter
                list.extend(obj, lazy_iter(args[0]) if args else [])
            else:
                dict.update(obj, *args, **kwargs)
            return obj
        if isinstance(callee, ClassRef) and any(b.split(".")[-1] == "TypedDict" for k in self.repo.mro(callee.cls) for b in k.bases):
            return dict(*args, **kwargs)       # a TypedDict class is a plain dict at run time
        if isinstance(callee, ClassRef) and self._record_kind(callee.cls) is not None and not any("__init__" in k.methods for k in self.repo.mro(callee.cls)):
            return self._make_record(callee.cls, args, kwargs, node)
        if isinstance(callee, ClassRef):
            obj = Obj(callee.cls)
            init = None
            for k in self.repo.mro(callee.cls):
                if "__init__" in k.methods:
                    init = k.methods["__init__"]
                    break
            if init is not None:
                self.call(init, obj, args, kwargs)
            return obj
        if isinstance(callee, PyMethod) and callee.attr == "format" and isinstance(callee.base, str) \
                and any(isinstance(a, (Obj, EnumMember)) for a in list(args) + list(kwargs.values())):
            import string as _string
            interp = self

            class _F(_string.Formatter):
                def get_field(self, field_name, a_, k_):
                    first, rest = _string._string.formatter_field_name_split(field_name)
                    obj = self.get_value(first, a_, k_)
                    for is_attr, i in rest:
                        obj = interp.getattr(obj, i, node) if is_attr else obj[i]
                    return obj, first

                def format_field(self, value, spec):
                    if isinstance(value, (Obj, EnumMember)):
                        return interp.stringify(value, node) if hasattr(interp, "stringify") else str(value)
                    return format(value, spec)
            try:
                return _F().vformat(callee.base, tuple(args), dict(kwargs))
            except (IndexError, KeyError) as ex_:
                raise PyRaise(f"{type(ex_).__name__}: {ex_}", node)
        if isinstance(callee, PyMethod):
            return callee(*args, **kwargs)
        if isinstance(callee, (Native, Closure)):
            return callee(args, kwargs)
        if hasattr(callee, "call") and type(callee).__module__.endswith("pystd"):
            return callee.call(self, args, kwargs, node)   # functools.partial, itemgetter / attrgetter / methodcaller
        if isinstance(callee, Builtin):
            return callee(self, args, kwargs, node)
        if isinstance(callee, Opaque):
            return Opaque(callee.name + "()")
        raise Undecided(f"call of {callee!r}")

    def e_BinOp(self, e, env):
        return self.binop(e.op, self.eval(e.left, env), self.eval(e.right, env))

    def binop(self, op, l, r):
        try:
            if isinstance(op, ast.Add):
                return l + r
            if isinstance(op, ast.Sub):
                return l - r
            if isinstance(op, ast.Mult):
                return l * r
            if isinstance(op, ast.Div):
                return l / r
            if isinstance(op, ast.FloorDiv):
                return l // r
            if isinstance(op, ast.Mod):
                return l % r
            if isinstance(op, ast.LShift):
                return l << r
            if isinstance(op, ast.RShift):
                return l >> r
            if isinstance(op, ast.BitAnd):
                return l & r
            if isinstance(op, ast.BitOr):
                return l | r
            if isinstance(op, ast.BitXor):
                return l ^ r
        except (Undecided, PyRaise):
            raise
        except ZeroDivisionError:
            raise PyRaise("ZeroDivisionError")
        except Exception as ex:
            raise Undecided(f"binop {type(op).__name__} on {type(l).__name__},{type(r).__name__}: {ex}")
        raise Undecided(f"operator {type(op).__name__}")

    def e_UnaryOp(self, e, env):
        v = self.eval(e.operand, env)
        if isinstance(e.op, ast.Not):
            return not self.truth(v, e)
        try:
            if isinstance(e.op, ast.USub):
                return -v
            if isinstance(e.op, ast.Invert):
                return ~v
            if isinstance(e.op, ast.UAdd):
                return +v
        except Exception as ex:
            raise Undecided(f"unary: {ex}")
        raise Undecided("unary op")

    def e_BoolOp(self, e, env):
        if isinstance(e.op, ast.And):
            v = True
            for x in e.values:
                v = self.eval(x, env)
                if not self.truth(v, x):
                    return v
            return v
        v = False
        for x in e.values:
            v = self.eval(x, env)
            if self.truth(v, x):
                return v
        return v

    def e_Compare(self, e, env):
        l = self.eval(e.left, env)
        for op, c in zip(e.ops, e.comparators):
            r = self.eval(c, env)
            res = self.compare(op, l, r)
            if not self.truth(res, e):
                return False
            l = r
        return True

    def compare(self, op, l, r):
        if isinstance(op, ast.Is):
            if l is None or r is None:
                return l is r
            if isinstance(l, Builtin) and isinstance(r, Builtin):
                return l.name == r.name          # `type(x) is str`: the builtin types are singletons
            if isinstance(l, ClassRef) and isinstance(r, ClassRef):
                return l.cls is r.cls
            if isinstance(l, (EnumMember, StrEnumMember)) and isinstance(r, (EnumMember, StrEnumMember)):
                return l.cls is r.cls and l.name == r.name   # enum members are singletons
            return l is r
        if isinstance(op, ast.IsNot):
            return not self.compare(ast.Is(), l, r)
        if isinstance(l, Opaque) or isinstance(r, Opaque):
            raise Undecided("comparison with opaque value")
        if isinstance(op, (ast.Eq, ast.NotEq)) and any(isinstance(x, Obj) and "__fields__" in x.attrs for x in (l, r)) \
                and all(isinstance(x, tuple) or (isinstance(x, Obj) and "__fields__" in x.attrs) for x in (l, r)):
            tl, tr = (x if isinstance(x, tuple) else x._tuple() for x in (l, r))    # a NamedTuple IS a tuple
            return (tl == tr) if isinstance(op, ast.Eq) else (tl != tr)
        if isinstance(op, (ast.Eq, ast.NotEq)) and isinstance(l, Obj) and isinstance(r, Obj) and "__dc_fields__" in l.attrs and "__dc_fields__" in r.attrs:
            same = l.cls is r.cls and all(self.truth(self.compare(ast.Eq(), l.attrs.get(f_), r.attrs.get(f_))) for f_ in l.attrs["__dc_fields__"])
            return same if isinstance(op, ast.Eq) else (not same)
        if isinstance(op, (ast.Eq, ast.NotEq)):
            for a_, b_ in ((l, r), (r, l)):
                f = self.dunder(a_, "__ne__") if isinstance(op, ast.NotEq) else None
                if f is not None:
                    return self.call(f, a_, [b_])
                f = self.dunder(a_, "__eq__")
                if f is not None:
                    res = self.call(f, a_, [b_])
                    if isinstance(res, Builtin) and res.name == "NotImplemented":
                        continue
                    return res if isinstance(op, ast.Eq) else (not self.truth(res))
        if isinstance(op, (ast.In, ast.NotIn)) and isinstance(r, (list, tuple)) and not isinstance(r, ListObj) \
                and (isinstance(l, Obj) or any(isinstance(x, Obj) for x in r)):
            # membership among instances goes through their own equality (identity first, as Python does)
            res = any(x is l or self.truth(self.compare(ast.Eq(), x, l)) for x in r)
            return res if isinstance(op, ast.In) else (not res)
        if isinstance(op, (ast.In, ast.NotIn)) and isinstance(r, (Obj, ListObj, DictObj)):
            f = self.dunder(r, "__contains__")
            if f is not None:
                res = self.truth(self.call(f, r, [l]))
                return res if isinstance(op, ast.In) else (not res)
            f = self.dunder(r, "__iter__")
            if f is not None:
                from .pystd import lazy_iter
                res = any(self.truth(self.compare(ast.Eq(), x, l)) for x in lazy_iter(self.call(f, r, [])))
                return res if isinstance(op, ast.In) else (not res)
        _ops = {ast.Lt: "__lt__", ast.LtE: "__le__", ast.Gt: "__gt__", ast.GtE: "__ge__"}
        if type(op) in _ops:
            f = self.dunder(l, _ops[type(op)])
            if f is not None:
                return self.call(f, l, [r])
        try:
            if isinstance(op, ast.Eq):
                return l == r
            if isinstance(op, ast.NotEq):
                return l != r
            if isinstance(op, ast.Lt):
                return l < r
            if isinstance(op, ast.LtE):
                return l <= r
            if isinstance(op, ast.Gt):
                return l > r
            if isinstance(op, ast.GtE):
                return l >= r
            if isinstance(op, (ast.In, ast.NotIn)):
                if isinstance(r, (bytes, bytearray)) and hasattr(l, "concrete") and hasattr(l, "cells"):
                    # `data[4:5] in b"QP"`: a slice of a symbolic datagram as the needle of a bytes containment
                    lc = l.concrete()
                    if lc is None:
                        raise Undecided("containment of symbolic bytes in a byte string")
                    l = lc
                return (l in r) if isinstance(op, ast.In) else (l not in r)
        except (Undecided, PyRaise):
            raise
        except Exception as ex:
            raise Undecided(f"compare: {ex}")
        raise Undecided("compare op")

    def e_IfExp(self, e, env):
        if self.truth(self.eval(e.test, env), e.test):
            return self.eval(e.body, env)
        return self.eval(e.orelse, env)

    def _elts(self, elts, env):
        out = []
        for x in elts:
            if isinstance(x, ast.Starred):
                out.extend(list(self.eval(x.value, env)))   # [a, *rest]
            else:
                out.append(self.eval(x, env))
        return out

    def e_Tuple(self, e, env):
        return tuple(self._elts(e.elts, env))

    def e_List(self, e, env):
        return self._elts(e.elts, env)

    def e_Dict(self, e, env):
        out = {}
        for k, v in zip(e.keys, e.values):
            if k is None:
                out.update(self.eval(v, env))   # {**other}
            else:
                out[self.eval(k, env)] = self.eval(v, env)
        return out

    def e_Subscript(self, e, env):
        base = self.eval(e.value, env)
        if isinstance(e.slice, ast.Slice):
            lo = self.eval(e.slice.lower, env) if e.slice.lower is not None else None
            hi = self.eval(e.slice.upper, env) if e.slice.upper is not None else None
            st = self.eval(e.slice.step, env) if e.slice.step is not None else None
            idx = slice(lo, hi, st)
        else:
            idx = self.eval(e.slice, env)
        if isinstance(base, Obj) and "__fields__" not in base.attrs:
            f = self.dunder(base, "__getitem__")
            if f is not None:
                return self.call(f, base, [idx])
        try:
            return base[idx]
        except (Undecided, PyRaise):
            raise
        except IndexError:
            raise PyRaise("IndexError", e)
        except KeyError:
            raise PyRaise("KeyError", e)
        except TypeError as ex:
            if isinstance(base, (list, tuple, str, bytes, dict)) and "indices must be" in str(ex):
                raise PyRaise(f"TypeError: {ex}", e)   # a concrete sequence indexed with None / a string: what Python raises
            raise Undecided(f"subscript: {ex}")
        except Exception as ex:
            raise Undecided(f"subscript: {ex}")

    def e_JoinedStr(self, e, env):
        out = ""
        for v in e.values:
            if isinstance(v, ast.Constant):
                out += v.value
                continue
            val = self.eval(v.value, env)
            if isinstance(val, (Obj, ListObj, DictObj)) and getattr(val, "cls", None) is not None:
                t_ = self.text_of(val, "repr" if v.conversion == ord("r") else "str")
                if t_ is None:
                    return Opaque("fstring")
                val = t_
            if not isinstance(val, (int, str, float, bytes, bool, type(None), tuple, list)):
                return Opaque("fstring")
            if v.conversion == ord("r"):
                val = repr(val)
            elif v.conversion == ord("s"):
                val = str(val)
            spec = ""
            if v.format_spec is not None:
                spec = self.e_JoinedStr(v.format_spec, env)
                if isinstance(spec, Opaque):
                    return spec
            try:
                out += format(val, spec)
            except Exception as ex:
                raise PyRaise(f"ValueError: format: {ex}")
        return out

    def text_of(self, v, how="str"):
        """str(v) / repr(v) of an instance of a repository class: its own __str__ / __repr__ (str falls back to repr);
        None when the class defines neither (the default text holds an address)"""
        for nm in (("__str__", "__repr__") if how == "str" else ("__repr__",)):
            f = self.dunder(v, nm)
            if f is not None:
                r = self.call(f, v, [])
                return r if isinstance(r, str) else None
        return None

    def e_Await(self, e, env):
        # models that stand in for coroutines handed to a task registry must tell them from coroutines awaited on the
        # spot (`await self._step()`): the call being awaited directly is on the interpreter while it is evaluated
        prev = self.__dict__.get("_awaited")
        self._awaited = e.value
        try:
            return self.eval(e.value, env)
        finally:
            self._awaited = prev

    def e_Lambda(self, e, env):
        return Closure(self, e, flat_env(env))

    def e_Yield(self, e, env):
        env["__yield__"].append(self.eval(e.value, env) if e.value is not None else None)
        return None

    def e_YieldFrom(self, e, env):
        from .pystd import lazy_iter
        env["__yield__"].extend(lazy_iter(self.eval(e.value, env)))
        return None

    def e_ListComp(self, e, env):
        return self._comp(e, env, list)

    def e_GeneratorExp(self, e, env):
        return self._comp_iter(e, env)   # lazy: evaluated as far as its consumer asks (any() / next() stop early)

    def e_SetComp(self, e, env):
        return self._comp(e, env, USet)

    def e_Set(self, e, env):
        return USet(self._elts(e.elts, env))

    def e_DictComp(self, e, env):
        pair = ast.Tuple(elts=[e.key, e.value], ctx=ast.Load())
        fake = ast.ListComp(elt=pair, generators=e.generators)
        return dict(self._comp(fake, env, list))

    def e_NamedExpr(self, e, env):
        v = self.eval(e.value, env)
        self.assign(e.target, v, env)
        return v

    def _comp_iter(self, e, env):
        from .pystd import lazy_iter

        def rec(i, env2):
            if i == len(e.generators):
                yield self.eval(e.elt, env2)
                return
            g = e.generators[i]
            for v in lazy_iter(self.eval(g.iter, env2)):
                env3 = dict(env2)
                self.assign(g.target, v, env3)
                if all(self.truth(self.eval(c, env3), c) for c in g.ifs):
                    yield from rec(i + 1, env3)

        return rec(0, flat_env(env))

    def _comp(self, e, env, ctor):
        return ctor(list(self._comp_iter(e, env)))


def _assigned_names(fnode):
    """names the function binds somewhere in its own body (its locals): reading one before it is bound is Python's
    UnboundLocalError, not an unknown"""
    r = getattr(fnode, "_assigned", None)
    if r is None:
        r = set()
        stack = list(fnode.body)
        glob = set()
        while stack:
            n = stack.pop()
            if isinstance(n, (ast.FunctionDef, ast.AsyncFunctionDef, ast.Lambda, ast.ClassDef)):
                if isinstance(n, (ast.FunctionDef, ast.AsyncFunctionDef, ast.ClassDef)):
                    r.add(n.name)
                continue
            if isinstance(n, (ast.Global, ast.Nonlocal)):
                glob |= set(n.names)
            if isinstance(n, ast.Name) and isinstance(n.ctx, ast.Store):
                r.add(n.id)
            stack.extend(ast.iter_child_nodes(n))
        r -= glob
        fnode._assigned = r = frozenset(r)
    return r


def _is_enum(cls):
    return any(b.split(".")[-1] in ("IntEnum", "Enum", "IntFlag", "Flag", "StrEnum") for b in cls.bases)


def _is_generator(fnode):
    r = getattr(fnode, "_is_gen", None)
    if r is None:
        r = fnode._is_gen = _is_generator_(fnode)
    return r


def _is_generator_(fnode):
    stack = list(fnode.body)
    while stack:
        n = stack.pop()
        if isinstance(n, (ast.Yield, ast.YieldFrom)):
            return True
        if isinstance(n, (ast.FunctionDef, ast.AsyncFunctionDef, ast.Lambda, ast.ClassDef)):
            continue
        stack.extend(ast.iter_child_nodes(n))
    return False


def _load(target):
    t = ast.parse(ast.unparse(target), mode="eval").body
    return t


class USet:
    """model of set / frozenset for interpreted code: membership and size as usual, but iteration in the
    REVERSE of insertion order.  Real set order is arbitrary (string hashing is randomised per process), so code
    whose result depends on it is exposed instead of passing by the luck of this process's hash seed."""

    def __init__(self, items=()):
        self._items = []
        for x in items:
            self.add(x)

    def add(self, x):
        if x not in self._items:
            self._items.append(x)

    def discard(self, x):
        if x in self._items:
            self._items.remove(x)

    def remove(self, x):
        self._items.remove(x)

    def update(self, other):
        for x in list(other):
            self.add(x)

    def copy(self):
        return USet(self._items)

    def union(self, *others):
        r = USet(self._items)
        for o in others:
            r.update(o)
        return r

    def intersection(self, other):
        o = list(other)
        return USet([x for x in self._items if x in o])

    def difference(self, other):
        o = list(other)
        return USet([x for x in self._items if x not in o])

    def issubset(self, other):
        o = list(other)
        return all(x in o for x in self._items)

    __or__ = union
    __and__ = intersection
    __sub__ = difference

    def __le__(self, other):
        return self.issubset(other)

    def __contains__(self, x):
        return x in self._items

    def __len__(self):
        return len(self._items)

    def __bool__(self):
        return bool(self._items)

    def __iter__(self):
        return iter(list(reversed(self._items)))

    def __eq__(self, o):
        if isinstance(o, (USet, set, frozenset)):
            return len(self) == len(o) and all(x in o for x in self._items)
        return False

    def __hash__(self):
        return hash(len(self._items))

    def __repr__(self):
        return "{" + ", ".join(map(repr, self._items)) + "}"


class _Iter:
    """explicit iterator state for iter()/next()"""

    def __init__(self, items):
        self.items = list(items)
        self.i = 0

    def next(self):
        if self.i >= len(self.items):
            raise StopIteration
        self.i += 1
        return self.items[self.i - 1]

    def __iter__(self):
        while self.i < len(self.items):
            self.i += 1
            yield self.items[self.i - 1]


class PyMethod:
    """A method of a concrete builtin value (str/list/bytes/dict/tuple)."""

    def __init__(self, base, attr):
        self.base = base
        self.attr = attr

    def __call__(self, *args, **kwargs):
        args = tuple(list(a) if hasattr(a, "__next__") else a for a in args)   # a method given an iterator consumes it
        if self.attr == "join" and isinstance(self.base, bytes) and args and isinstance(args[0], (list, tuple)):
            if any(not isinstance(x, (bytes, bytearray)) for x in args[0]):
                from .symbytes import SymBytes

                if self.base != b"":
                    raise Undecided("join with a separator over symbolic bytes")
                out = SymBytes([])
                for x in args[0]:
                    out = out + SymBytes.of(x)
                return out
        if self.base is int and self.attr == "from_bytes" and args and hasattr(args[0], "unpack") and not isinstance(args[0], (bytes, bytearray)):
            # int.from_bytes on symbolic bytes: the same word struct.unpack gives
            data = args[0]
            order = args[1] if len(args) > 1 else kwargs.get("byteorder", "big")
            n = data.length() if hasattr(data, "length") else None
            code = {1: "B", 2: "H", 4: "I"}.get(n if isinstance(n, int) else None)
            if code is None or order not in ("big", "little"):
                raise Undecided(f"int.from_bytes of {n!r} symbolic bytes, byteorder {order!r}")
            return data.unpack((">" if order == "big" else "<") + (code.lower() if kwargs.get("signed") else code))[0]
        if type(self.base).__name__ == "Pattern" and self.attr in ("sub", "subn") and args and not isinstance(args[0], (str, bytes)) and getattr(self, "interp", None) is not None:
            # compiled_pattern.sub(callable, text): the replacement is a function of the interpreted program
            repl_, it_ = args[0], self.interp
            return getattr(self.base, self.attr)(lambda m_: it_.apply(repl_, [m_], {}), *args[1:], **kwargs)
        if type(self.base).__name__ == "Pattern" and args and hasattr(args[0], "cells"):
            from .symregex import sym_match
            if args[0].concrete() is None:
                return sym_match(self.base, self.attr, args[0])
            args = (args[0].concrete(),) + tuple(args[1:])
        for a in args:
            if isinstance(a, Opaque):
                return Opaque(f"{self.attr}()")
        try:
            return getattr(self.base, self.attr)(*args, **kwargs)
        except (Undecided, PyRaise):
            raise
        except ValueError as e:
            raise PyRaise(f"ValueError: {e}")
        except IndexError as e:
            raise PyRaise(f"IndexError: {e}")
        except Exception as e:
            raise Undecided(f"builtin method {self.attr}: {e}")


def _dir_of(interp, v):
    names = set()
    if isinstance(v, Obj):
        names |= set(v.attrs)
        v = ClassRef(v.cls) if v.cls is not None else None
    if isinstance(v, ClassRef):
        for k in interp.repo.mro(v.cls):
            names |= set(k.consts) | set(k.methods)
    names |= {"__class__", "__doc__", "__init__", "__module__", "__eq__", "__repr__"}
    return sorted(names)


BUILTINS = {
    "int", "float", "len", "isinstance", "issubclass", "BaseException", "max", "min", "str", "bool", "range", "list",
    "tuple", "dict", "bytes", "abs", "enumerate", "zip", "sorted", "hex", "round", "set",
    "Exception", "ValueError", "RuntimeError", "OverflowError", "getattr", "setattr", "hasattr", "callable", "dir",
    "any", "all", "next", "iter", "frozenset", "sum", "reversed", "map", "filter", "print", "divmod", "bytearray", "repr", "ord", "chr", "memoryview", "type", "hash", "id",
    "TypeError", "KeyError", "IndexError", "AttributeError", "NotImplementedError", "StopIteration", "property", "open",
}


def _py_exception(b):
    """the library exception class a Builtin value stands for (BaseException, KeyError, asyncio.CancelledError ...)"""
    if not isinstance(b, Builtin):
        return None
    import builtins as _b, asyncio as _a
    nm = b.name
    c = getattr(_a, nm[8:], None) if nm.startswith("asyncio.") else getattr(_b, nm, None)
    return c if isinstance(c, type) and issubclass(c, BaseException) else None


class Builtin:
    def __init__(self, name):
        self.name = name

    def __eq__(self, o):
        return isinstance(o, Builtin) and o.name == self.name

    def __hash__(self):
        return hash(("builtin", self.name))

    def __call__(self, interp, args, kwargs, node=None):
        n = self.name
        if n == "noop":
            return None
        if n == "asyncio.Event":
            # asyncio.Event on a model loop that runs ONE coroutine: set / clear / is_set as documented; waiting for an
            # event that is not set can only end if somebody else sets it - on the model nobody else runs
            ev = Obj(None, {"_flag": False}, name="asyncio.Event")

            def _wait(a, k, ev=ev):
                if ev.attrs["_flag"]:
                    return True
                raise PyRaise("DeadlockError: await on an asyncio.Event that no running task can set (the task meant to set it has not run - or was cancelled before its first step)", node)
            ev.attrs.update({"set": Native(lambda a, k, ev=ev: ev.attrs.__setitem__("_flag", True), "Event.set"),
                             "clear": Native(lambda a, k, ev=ev: ev.attrs.__setitem__("_flag", False), "Event.clear"),
                             "is_set": Native(lambda a, k, ev=ev: ev.attrs["_flag"], "Event.is_set"),
                             "wait": Native(_wait, "Event.wait")})
            return ev
        if n == "property":
            return PropertyObj(args[0] if args else kwargs.get("fget"), args[1] if len(args) > 1 else kwargs.get("fset"))
        if n == "logging.getLogger":
            return LoggerStub(interp)
        if n == "issubclass":
            c_, t = args
            ts = t if isinstance(t, tuple) else (t,)
            if isinstance(c_, ClassRef) and all(isinstance(o_, ClassRef) for o_ in ts):
                return any(k is o_.cls for o_ in ts for k in interp.repo.mro(c_.cls))
            pys = [_py_exception(x) for x in (c_,) + tuple(ts)]
            if all(x is not None for x in pys):
                return issubclass(pys[0], tuple(pys[1:]))
            raise Undecided("issubclass over classes from outside the package")
        if n == "isinstance":
            v, t = args
            ts = t if isinstance(t, tuple) else (t,)
            for one in ts:
                if isinstance(one, Builtin):
                    py = {"str": str, "int": int, "float": float, "bool": bool, "bytes": bytes, "bytearray": bytearray, "memoryview": memoryview,
                          "list": list, "tuple": tuple, "dict": dict, "set": (set, USet), "frozenset": (frozenset, USet), "object": object}.get(one.name)
                    if py is not None and isinstance(v, py):
                        return True
                    if one.name == "tuple" and isinstance(v, Obj) and "__fields__" in v.attrs:
                        return True          # a NamedTuple instance is a tuple
                    if py is bytes and hasattr(v, "cells"):
                        return True
                elif isinstance(one, ClassRef) and isinstance(v, (Obj, ListObj, DictObj, EnumMember, StrEnumMember)) and v.cls is not None:
                    if any(k is one.cls for k in interp.repo.mro(v.cls)):
                        return True
            return False
        if n in ("int", "float"):
            (v,) = args[:1]
            if hasattr(v, "__class__") and hasattr(v, "conv_" + n):
                return getattr(v, "conv_" + n)()
            if isinstance(v, Opaque):
                return Opaque(f"{n}({v.name})")
            try:
                return int(v, *args[1:]) if n == "int" else float(v)
            except (ValueError, TypeError) as e:
                raise PyRaise(f"ValueError: {e}")
        if n == "len" and args and hasattr(args[0], "length"):
            return args[0].length()
        if n in ("len", "str", "repr", "bool", "list", "tuple", "sorted", "iter", "any", "all", "sum", "max", "min", "set", "frozenset", "enumerate", "zip", "map", "filter", "dict") and args \
                and isinstance(args[0], Obj) and args[0].cls is not None and "__fields__" not in args[0].attrs:
            o_ = args[0]
            if n == "len":
                f_ = interp.dunder(o_, "__len__")
                if f_ is not None:
                    return interp.call(f_, o_, [])
            elif n in ("str", "repr"):
                t_ = interp.text_of(o_, n)
                return t_ if t_ is not None else Opaque(n)
            elif n == "bool":
                return interp.truth(o_, node)
            else:
                f_ = interp.dunder(o_, "__iter__")
                if f_ is not None:
                    from .pystd import lazy_iter
                    return self(interp, [list(lazy_iter(interp.call(f_, o_, [])))] + list(args[1:]), kwargs, node)
        if n in ("max", "min", "len", "abs", "str", "bool", "list", "tuple", "dict", "bytes",
                 "sorted", "hex", "round"):
            if any(isinstance(a, Opaque) for a in args):
                return Opaque(n)
            for kw in ("key", "default"):
                f_ = kwargs.get(kw)
                if kw == "key" and (isinstance(f_, (Closure, BoundMethod, Native, Builtin, PyMethod)) or hasattr(f_, "call")):
                    kwargs = dict(kwargs)
                    kwargs["key"] = (lambda x, f_=f_: interp.apply(f_, [x], {}, node))
            if n in ("sorted", "list", "tuple", "max", "min") and args and isinstance(args[0], USet):
                args = [list(args[0])] + list(args[1:])
            if n in ("sorted", "max", "min") and "key" not in kwargs and args and isinstance(args[0], (list, tuple)):
                objs = [x for x in args[0] if isinstance(x, Obj)]
                if objs and len(args[0]) >= 2:
                    c = objs[0].cls
                    if c is None or not any("__lt__" in k.methods or "__gt__" in k.methods for k in interp.repo.mro(c)):
                        raise PyRaise(f"TypeError: '<' not supported between instances of '{c.short if c else 'object'}' and '{c.short if c else 'object'}'", node)
                    raise Undecided(f"{n}() over objects ordered by their own __lt__")
            try:
                return __builtins__[n](*args, **kwargs) if isinstance(__builtins__, dict) else getattr(__builtins__, n)(*args, **kwargs)
            except (Undecided, PyRaise):
                raise
            except Exception as e:
                raise Undecided(f"builtin {n}: {e}")
        if n == "dir":
            return _dir_of(interp, args[0])
        if n == "callable":
            return isinstance(args[0], (BoundMethod, Native, Builtin, ClassRef, PyMethod, Closure)) or (hasattr(args[0], "call") and type(args[0]).__module__.endswith("pystd"))
        if n == "getattr":
            if not isinstance(args[1], str):
                raise Undecided("getattr with non-constant name")
            if args[1].startswith("__") and isinstance(args[0], (ClassRef, Obj)):
                return Builtin("noop")
            try:
                return interp.getattr(args[0], args[1], node)
            except PyRaise:
                if len(args) > 2:
                    return args[2]
                raise
        if n == "hasattr":
            try:
                interp.getattr(args[0], args[1], node)
                return True
            except PyRaise:
                return False
        if n == "setattr":
            if not isinstance(args[0], Obj) or not isinstance(args[1], str):
                raise Undecided("setattr target")
            args[0].attrs[args[1]] = args[2]
            interp.trace.append(("setattr", args[0], args[1], args[2]))
            return None
        if n in ("any", "all"):
            from .pystd import lazy_iter
            for v in lazy_iter(args[0]):       # stops at the deciding element, as Python does
                if interp.truth(v) == (n == "any"):
                    return n == "any"
            return n == "all"
        if n == "next":
            it = args[0]
            if isinstance(it, _Iter):
                try:
                    return it.next()
                except StopIteration:
                    if len(args) > 1:
                        return args[1]
                    raise PyRaise("StopIteration", node)
            if hasattr(it, "__next__"):
                try:
                    return next(it)
                except StopIteration:
                    if len(args) > 1:
                        return args[1]
                    raise PyRaise("StopIteration", node)
            if isinstance(it, (list, tuple, dict, str, bytes, USet)):
                raise PyRaise(f"TypeError: '{type(it).__name__}' object is not an iterator", node)
            raise Undecided(f"next() of {it!r}")
        if n == "iter":
            if hasattr(args[0], "__next__"):
                return args[0]
            return _Iter(list(args[0]))
        if n in ("set", "frozenset"):
            if any(isinstance(a, Opaque) for a in args):
                return Opaque(n)
            return USet(list(args[0]) if args else [])
        if n == "hash" and len(args) == 1:
            v = args[0]
            if isinstance(v, Obj) and "__fields__" in v.attrs:
                v = v._tuple()
            if isinstance(v, Opaque):
                return Opaque("hash")
            try:
                return hash(v)
            except TypeError as e:
                raise PyRaise(f"TypeError: {e}", node)
        if n == "id" and len(args) == 1:
            return id(args[0])
        if n == "type" and len(args) == 1:
            v = args[0]
            if isinstance(v, (Obj, ListObj, DictObj)) and getattr(v, "cls", None) is not None:
                return ClassRef(v.cls)
            if isinstance(v, (EnumMember, StrEnumMember)):
                return ClassRef(v.cls)
            if isinstance(v, Opaque):
                return Opaque("type")
            if v is None or isinstance(v, (bool, int, float, str, bytes, bytearray, list, tuple, dict, set, frozenset, memoryview)):
                return Builtin(type(v).__name__)
            raise Undecided(f"type() of {type(v).__name__}")
        if n == "memoryview":
            v = args[0] if args else None
            if isinstance(v, (bytes, bytearray, memoryview)):
                return memoryview(v)
            if hasattr(v, "cells"):
                return v          # a view of symbolic bytes reads like the bytes themselves
            if isinstance(v, Opaque):
                return Opaque("memoryview")
            raise PyRaise(f"TypeError: memoryview: a bytes-like object is required, not '{type(v).__name__}'", node)
        if n in ("sum", "divmod", "bytearray", "repr", "ord", "chr"):
            if any(isinstance(a, Opaque) for a in args):
                return Opaque(n)
            import builtins as _b
            try:
                return getattr(_b, n)(*args, **kwargs)
            except (Undecided, PyRaise):
                raise
            except Exception as e:
                raise Undecided(f"builtin {n}: {e}")
        if n == "reversed":
            return iter(list(reversed(list(args[0]))))
        if n == "map":
            from .pystd import lazy_iter
            f_, seqs = args[0], [lazy_iter(a) for a in args[1:]]
            return (interp.apply(f_, list(vs), {}, node) for vs in zip(*seqs))
        if n == "filter":
            from .pystd import lazy_iter
            f_ = args[0]
            return (v for v in lazy_iter(args[1]) if interp.truth(v if f_ is None else interp.apply(f_, [v], {}, node)))
        if n == "print":
            return None
        if n in ("re.search", "re.match", "re.fullmatch") and len(args) >= 2 and hasattr(args[1], "cells") and isinstance(args[0], (str, bytes)):
            import re as _re
            from .symregex import sym_match
            fl = args[2] if len(args) > 2 else kwargs.get("flags", 0)
            if not isinstance(fl, int):
                raise Undecided(f"{n} flags")
            if args[1].concrete() is None:
                return sym_match(_re.compile(args[0], fl), n[3:], args[1])
            args = [args[0], args[1].concrete()] + list(args[2:])
        if n == "re.sub" and len(args) >= 3 and not isinstance(args[1], (str, bytes)) and isinstance(args[0], (str, bytes)) and isinstance(args[2], (str, bytes)):
            import re as _re
            repl_ = args[1]
            fl_ = kwargs.get("flags", args[4] if len(args) > 4 else 0)
            cnt_ = kwargs.get("count", args[3] if len(args) > 3 else 0)
            return _re.sub(args[0], lambda m_: interp.apply(repl_, [m_], {}, node), args[2], count=cnt_, flags=fl_)   # a callable replacement
        if n in ("re.compile", "re.search", "re.match", "re.fullmatch", "re.findall", "re.sub", "re.split", "re.escape"):
            if any(not isinstance(a, (str, bytes, int)) for a in args) or any(not isinstance(a, (str, bytes, int)) for a in kwargs.values()):
                raise Undecided(f"{n} on non-constant arguments")
            import re as _re
            try:
                return getattr(_re, n[3:])(*args, **kwargs)
            except _re.error as e:
                raise PyRaise(f"re.error: {e}", node)
        if n.startswith("re.") and n[3:] in ("DOTALL", "IGNORECASE", "MULTILINE", "VERBOSE", "ASCII", "S", "I", "M", "X", "A"):
            import re as _re
            return int(getattr(_re, n[3:]))
        if n == "range":
            return range(*args)
        if n == "enumerate":
            from .pystd import lazy_iter
            return enumerate(lazy_iter(args[0]), *args[1:], **kwargs)
        if n == "zip":
            from .pystd import lazy_iter
            return zip(*[lazy_iter(a) for a in args])
        if n in ("Exception", "ValueError", "RuntimeError", "OverflowError", "TypeError", "KeyError", "IndexError", "AttributeError", "NotImplementedError", "StopIteration"):
            return Opaque(n)
        if n == "len" and args and hasattr(args[0], "length"):
            return args[0].length()
        if n == "struct.unpack":
            fmt, data = args
            if hasattr(data, "unpack"):
                return data.unpack(fmt)
            if isinstance(data, (bytes, bytearray, memoryview)):
                try:
                    return _struct.unpack(fmt, data)
                except _struct.error as e:
                    raise PyRaise(f"struct.error: {e}")
            raise Undecided("struct.unpack of non-constant")
        if n == "struct.pack":
            fmt = args[0]
            vals = args[1:]
            if all(isinstance(v, int) for v in vals):
                try:
                    return _struct.pack(fmt, *vals)
                except _struct.error as e:
                    raise PyRaise(f"struct.error: {e}")
            from .symbytes import SymBytes

            return SymBytes.pack(fmt, list(vals))
        if n == "struct.calcsize":
            return _struct.calcsize(args[0])
        if n.startswith("time.") or n.startswith("threading.") or n.startswith("socket.") or n.startswith("datetime.") or n.startswith("os.") or n.startswith("sys."):
            return Opaque(n)
        from .pystd import std_call
        r = std_call(interp, n, args, kwargs, node)
        if r is not NotImplemented:
            return r
        raise Undecided(f"builtin {n} not modelled")


# ---------------------------------------------------------------------------
# BitProv: per-bit provenance words
# ---------------------------------------------------------------------------

WIDTH = 48  # explicit bits; bit WIDTH-1 stands for the infinite sign extension


class Bit:
    """Boolean function of at most 3 provenance symbols, canonical truth table.
    syms: sorted tuple of symbol names; table: int with 2**len(syms) bits, bit i =
    value under assignment i (symbol j = (i >> j) & 1).  TOP = too many symbols."""

    __slots__ = ("syms", "table", "top")

    def __init__(self, syms=(), table=0, top=False):
        self.syms = syms
        self.table = table
        self.top = top

    @staticmethod
    def const(b):
        return Bit((), 1 if b else 0)

    @staticmethod
    def sym(name):
        return Bit((name,), 0b10)

    def _expand(self, syms):
        n = len(syms)
        idx = [syms.index(s) for s in self.syms]
        t = 0
        for i in range(1 << n):
            j = 0
            for k, pos in enumerate(idx):
                if (i >> pos) & 1:
                    j |= 1 << k
            if (self.table >> j) & 1:
                t |= 1 << i
        return t

    def _simplify(self):
        syms = list(self.syms)
        table = self.table
        changed = True
        while changed:
            changed = False
            for k in range(len(syms)):
                n = len(syms)
                dep = False
                for i in range(1 << n):
                    if (i >> k) & 1:
                        continue
                    if ((table >> i) & 1) != ((table >> (i | (1 << k))) & 1):
                        dep = True
                        break
                if not dep:
                    # drop symbol k
                    nt = 0
                    for i in range(1 << (n - 1)):
                        lo = i & ((1 << k) - 1)
                        hi = (i >> k) << (k + 1)
                        if (table >> (hi | lo)) & 1:
                            nt |= 1 << i
                    table = nt
                    syms.pop(k)
                    changed = True
                    break
        return Bit(tuple(syms), table)

    def _bin(self, other, fn):
        if self.top or other.top:
            # x & 0 = 0, x | 1 = 1 even for TOP
            for a, b in ((self, other), (other, self)):
                if not a.top and not a.syms:
                    c = a.table & 1
                    r0 = fn(c, 0)
                    r1 = fn(c, 1)
                    if r0 == r1:
                        return Bit.const(r0)
            return Bit(top=True)
        syms = tuple(sorted(set(self.syms) | set(other.syms)))
        if len(syms) > 3:
            return Bit(top=True)
        a = self._expand(syms)
        b = other._expand(syms)
        t = 0
        for i in range(1 << len(syms)):
            if fn((a >> i) & 1, (b >> i) & 1):
                t |= 1 << i
        return Bit(syms, t)._simplify()

    def and_(self, o):
        return self._bin(o, lambda x, y: x & y)

    def or_(self, o):
        return self._bin(o, lambda x, y: x | y)

    def xor(self, o):
        return self._bin(o, lambda x, y: x ^ y)

    def not_(self):
        if self.top:
            return self
        n = len(self.syms)
        return Bit(self.syms, (~self.table) & ((1 << (1 << n)) - 1))

    def is_const(self, b):
        return not self.top and not self.syms and (self.table & 1) == (1 if b else 0)

    def is_sym(self, name):
        return not self.top and self.syms == (name,) and self.table == 0b10

    def __eq__(self, o):
        return isinstance(o, Bit) and self.top == o.top and self.syms == o.syms and self.table == o.table

    def __hash__(self):
        return hash((self.syms, self.table, self.top))

    def describe(self):
        if self.top:
            return "TOP"
        if not self.syms:
            return str(self.table & 1)
        if len(self.syms) == 1:
            return self.syms[0] if self.table == 0b10 else f"~{self.syms[0]}"
        # sum-of-products text
        terms = []
        n = len(self.syms)
        for i in range(1 << n):
            if (self.table >> i) & 1:
                terms.append("&".join((s if (i >> j) & 1 else "~" + s) for j, s in enumerate(self.syms)))
        return " | ".join(terms)


class BV:
    """Two's-complement word of WIDTH provenance bits (bit WIDTH-1 = sign extension)."""

    def __init__(self, bits):
        assert len(bits) == WIDTH
        self.bits = list(bits)

    @staticmethod
    def of_int(v):
        return BV([Bit.const((v >> i) & 1) for i in range(WIDTH)])

    @staticmethod
    def symbols(prefix, n):
        return BV([Bit.sym(f"{prefix}[{i}]") if i < n else Bit.const(0) for i in range(WIDTH)])

    @staticmethod
    def lift(v):
        if isinstance(v, BV):
            return v
        if isinstance(v, bool):
            return BV.of_int(1 if v else 0)
        if isinstance(v, int):
            return BV.of_int(v)
        raise Undecided(f"cannot lift {type(v).__name__} to a bit vector")

    def _zip(self, o, fn):
        o = BV.lift(o)
        return BV([fn(a, b) for a, b in zip(self.bits, o.bits)])

    def interp_getattr(self, attr):
        if attr == "to_bytes":
            def to_bytes(args, kwargs, me=self):
                n = args[0] if args else kwargs.get("length", 1)
                order = args[1] if len(args) > 1 else kwargs.get("byteorder", "big")
                signed = kwargs.get("signed", False)
                code = {1: "B", 2: "H", 4: "I"}.get(n)
                if code is None or order not in ("big", "little"):
                    raise Undecided(f"to_bytes({n!r}, {order!r}) of a symbolic word")
                from .symbytes import SymBytes
                return SymBytes.pack((">" if order == "big" else "<") + (code.lower() if signed else code), [me])
            return Native(to_bytes, "to_bytes")
        raise Undecided(f"attribute {attr} of a symbolic word")

    def __and__(self, o):
        return self._zip(o, Bit.and_)

    __rand__ = __and__

    def __or__(self, o):
        return self._zip(o, Bit.or_)

    __ror__ = __or__

    def __xor__(self, o):
        return self._zip(o, Bit.xor)

    __rxor__ = __xor__

    def __invert__(self):
        return BV([b.not_() for b in self.bits])

    def __lshift__(self, n):
        if not isinstance(n, int) or isinstance(n, bool):
            raise Undecided("shift by non-constant")
        if n < 0:
            raise PyRaise("ValueError: negative shift count")
        return BV(([Bit.const(0)] * n + self.bits)[:WIDTH])

    def __rshift__(self, n):
        if not isinstance(n, int) or isinstance(n, bool):
            raise Undecided("shift by non-constant")
        if n < 0:
            raise PyRaise("ValueError: negative shift count")
        sign = self.bits[WIDTH - 1]
        return BV((self.bits + [sign] * n)[n:n + WIDTH])

    def __rlshift__(self, o):
        raise Undecided("constant shifted by symbolic amount")

    __rrshift__ = __rlshift__

    def __add__(self, o):
        raise Undecided("addition on provenance words")

    __radd__ = __sub__ = __rsub__ = __mul__ = __rmul__ = __add__

    def __bool__(self):
        raise Undecided("truth value of a provenance word")

    def __eq__(self, o):  # `data == 1` in _get_value for Bool
        return BVEq(self, o)

    def __hash__(self):
        return id(self)

    def describe(self, n=16):
        return [b.describe() for b in self.bits[:n]]


class BVEq:
    def __init__(self, bv, other):
        self.bv = bv
        self.other = other

    def __bool__(self):
        raise Undecided("truth of symbolic equality")


# ---------------------------------------------------------------------------
# Affine values a*x + b over Fraction
# ---------------------------------------------------------------------------

class Affine:
    """a*x + b over the rationals (the algebraic content), and - when built from Affine.var() - `fn`: the SAME
    computation as a float program (every operation in source order on IEEE doubles), for exhaustive
    evaluation over a finite set of inputs"""

    def __init__(self, a, b=0, truncated=False, fn=None):
        self.a = Fraction(a)
        self.b = Fraction(b)
        self.truncated = truncated
        self.fn = fn

    @staticmethod
    def var():
        return Affine(1, 0, False, lambda x: x)

    @staticmethod
    def lift(v):
        if isinstance(v, Affine):
            return v
        if isinstance(v, bool):
            raise Undecided("bool in affine arithmetic")
        if isinstance(v, int):
            return Affine(0, v, False, lambda x, v=v: v)
        if isinstance(v, float):
            return Affine(0, Fraction(repr(v)), False, lambda x, v=v: v)
        raise Undecided(f"cannot lift {type(v).__name__} to affine")

    @staticmethod
    def _fn2(f, g, op):
        if f is None or g is None:
            return None
        return lambda x: op(f(x), g(x))

    def __add__(self, o):
        o = Affine.lift(o)
        return Affine(self.a + o.a, self.b + o.b, self.truncated or o.truncated, Affine._fn2(self.fn, o.fn, lambda p, q: p + q))

    def __radd__(self, o):
        return Affine.lift(o) + self

    def __sub__(self, o):
        o = Affine.lift(o)
        return Affine(self.a - o.a, self.b - o.b, self.truncated or o.truncated, Affine._fn2(self.fn, o.fn, lambda p, q: p - q))

    def __rsub__(self, o):
        return Affine.lift(o) - self

    def __mul__(self, o):
        o = Affine.lift(o)
        if self.a != 0 and o.a != 0:
            raise Undecided("non-linear product")
        fn = Affine._fn2(self.fn, o.fn, lambda p, q: p * q)
        if o.a == 0:
            return Affine(self.a * o.b, self.b * o.b, self.truncated or o.truncated, fn)
        return Affine(o.a * self.b, o.b * self.b, self.truncated or o.truncated, fn)

    def __rmul__(self, o):
        return Affine.lift(o) * self

    def __truediv__(self, o):
        o = Affine.lift(o)
        if o.a != 0:
            raise Undecided("division by symbolic value")
        if o.b == 0:
            raise PyRaise("ZeroDivisionError")
        return Affine(self.a / o.b, self.b / o.b, self.truncated or o.truncated, Affine._fn2(self.fn, o.fn, lambda p, q: p / q))

    def __rtruediv__(self, o):
        raise Undecided("division by symbolic value")

    def __neg__(self):
        return Affine(-self.a, -self.b, self.truncated, (lambda x, f=self.fn: -f(x)) if self.fn else None)

    def conv_float(self):
        return Affine(self.a, self.b, self.truncated, (lambda x, f=self.fn: float(f(x))) if self.fn else None)

    def conv_int(self):
        return Affine(self.a, self.b, True, (lambda x, f=self.fn: int(f(x))) if self.fn else None)

    def __bool__(self):
        raise Undecided("truth of affine value")

    def __repr__(self):
        return f"{self.a}*x+{self.b}" + ("(int)" if self.truncated else "")
