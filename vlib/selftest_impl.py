"""Checker self-test (thorough tier).

Every entry of selftest/corpus.py is a single textual edit of one source file.  It is
applied to a scratch copy of the CURRENT tree (fresh mkdtemp dir, removed afterwards),
the property's quick check is run against that copy in a subprocess, and the outcome is
compared with the expectation: `fire` = a violation that the unedited tree does not
have (optionally of a named rule); `silent` = no new violation (behaviour-preserving
twin).  Entries whose anchor text is absent from the current tree are skipped (the tree
has moved on), never failed.  A miss is an ANALYSIS-ERROR (the checker, not geckolib,
is broken) and is reported only when the unedited tree itself is clean.
"""
from __future__ import annotations

import os
import py_compile
import re
import subprocess
import sys
from concurrent.futures import ThreadPoolExecutor
from pathlib import Path

from .core import VERIF, repo_root
from .scratch import make_scratch, remove_scratch

LINE = re.compile(r"^\s*refuted (\S+) \[(.*?)\]")


def _run_one(pid, m):
    base = repo_root()
    f = base / "src" / "geckolib" / m["file"]
    if not f.exists():
        return m, "skipped", "file vanished", set()
    text = f.read_text()
    if text.count(m["old"]) != 1:
        return m, "skipped", f"anchor text occurs {text.count(m['old'])} times", set()
    d = make_scratch(m["file"], base)
    try:
        p = d / "src" / "geckolib" / m["file"]
        p.write_text(text.replace(m["old"], m["new"]))
        try:
            py_compile.compile(str(p), doraise=True, cfile=str(d / "x.pyc"))
        except py_compile.PyCompileError as e:
            return m, "skipped", f"edit does not compile: {e}", set()
        env = dict(os.environ, GECKO_REPO=str(d), VERIF_SCRATCH_DIR=str(d / "_out"), VERIF_TIER="quick")
        r = subprocess.run([str(VERIF / "check"), pid, "--tier", "quick"], env=env, capture_output=True, text=True, timeout=300)
        keys = set()
        for line in r.stdout.splitlines():
            mm = LINE.match(line)
            if mm:
                keys.add((mm.group(1), mm.group(2)))
        return m, "ran", r.returncode, keys
    finally:
        remove_scratch(d)


def _run_patch(pid, patch):
    """Apply a behaviour-preserving refactoring patch (selftest/refactors/*.diff, produced by
    independent sub-agents and confirmed to keep the 103 tests green) to a scratch copy
    and run the check: it must stay silent."""
    base = repo_root()
    d = make_scratch(None, base)
    try:
        r = subprocess.run(["git", "apply", "--whitespace=nowarn", str(patch)], cwd=str(d), capture_output=True, text=True)
        if r.returncode != 0:
            return patch.name, "skipped", "patch does not apply to the current tree", set()
        env = dict(os.environ, GECKO_REPO=str(d), VERIF_SCRATCH_DIR=str(d / "_out"), VERIF_TIER="quick")
        r = subprocess.run([str(VERIF / "check"), pid, "--tier", "quick"], env=env, capture_output=True, text=True, timeout=300)
        keys = set()
        for line in r.stdout.splitlines():
            mm = LINE.match(line)
            if mm:
                keys.add((mm.group(1), mm.group(2)))
        errs = [l for l in r.stdout.splitlines() if l.startswith("ANALYSIS-ERROR")]
        return patch.name, "ran", (r.returncode, errs[:2]), keys
    finally:
        remove_scratch(d)


def run(ctx):
    sys.path.insert(0, str(VERIF))
    try:
        from selftest.corpus import MUTATIONS
    except ImportError:
        ctx.note("self-test corpus not present")
        return
    muts = [m for m in MUTATIONS if m["pid"] == ctx.pid]
    if not muts:
        ctx.note("no self-test entries for this property")
        return
    from .core import load_known_findings
    open_, _ = load_known_findings()
    base_new = {(f.rule, f.key) for f in ctx.findings if (ctx.pid, f.rule, f.key) not in open_}
    base_all = {(f.rule, f.key) for f in ctx.findings}
    results = []
    with ThreadPoolExecutor(max_workers=min(16, os.cpu_count() or 4)) as ex:
        for m, status, rc, keys in ex.map(lambda mm: _run_one(ctx.pid, mm), muts):
            results.append((m, status, rc, keys))
    fired = silent = skipped = 0
    misses = []
    report = []
    for m, status, rc, keys in results:
        if status == "skipped":
            skipped += 1
            report.append({"id": m["id"], "expect": m["expect"], "outcome": "skipped", "why": rc})
            continue
        new = keys - base_all
        if m["expect"] == "fire":
            ok = rc == 1 and bool(new)
            if ok and m.get("rule"):
                ok = any(k[0].endswith("." + m["rule"]) for k in new)
            if ok:
                fired += 1
            else:
                misses.append(f"{m['id']}: expected a violation{(' of ' + m['rule']) if m.get('rule') else ''}, got rc={rc} new={sorted(new)[:3]}")
        else:
            ok = not new and rc in (0, 1 if base_new else 0)
            if ok:
                silent += 1
            else:
                misses.append(f"{m['id']}: behaviour-preserving twin raised {sorted(new)[:3]} rc={rc}")
        report.append({"id": m["id"], "expect": m["expect"], "outcome": "ok" if ok else "MISS", "rc": rc, "new": sorted(map(list, new))[:4]})
    # behaviour-preserving refactoring twins
    patches = sorted((VERIF / "selftest" / "refactors").glob("*.diff"))
    twin_ok = twin_skipped = 0
    with ThreadPoolExecutor(max_workers=min(8, os.cpu_count() or 4)) as ex:
        for name, status, rc, keys in ex.map(lambda pp: _run_patch(ctx.pid, pp), patches):
            if status == "skipped":
                twin_skipped += 1
                report.append({"id": name, "expect": "silent", "outcome": "skipped", "why": rc})
                continue
            new = keys - base_all
            code, errs = rc
            ok = not new and code == (1 if base_new else 0)
            if ok:
                twin_ok += 1
            else:
                misses.append(f"refactoring twin {name}: expected silence, got rc={code} new={sorted(new)[:3]} {errs}")
            report.append({"id": name, "expect": "silent", "outcome": "ok" if ok else "MISS", "rc": code, "new": sorted(map(list, new))[:4]})
    ctx.count("selftest:refactoring_twins_silent", twin_ok)
    ctx.count("selftest:refactoring_twins_skipped", twin_skipped)
    ctx.extra["selftest"] = {"entries": len(muts), "fired_as_expected": fired, "silent_as_expected": silent, "skipped": skipped, "misses": misses, "results": report}
    ctx.count("selftest:entries", len(muts))
    ctx.count("selftest:fired_as_expected", fired)
    ctx.count("selftest:silent_as_expected", silent)
    ctx.count("selftest:skipped", skipped)
    if misses and not base_new:
        for x in misses:
            ctx.error("self-test miss: " + x)
    elif misses:
        ctx.note("self-test misses ignored because the analysed tree itself has new violations: " + "; ".join(misses))
