"""Which table module does a lookup name?  (C18.R8 for the two clients, C19.R5 for the simulator)

Every `importlib.import_module(X).GeckoPack / .GeckoConfigStruct / .GeckoLogStruct` site is reduced to
a symbolic string template (vlib/strtemplate.py) and compared with the naming scheme of the shipped
table modules:
    geckolib.driver.packs.<platform lower-cased>                    -> GeckoPack
    geckolib.driver.packs.<platform lower-cased>-cfg-<config version> -> GeckoConfigStruct
    geckolib.driver.packs.<platform lower-cased>-log-<log version>    -> GeckoLogStruct
where platform, config version and log version are read from ONE source object (the FILES reply
handler, or the snapshot).
"""
from __future__ import annotations

import ast

from .cfg import cfg_of
from .src import call_name
from .strtemplate import show, template

KINDS = {"GeckoPack": "pack", "GeckoConfigStruct": "cfg", "GeckoLogStruct": "log"}
PREFIX = "geckolib.driver.packs."
VERSION_ATTR = {"cfg": "config_version", "log": "log_version"}


def lookup_sites(fi):
    g = cfg_of(fi)
    out = []
    for n in g.stmt_nodes():
        for a in n.walk():
            if isinstance(a, ast.Attribute) and a.attr in KINDS and isinstance(a.value, ast.Call) and call_name(a.value) == "import_module" and a.value.args:
                out.append((KINDS[a.attr], n, a.value.args[0]))
            # getattr(importlib.import_module(X), "GeckoPack")
            if isinstance(a, ast.Call) and isinstance(a.func, ast.Name) and a.func.id == "getattr" and len(a.args) >= 2 \
                    and isinstance(a.args[0], ast.Call) and call_name(a.args[0]) == "import_module" and a.args[0].args \
                    and isinstance(a.args[1], ast.Constant) and a.args[1].value in KINDS:
                out.append((KINDS[a.args[1].value], n, a.args[0].args[0]))
    return g, out


def lookup_obligations(ctx, repo, qual, rule):
    fi = repo.func(qual, required=False)
    if fi is None:
        ctx.error(f"module-lookup anchor {qual} vanished")
        return 0
    g, sites = lookup_sites(fi)
    kinds = sorted(k for k, _, _ in sites)
    if kinds != ["cfg", "log", "pack"]:
        # imports done another way (helper, variable holding the module): not readable by this rule
        raw = [n for n in g.stmt_nodes() for c in n.calls() if call_name(c) == "import_module"]
        ctx.error(f"{qual}: expected one import_module(..).GeckoPack/.GeckoConfigStruct/.GeckoLogStruct site each, found {kinds} ({len(raw)} import_module calls) - idiom not supported by {rule}")
        return 0
    tpl = {}
    for kind, n, arg in sites:
        tpl[kind] = (template(repo, fi, arg, at=n), n)
    where = {k: f"{fi.mod.rel}:{n.lineno}" for k, (_, n) in tpl.items()}
    # platform symbol: from the pack lookup
    pk = tpl["pack"][0]
    shape_ok = len(pk) == 2 and pk[0][0] == "lit" and pk[1][0] == "sym"
    if not shape_ok:
        ctx.error(f"{qual}: pack module name `{show(pk)}` is not <literal><one symbol> - idiom not supported by {rule}")
        return 0
    plat = pk[1][1]
    ctx.ob(rule, f"{qual}::pack::name", pk[0][1] == PREFIX and plat.endswith(".lower()"),
           f"{qual}: the pack module looked up is `{show(pk)}`, not `{PREFIX}{{<platform>.lower()}}` (table modules are named by the lower-cased platform)", where["pack"],
           sample={"rule": rule, "site": qual, "kind": "pack", "template": show(pk)})
    base = plat[: -len(".lower()")] if plat.endswith(".lower()") else plat
    source = base.rsplit(".", 1)[0] if "." in base else base
    for kind in ("cfg", "log"):
        t = tpl[kind][0]
        if not (len(t) == 4 and [k for k, _ in t] == ["lit", "sym", "lit", "sym"]):
            ctx.error(f"{qual}: {kind} module name `{show(t)}` is not <literal><symbol><literal><symbol> - idiom not supported by {rule}")
            continue
        want_ver = f"{source}.{VERSION_ATTR[kind]}"
        if t[3][1] != want_ver and t[3][1].rsplit(".", 1)[-1] == VERSION_ATTR[kind]:
            ctx.error(f"{qual}: {kind} version is read from `{t[3][1]}` while the platform comes from `{base}` - cannot decide that both describe the same reply; idiom not supported by {rule}")
            continue
        ok = t[0][1] == PREFIX and t[1][1] == plat and t[2][1] == f"-{kind}-" and t[3][1] == want_ver
        why = []
        if t[0][1] != PREFIX:
            why.append(f"package prefix is {t[0][1]!r}")
        if t[1][1] != plat:
            why.append(f"platform part is {{{t[1][1]}}} but the pack lookup used {{{plat}}}")
        if t[2][1] != f"-{kind}-":
            why.append(f"infix is {t[2][1]!r}, the {kind} tables are named '-{kind}-'")
        if t[3][1] != want_ver:
            why.append(f"version part is {{{t[3][1]}}}, the {kind} table of a spa is selected by {{{want_ver}}}")
        ctx.ob(rule, f"{qual}::{kind}::name", ok,
               f"{qual}: the {KINDS_INV[kind]} module looked up is `{show(t)}`: " + "; ".join(why) + " - a spa (or snapshot) whose config and log versions differ gets another version's layout or is refused",
               where[kind], sample={"rule": rule, "site": qual, "kind": kind, "template": show(t)})
    return 3


KINDS_INV = {v: k for k, v in KINDS.items()}
