"""Which table module does a lookup name?  (C18.R8 for the two clients, C19.R5 for the simulator)

Every `importlib.import_module(X).GeckoPack / .GeckoConfigStruct / .GeckoLogStruct` site is reduced to
a symbolic string template (vlib/strtemplate.py) and compared with the naming scheme of the shipped
table modules:
    geckolib.driver.packs.<platform lower-cased>                    -> GeckoPack
    geckolib.driver.packs.<platform lower-cased>-cfg-<config version> -> GeckoConfigStruct
    geckolib.driver.packs.<platform lower-cased>-log-<log version>    -> GeckoLogStruct
where platform, config version and log version are read from ONE source object (the FILES reply
handler, or the snapshot).
"""
from __future__ import annotations

import ast

from .cfg import cfg_of
from .src import call_name
from .strtemplate import show, template

KINDS = {"GeckoPack": "pack", "GeckoConfigStruct": "cfg", "GeckoLogStruct": "log"}
PREFIX = "geckolib.driver.packs."
VERSION_ATTR = {"cfg": "config_version", "log": "log_version"}


def lookup_sites(fi):
    g = cfg_of(fi)
    out = []
    for n in g.stmt_nodes():
        for a in n.walk():
            if isinstance(a, ast.Attribute) and a.attr in KINDS and isinstance(a.value, ast.Call) and call_name(a.value) == "import_module" and a.value.args:
                out.append((KINDS[a.attr], n, a.value.args[0]))
            # getattr(importlib.import_module(X), "GeckoPack")
            if isinstance(a, ast.Call) and isinstance(a.func, ast.Name) and a.func.id == "getattr" and len(a.args) >= 2 \
                    and isinstance(a.args[0], ast.Call) and call_name(a.args[0]) == "import_module" and a.args[0].args \
                    and isinstance(a.args[1], ast.Constant) and a.args[1].value in KINDS:
                out.append((KINDS[a.args[1].value], n, a.args[0].args[0]))
    return g, out


def lookup_obligations(ctx, repo, qual, rule):
    fi = repo.func(qual, required=False)
    if fi is None:
        ctx.error(f"module-lookup anchor {qual} vanished")
        return 0
    g, sites = lookup_sites(fi)
    kinds = sorted(k for k, _, _ in sites)
    # decided by interpretation on a model source (a FILES reply / snapshot whose config and log versions differ):
    # which modules are asked for and which classes are taken from them - however the names are put together
    # (string templates read off the statements said the same only while lookup and name sat in one function)
    if True:
        # imports done another way (helper, variable holding the module): not readable as string templates - decided by
        # interpretation on a model source instead (synchronous owners only; the awaitable connect is run on the
        # connection model by its caller)
        if not fi.is_async:
            return lookup_model(ctx, repo, qual, rule)
        if qual == "GeckoAsyncSpa._connect":
            return lookup_model_async(ctx, repo, qual, rule)
        raw = [n for n in g.stmt_nodes() for c in n.calls() if call_name(c) == "import_module"]
        ctx.error(f"{qual}: expected one import_module(..).GeckoPack/.GeckoConfigStruct/.GeckoLogStruct site each, found {kinds} ({len(raw)} import_module calls) - idiom not supported by {rule}")
        return 0
    tpl = {}
    for kind, n, arg in sites:
        tpl[kind] = (template(repo, fi, arg, at=n), n)
    where = {k: f"{fi.mod.rel}:{n.lineno}" for k, (_, n) in tpl.items()}
    # platform symbol: from the pack lookup
    pk = tpl["pack"][0]
    shape_ok = len(pk) == 2 and pk[0][0] == "lit" and pk[1][0] == "sym"
    if not shape_ok:
        ctx.error(f"{qual}: pack module name `{show(pk)}` is not <literal><one symbol> - idiom not supported by {rule}")
        return 0
    plat = pk[1][1]
    ctx.ob(rule, f"{qual}::pack::name", pk[0][1] == PREFIX and plat.endswith(".lower()"),
           f"{qual}: the pack module looked up is `{show(pk)}`, not `{PREFIX}{{<platform>.lower()}}` (table modules are named by the lower-cased platform)", where["pack"],
           sample={"rule": rule, "site": qual, "kind": "pack", "template": show(pk)})
    base = plat[: -len(".lower()")] if plat.endswith(".lower()") else plat
    source = base.rsplit(".", 1)[0] if "." in base else base
    for kind in ("cfg", "log"):
        t = tpl[kind][0]
        if not (len(t) == 4 and [k for k, _ in t] == ["lit", "sym", "lit", "sym"]):
            ctx.error(f"{qual}: {kind} module name `{show(t)}` is not <literal><symbol><literal><symbol> - idiom not supported by {rule}")
            continue
        want_ver = f"{source}.{VERSION_ATTR[kind]}"
        if t[3][1] != want_ver and t[3][1].rsplit(".", 1)[-1] == VERSION_ATTR[kind]:
            ctx.error(f"{qual}: {kind} version is read from `{t[3][1]}` while the platform comes from `{base}` - cannot decide that both describe the same reply; idiom not supported by {rule}")
            continue
        ok = t[0][1] == PREFIX and t[1][1] == plat and t[2][1] == f"-{kind}-" and t[3][1] == want_ver
        why = []
        if t[0][1] != PREFIX:
            why.append(f"package prefix is {t[0][1]!r}")
        if t[1][1] != plat:
            why.append(f"platform part is {{{t[1][1]}}} but the pack lookup used {{{plat}}}")
        if t[2][1] != f"-{kind}-":
            why.append(f"infix is {t[2][1]!r}, the {kind} tables are named '-{kind}-'")
        if t[3][1] != want_ver:
            why.append(f"version part is {{{t[3][1]}}}, the {kind} table of a spa is selected by {{{want_ver}}}")
        ctx.ob(rule, f"{qual}::{kind}::name", ok,
               f"{qual}: the {KINDS_INV[kind]} module looked up is `{show(t)}`: " + "; ".join(why) + " - a spa (or snapshot) whose config and log versions differ gets another version's layout or is refused",
               where[kind], sample={"rule": rule, "site": qual, "kind": kind, "template": show(t)})
    return 3


KINDS_INV = {v: k for k, v in KINDS.items()}


def lookup_model(ctx, repo, qual, rule, _observe=None):
    """The same question by interpretation, for code whose lookups are not three visible import_module(..).Class sites
    (helpers, partials, a shared loader): the function is run on a model object with a source (FILES reply / snapshot)
    naming platform 'inYT' / 'Mas-IBC-32K' with DIFFERENT config and log versions; importlib.import_module is a stand-in
    that records the module name asked for and hands out a module whose GeckoPack / GeckoConfigStruct / GeckoLogStruct
    record which module they were taken from.  Expected: exactly the three modules
    geckolib.driver.packs.<platform lower-cased>[, -cfg-<config version>, -log-<log version>], each class from its own.
    -> number of lookups decided (3) or 0"""
    from .absint import ClassRef, Interp, Native, Obj, Opaque, PyRaise, Undecided
    from .core import AnalysisError
    fi = repo.func(qual)
    n_ok = 0
    for plat, cv, lv, missing in (("inYT", 61, 59, None), ("Mas-IBC-32K", 1, 2, None), ("inYT", 59, 83, "cfg"), ("inYT", 60, 84, "log")):
        it = Interp(repo, max_depth=12)
        asked, taken = [], []

        def module(name):
            def cls(kind):
                def make(a, k, kind=kind, name=name):
                    taken.append((kind, name))
                    return Obj(None, {"type": 7, "accessors": {}, "output_keys": [], "all_device_keys": [], "user_demand_keys": [], "error_keys": [], "begin": 0, "end": 1024, "xml": None}, name=f"{kind}<{name}>")
                return Native(make, kind)
            return Obj(None, {k: cls(k) for k in KINDS}, name=f"module<{name}>")

        def hook(it_, node, callee, args, kwargs, missing=missing, cv=cv, lv=lv):
            nm = getattr(callee, "name", "")
            if nm.endswith("import_module"):
                asked.append(args[0] if args else None)
                nm_ = str(args[0]) if args else ""
                if missing is not None and nm_.endswith(f"-{missing}-{cv if missing == 'cfg' else lv}"):
                    raise PyRaise(f"ModuleNotFoundError: No module named '{nm_}'", node)
                return module(args[0] if args else None)
            if nm in ("asyncio.sleep",):
                return None
            return NotImplemented
        it.call_hook = hook
        src = Obj(None, {"plateform_key": plat, "config_version": cv, "log_version": lv, "packtype": plat, "bytes": bytes(1024), "name": "snap"}, name="source")
        struct = Obj(None, {"replace_status_block_segment": Native(lambda a, k: None), "build_accessors": Native(lambda a, k: None), "accessors": {}, "retry_request": Native(lambda a, k: None),
                            "reset": Native(lambda a, k: None), "set_status_block": Native(lambda a, k: None)}, name="structure")
        me = Obj(repo.instance_cls(fi.cls), {"struct": struct, "structure": struct, "get_and_increment_sequence_counter": Native(lambda a, k: 1), "sendparms": ("10.1.2.3", 10022, b"S", b"C")}, name="owner")
        n_extra = len(fi.node.args.args) - 2
        try:
            it.call(fi, me, [src] + [Opaque(f"arg{i}") for i in range(max(n_extra, 0))])
        except PyRaise:
            pass          # what follows the lookups (requests, accessor building) is not this rule's subject
        except Undecided as e:
            if len(asked) < 3:
                raise AnalysisError(f"{qual} on the model source ({plat}, cfg {cv}, log {lv}): {e}")
        if missing is not None:
            p = plat.lower()
            exact = f"{PREFIX}{p}-{missing}-{cv if missing == 'cfg' else lv}"
            others = [a for a in asked if isinstance(a, str) and f"-{missing}-" in a and a != exact]
            stood_in = [t for t in taken if f"-{missing}-" in str(t[1])]
            ctx.ob(rule, f"{qual}::unpublished-{missing}-version::refused", exact in asked and not others and not stood_in,
                   f"{qual} when the source names {plat} {missing} version {cv if missing == 'cfg' else lv}, for which no table module exists: modules asked for {asked}, classes taken {taken} - "
                   f"expected the exact module to be asked for and no other version's table to stand in", fi.loc)
            continue
        if _observe is not None:
            _observe(plat, cv, lv, me)
        p = plat.lower()
        want = [f"{PREFIX}{p}", f"{PREFIX}{p}-cfg-{cv}", f"{PREFIX}{p}-log-{lv}"]
        ctx.ob(rule, f"{qual}::modules-asked-for::{plat}", asked == want,
               f"{qual} for platform {plat!r}, config version {cv}, log version {lv} imports {asked}, expected {want} (lower-cased platform; the config table by the config version, the log table by the log version)",
               fi.loc, sample={"rule": rule, "site": qual, "platform": plat, "imports": [str(a) for a in asked]})
        want_taken = [("GeckoPack", want[0]), ("GeckoConfigStruct", want[1]), ("GeckoLogStruct", want[2])]
        ctx.ob(rule, f"{qual}::classes-taken-from::{plat}", sorted(taken) == sorted(want_taken),
               f"{qual}: classes instantiated (class, module) = {taken}, expected {want_taken}", fi.loc)
        n_ok += asked == want
    return 3 if n_ok == 2 else (3 if n_ok else 0)


def _model_module(taken):
    from .absint import Native, Obj

    def module(name):
        def cls(kind):
            def make(a, k, kind=kind, name=name):
                taken.append((kind, name))
                return Obj(None, {"type": 7, "accessors": {}, "output_keys": [], "all_device_keys": [], "user_demand_keys": [], "error_keys": [], "begin": 0, "end": 1024, "xml": None}, name=f"{kind}<{name}>")
            return Native(make, kind)
        return Obj(None, {k: cls(k) for k in KINDS}, name=f"module<{name}>")
    return module


def lookup_model_async(ctx, repo, qual, rule, _observe=None):
    """lookup_model for the awaitable connect: GeckoAsyncSpa._connect runs on the connection model (facts.ConnectionModel),
    whose protocol answers the version, channel and FILES requests with model replies - the FILES reply names platform
    'inYT' / 'Mas-IBC-32K' with DIFFERENT config and log versions; importlib.import_module records what is asked for."""
    from .absint import Obj, PyRaise, Undecided
    from .core import AnalysisError
    from .facts import ConnectionModel
    fi = repo.func(qual)
    n_ok = 0
    for plat, cv, lv, missing in (("inYT", 61, 59, None), ("Mas-IBC-32K", 1, 2, None), ("inYT", 59, 83, "cfg"), ("inYT", 60, 84, "log")):
        asked, taken = [], []
        module = _model_module(taken)

        def answer(req, plat=plat, cv=cv, lv=lv):
            nm = req.cls.short if isinstance(req, Obj) and req.cls is not None else ""
            if "Version" in nm:
                return Obj(None, {"en_build": 70, "en_major": 14, "en_minor": 1, "co_build": 69, "co_major": 11, "co_minor": 2}, name="version-reply")
            if "Channel" in nm:
                return Obj(None, {"channel": 10, "signal_strength": 33}, name="channel-reply")
            if "ConfigFile" in nm:
                return Obj(None, {"plateform_key": plat, "config_version": cv, "log_version": lv}, name="files-reply")
            return None
        cm = ConnectionModel(repo, connect=False, answer=answer)
        inner = cm.it.call_hook

        def hook(it_, node, callee, args, kwargs, inner=inner, missing=missing, cv=cv, lv=lv):
            if getattr(callee, "name", "").endswith("import_module"):
                asked.append(args[0] if args else None)
                nm_ = str(args[0]) if args else ""
                if missing is not None and nm_.endswith(f"-{missing}-{cv if missing == 'cfg' else lv}"):
                    raise PyRaise(f"ModuleNotFoundError: No module named '{nm_}'", node)      # no table was published for that version
                return module(args[0] if args else None)
            return inner(it_, node, callee, args, kwargs)
        cm.it.call_hook = hook
        try:
            cm.it.steps = 0
            cm.it.call(fi, cm.spa, [])
        except PyRaise:
            pass          # what follows the lookups (accessor building, the block transfer) is not this rule's subject
        except Undecided as e:
            if len(asked) < 3:
                raise AnalysisError(f"{qual} on the connection model (FILES reply {plat}, cfg {cv}, log {lv}): {e}")
        if missing is not None:
            # the spa names a version no table was published for: the connection is refused - no other version's table
            # may stand in (its positions, bit fields and labels are another layout's; commands would be stamped with
            # the reported version and built from the wrong table)
            p = plat.lower()
            exact = f"{PREFIX}{p}-{missing}-{cv if missing == 'cfg' else lv}"
            others = [a for a in asked if isinstance(a, str) and f"-{missing}-" in a and a != exact]
            stood_in = [t for t in taken if f"-{missing}-" in str(t[1])]
            ctx.ob(rule, f"{qual}::unpublished-{missing}-version::refused", exact in asked and not others and not stood_in and not cm.spa.attrs.get("_is_connected"),
                   f"{qual} when the FILES reply names {plat} {missing} version {cv if missing == 'cfg' else lv}, for which no table module exists: modules asked for {asked}, classes taken {taken}, "
                   f"connected={cm.spa.attrs.get('_is_connected')!r} - expected the exact module to be asked for, nothing else of that kind, and the connection refused (events {cm.events[-3:]})", fi.loc,
                   sample={"rule": rule, "site": qual, "missing": missing, "asked": [str(a) for a in asked]})
            continue
        if _observe is not None:
            _observe(plat, cv, lv, cm.spa)
        p = plat.lower()
        want = [f"{PREFIX}{p}", f"{PREFIX}{p}-cfg-{cv}", f"{PREFIX}{p}-log-{lv}"]
        ctx.ob(rule, f"{qual}::modules-asked-for::{plat}", asked == want,
               f"{qual} for platform {plat!r}, config version {cv}, log version {lv} imports {asked}, expected {want} (lower-cased platform; the config table by the config version, the log table by the log version)",
               fi.loc, sample={"rule": rule, "site": qual, "platform": plat, "imports": [str(a) for a in asked]})
        want_taken = [("GeckoPack", want[0]), ("GeckoConfigStruct", want[1]), ("GeckoLogStruct", want[2])]
        ctx.ob(rule, f"{qual}::classes-taken-from::{plat}", sorted(taken) == sorted(want_taken),
               f"{qual}: classes instantiated (class, module) = {taken}, expected {want_taken}", fi.loc)
        n_ok += asked == want
    return 3 if n_ok else 0


def pack_identity(ctx, repo, rule):
    """what a command is stamped with is what the connection reported: after the connect step that reads the FILES reply
    (both stacks, on the lookup models: platform 'inYT' / 'Mas-IBC-32K', config and log versions that differ, a pack
    class of type 7) the owner's pack_type / config_version / log_version hold the pack class's type and the reply's two
    versions - wherever in the step, or in a helper of it, they are assigned."""
    class _Quiet:
        def __getattr__(self, nm):
            return lambda *a, **k: None
    n = 0
    for qual, model in (("GeckoAsyncSpa._connect", lookup_model_async), ("GeckoSpa._on_config_received", lookup_model)):
        fi = repo.func(qual)
        seen = []
        model(_Quiet(), repo, qual, rule, _observe=lambda plat, cv, lv, me: seen.append((plat, cv, lv, {k: me.attrs.get(k) for k in ("pack_type", "config_version", "log_version")})))
        bad = [(plat, got) for plat, cv, lv, got in seen if got != {"pack_type": 7, "config_version": cv, "log_version": lv}]
        n += len(seen)
        ctx.ob(rule, f"{qual}::pack-identity-from-connection", bool(seen) and not bad,
               f"{qual}: after a FILES reply (platform, config version, log version) = {[(p_, c_, l_) for p_, c_, l_, _ in seen]} and a pack class of type 7 the connection holds {[g for _, g in bad]}: "
               f"pack_type / config_version / log_version are not the connected pack's - every set-value and key-press command is stamped with them", fi.loc,
               sample={"rule": rule, "site": qual, "cases": len(seen)})
    ctx.count(f"{rule}:pack identity cases", n)
