"""Facts extracted from the code that several properties share (anchors by role)."""
from __future__ import annotations

import ast

from .core import AnalysisError
from .src import Repo, Unfoldable, walk_no_nested

STRUCT_CLASSES = ("GeckoAsyncStructure", "GeckoStructure")


def block_attr(repo: Repo, cname: str) -> str:
    """Name of the attribute returned by property `status_block` of a structure class."""
    fi = repo.method(cname, "status_block")
    for n in ast.walk(fi.node):
        if isinstance(n, ast.Return) and isinstance(n.value, ast.Attribute):
            if isinstance(n.value.value, ast.Name) and n.value.value.id == "self":
                return n.value.attr
    raise AnalysisError(f"{cname}.status_block does not return a self attribute")


def block_size(repo: Repo) -> int:
    """Length of the initial status block, folded from both structure classes."""
    sizes = set()
    for cname in STRUCT_CLASSES:
        c = repo.cls(cname)
        attr = block_attr(repo, cname)
        for fi in c.methods.values():
            for n in ast.walk(fi.node):
                if isinstance(n, ast.Assign):
                    for t in n.targets:
                        if (
                            isinstance(t, ast.Attribute)
                            and t.attr == attr
                            and isinstance(t.value, ast.Name)
                            and t.value.id == "self"
                        ):
                            try:
                                v = repo.fold(n.value, fi.mod, c)
                            except Unfoldable:
                                continue
                            if isinstance(v, bytes):
                                sizes.add(len(v))
    if len(sizes) != 1:
        raise AnalysisError(f"status block size not a single constant: {sizes}")
    return sizes.pop()


def self_attr_writes(fi, attr):
    """AST assignment statements in fi writing self.<attr> (any form)."""
    out = []
    for n in walk_no_nested(fi.node):
        targets = []
        if isinstance(n, ast.Assign):
            targets = n.targets
        elif isinstance(n, (ast.AugAssign, ast.AnnAssign)):
            targets = [n.target]
        for t in targets:
            for tt in ast.walk(t):
                if (
                    isinstance(tt, ast.Attribute)
                    and tt.attr == attr
                    and isinstance(tt.value, ast.Name)
                    and tt.value.id == "self"
                    and isinstance(tt.ctx, ast.Store)
                ):
                    out.append(n)
    return out


def loc(fi, node):
    return f"{fi.mod.rel}:{getattr(node, 'lineno', fi.node.lineno)}"


def class_const(repo, cname, name):
    """value of a class-level constant, also when the class body builds it with statements
    (loops, D.update(..), conditional assignments): the class body is interpreted in order;
    plain literal assignments fall back to constant folding"""
    from .absint import Interp, PyRaise, Undecided
    from .core import AnalysisError
    from .src import Unfoldable
    c = repo.cls(cname)
    simple = all(isinstance(st, (ast.FunctionDef, ast.AsyncFunctionDef, ast.ClassDef, ast.Assign, ast.AnnAssign, ast.Pass))
                 or (isinstance(st, ast.Expr) and isinstance(st.value, ast.Constant)) for st in c.node.body)
    n_assign = sum(1 for st in c.node.body if isinstance(st, (ast.Assign, ast.AnnAssign))
                   for t in (st.targets if isinstance(st, ast.Assign) else [st.target]) if isinstance(t, ast.Name) and t.id == name)
    if simple and n_assign == 1:
        try:
            return repo.fold(c.consts[name], c.mod, c)
        except Unfoldable:
            pass
    try:
        env = Interp(repo).class_env(c)
    except (PyRaise, Undecided) as e:
        raise AnalysisError(f"class body of {cname} cannot be evaluated: {e}")
    if name not in env:
        raise AnalysisError(f"{cname}.{name} is not defined by the class body")
    return env[name]


def started_tasks(repo, fi):
    """[(coroutine expression, task name, task key, cfg node)] for every `add_task(coro, name, key)` call in `fi`,
    with single-definition locals of the function replaced by their defining expressions - so the residue of an
    inlined helper (`h = Handler(); c = h.consume(p); add_task(c, name, KEY)`) reads like the direct call.
    name / key are folded constants or None."""
    from .cfg import cfg_of
    from .src import call_name
    g = cfg_of(fi)
    out = []
    for n in g.stmt_nodes():
        for c in n.calls():
            if call_name(c) != "add_task" or not c.args:
                continue
            try:
                args = [g.expand(a, at=n) for a in c.args]
            except RecursionError:
                args = list(c.args)
            kw = {k.arg: k.value for k in c.keywords if k.arg}
            name = args[1] if len(args) > 1 else kw.get("name_")
            key = args[2] if len(args) > 2 else kw.get("key_")
            out.append((args[0], repo.try_fold(name, fi.mod, fi.cls) if name is not None else None,
                        repo.try_fold(key, fi.mod, fi.cls) if key is not None else None, n))
    return out


class ConnectionModel:
    """A GeckoAsyncSpa built by its constructor with stand-in collaborators; `_connect` runs on a model event loop up to
    its first request (which the model protocol leaves unanswered).  What the code did is on the object: .tasks (every
    add_task call), .cancelled (cancel_key_tasks keys), .events (what the event handler was told), .transport (its
    .attrs['closed'] counts close() calls), .protocol (the object the protocol factory built), .spa"""

    def __init__(self, repo, connect=True, answer=None, on_suspend=None):
        """answer(request object) -> reply object | None: what the model protocol's get() gives back for the request its
        factory builds (default: nobody answers)"""
        from .absint import BoundMethod, ClassRef, Closure, Interp, Native, Obj, PyRaise, Undecided
        from .core import AnalysisError
        S = "GeckoAsyncSpa"
        self.repo = repo
        it = self.it = Interp(repo, max_depth=14)
        tasks = self.tasks = []
        self.cancelled = []
        self.events = []
        tm = Obj(None, {"add_task": Native(lambda a, k: tasks.append((a[0], a[1] if len(a) > 1 else k.get("name_"), a[2] if len(a) > 2 else k.get("key_"))), "add_task"),
                        "cancel_key_tasks": Native(lambda a, k: self.cancelled.append(a[0] if a else None), "cancel_key_tasks"), "unique_id": "SPA-ID", "spa_name": "My spa"}, name="taskman")
        descriptor = Obj(None, {"destination": ("10.0.0.5", 10022), "identifier": b"SPA-ID", "identifier_as_string": "SPA-ID", "name": "My spa",
                                "ipaddress": "10.0.0.5", "port": 10022}, name="descriptor")
        transport = self.transport = Obj(None, {"closed": 0, "sendto": Native(lambda a, k: None), "is_closing": Native(lambda a, k: False)}, name="transport")
        transport.attrs["close"] = Native(lambda a, k: transport.attrs.__setitem__("closed", transport.attrs["closed"] + 1), "close")
        self.protocol = None

        def endpoint(a, k):
            proto = a[0]([], {}) if isinstance(a[0], Closure) else it.apply(a[0], [], {})
            if isinstance(proto, Obj) and proto.cls is not None:
                cm = repo.method(proto.cls.short, "connection_made", required=False)
                if cm is not None:
                    it.call(cm, proto, [transport])
                def _get(a2, k2):
                    if on_suspend is not None:
                        on_suspend("protocol.get")
                    if answer is None:
                        return None       # nobody answers: _connect gives up at its first request
                    req = it.apply(a2[0], [], {}) if a2 else None
                    return answer(req)
                proto.attrs["get"] = Native(_get, "get")
            self.protocol = proto
            self.endpoints = getattr(self, "endpoints", 0) + 1
            if on_suspend is not None:
                on_suspend("create_datagram_endpoint")     # the endpoint exists, the awaiting coroutine has not got it yet
            return (transport, proto)
        loop = Obj(None, {"create_future": Native(lambda a, k: Obj(None, {"done": Native(lambda a2, k2: False), "set_result": Native(lambda a2, k2: None)}, name="future")),
                          "create_datagram_endpoint": Native(endpoint, "create_datagram_endpoint")}, name="loop")
        spa_box = []

        def hook(it_, node, callee, args, kwargs):
            nm = getattr(callee, "name", "")
            if nm in ("asyncio.get_running_loop", "asyncio.get_event_loop"):
                return loop
            if nm == "asyncio.sleep":
                if on_suspend is not None and not getattr(self, "probing", False):
                    on_suspend("asyncio.sleep")
                return None
            if nm in ("time.monotonic",):
                return 100.0
            if nm == "asyncio.current_task":
                return Obj(None, {"get_name": Native(lambda a, k: "model-task", "get_name"), "cancel": Native(lambda a, k: None, "cancel")}, name="current-task")
            if getattr(self, "probing", False):
                return NotImplemented        # a started coroutine is being stepped: its calls are interpreted, not recorded
            if isinstance(callee, BoundMethod) and callee.fi.name == "consume":
                return Obj(None, {"kind": "consume", "handler": callee.obj, "args": list(args)}, name="coroutine<consume>")
            if isinstance(callee, BoundMethod) and spa_box and callee.obj is spa_box[0] and callee.fi.is_async and getattr(it_, "_awaited", None) is node:
                return NotImplemented        # `await self._step()`: a step of the running coroutine, interpreted in place
            if isinstance(callee, BoundMethod) and spa_box and callee.obj is spa_box[0] and callee.fi.is_async and callee.fi.name not in ("_connect", "disconnect", "connect"):
                return Obj(None, {"kind": "coroutine", "method": callee.fi.name, "args": list(args)}, name=f"coroutine<{callee.fi.name}>")
            return NotImplemented
        it.call_hook = hook
        try:
            spa = self.spa = it.apply(ClassRef(repo.cls(S)), [b"CLIENT-ID", descriptor, tm, Native(lambda a, k: self.events.append(getattr(a[0], "name", str(a[0])) if a else None), "event_handler")], {})
            spa_box.append(spa)
            if connect:
                it.steps = 0
                it.call(repo.method(S, "_connect"), spa, [])
        except PyRaise as e:
            raise AnalysisError(f"{S}._connect on the model event loop raises {e.what}")
        except Undecided as e:
            raise AnalysisError(f"{S}._connect on the model event loop: {e}")


def connection_tasks(repo):
    """The tasks GeckoAsyncSpa._connect starts, by interpretation (ConnectionModel): every add_task call is recorded.
    Returns a list of dicts
      {"name", "key", "kind": "consume" | "coroutine", "handler": class name | None, "callbacks": [method names],
       "coroutine": method name | None}
    however the calls are spelled (helpers, tables of factories, loops)."""
    from .absint import BoundMethod, Obj
    cm = ConnectionModel(repo)
    tasks, spa = cm.tasks, cm.spa
    out = []
    for coro, name, key in tasks:
        d = {"name": name, "key": key, "kind": None, "handler": None, "callbacks": [], "coroutine": None}
        if isinstance(coro, Obj) and coro.attrs.get("kind") == "consume":
            h = coro.attrs["handler"]
            d["kind"] = "consume"
            d["handler"] = h.cls.short if isinstance(h, Obj) and h.cls is not None else None
            if isinstance(h, Obj):
                # bound methods of the spa the handler holds - directly or inside a small collaborator object (a record of
                # callbacks, a lifetime helper)
                found, stack, seen_ = set(), [(h, 0)], set()
                while stack:
                    o_, dep = stack.pop()
                    if id(o_) in seen_:
                        continue
                    seen_.add(id(o_))
                    for v in o_.attrs.values():
                        if isinstance(v, BoundMethod) and v.obj is spa:
                            found.add(v.fi.name)
                        elif isinstance(v, Obj) and v is not spa and dep < 2:
                            stack.append((v, dep + 1))
                d["callbacks"] = sorted(found)
        elif isinstance(coro, Obj) and coro.attrs.get("kind") == "coroutine":
            d["kind"] = "coroutine"
            d["coroutine"] = coro.attrs["method"]
        out.append(d)
    return out


def connected_flag_stores(repo, cname, fi, want):
    """Statements of `fi` (AST nodes) that store into an attribute the `is_connected` property of class `cname` reads,
    with a value under which that property - interpreted on an instance holding just that attribute - reads `want`
    (True / False).  The flag is identified by what is_connected reads, not by its name or its representation (a bool,
    an enum member, a state string)."""
    import ast as _ast
    from .absint import Interp, Obj, PyRaise, Undecided
    prop = repo.method(cname, "is_connected", required=False)
    if prop is None:
        return [], set()
    attrs = {n.attr for n in _ast.walk(prop.node) if isinstance(n, _ast.Attribute) and isinstance(n.value, _ast.Name) and n.value.id == "self"}
    out = []
    it = Interp(repo, max_depth=6)
    for n in _ast.walk(fi.node):
        if not isinstance(n, (_ast.Assign, _ast.AnnAssign)) or getattr(n, "value", None) is None:
            continue
        tgs = n.targets if isinstance(n, _ast.Assign) else [n.target]
        for t in tgs:
            if isinstance(t, _ast.Attribute) and isinstance(t.value, _ast.Name) and t.value.id == "self" and t.attr in attrs:
                try:
                    val = it.eval(n.value, {"__mod__": fi.mod, "__class__": fi.cls})
                    obj = Obj(repo.cls(cname), {t.attr: val})
                    got = it.call(prop, obj, [])
                except (PyRaise, Undecided):
                    continue
                if got is want:
                    out.append(n)
    return out, attrs
