"""Facts extracted from the code that several properties share (anchors by role)."""
from __future__ import annotations

import ast

from .core import AnalysisError
from .src import Repo, Unfoldable, walk_no_nested

STRUCT_CLASSES = ("GeckoAsyncStructure", "GeckoStructure")


def block_attr(repo: Repo, cname: str) -> str:
    """Name of the attribute returned by property `status_block` of a structure class."""
    fi = repo.method(cname, "status_block")
    for n in ast.walk(fi.node):
        if isinstance(n, ast.Return) and isinstance(n.value, ast.Attribute):
            if isinstance(n.value.value, ast.Name) and n.value.value.id == "self":
                return n.value.attr
    raise AnalysisError(f"{cname}.status_block does not return a self attribute")


def block_size(repo: Repo) -> int:
    """Length of the initial status block, folded from both structure classes."""
    sizes = set()
    for cname in STRUCT_CLASSES:
        c = repo.cls(cname)
        attr = block_attr(repo, cname)
        for fi in c.methods.values():
            for n in ast.walk(fi.node):
                if isinstance(n, ast.Assign):
                    for t in n.targets:
                        if (
                            isinstance(t, ast.Attribute)
                            and t.attr == attr
                            and isinstance(t.value, ast.Name)
                            and t.value.id == "self"
                        ):
                            try:
                                v = repo.fold(n.value, fi.mod, c)
                            except Unfoldable:
                                continue
                            if isinstance(v, bytes):
                                sizes.add(len(v))
    if len(sizes) != 1:
        raise AnalysisError(f"status block size not a single constant: {sizes}")
    return sizes.pop()


def self_attr_writes(fi, attr):
    """AST assignment statements in fi writing self.<attr> (any form)."""
    out = []
    for n in walk_no_nested(fi.node):
        targets = []
        if isinstance(n, ast.Assign):
            targets = n.targets
        elif isinstance(n, (ast.AugAssign, ast.AnnAssign)):
            targets = [n.target]
        for t in targets:
            for tt in ast.walk(t):
                if (
                    isinstance(tt, ast.Attribute)
                    and tt.attr == attr
                    and isinstance(tt.value, ast.Name)
                    and tt.value.id == "self"
                    and isinstance(tt.ctx, ast.Store)
                ):
                    out.append(n)
    return out


def loc(fi, node):
    return f"{fi.mod.rel}:{getattr(node, 'lineno', fi.node.lineno)}"


def class_const(repo, cname, name):
    """value of a class-level constant, also when the class body builds it with statements
    (loops, D.update(..), conditional assignments): the class body is interpreted in order;
    plain literal assignments fall back to constant folding"""
    from .absint import Interp, PyRaise, Undecided
    from .core import AnalysisError
    from .src import Unfoldable
    c = repo.cls(cname)
    simple = all(isinstance(st, (ast.FunctionDef, ast.AsyncFunctionDef, ast.ClassDef, ast.Assign, ast.AnnAssign, ast.Pass))
                 or (isinstance(st, ast.Expr) and isinstance(st.value, ast.Constant)) for st in c.node.body)
    n_assign = sum(1 for st in c.node.body if isinstance(st, (ast.Assign, ast.AnnAssign))
                   for t in (st.targets if isinstance(st, ast.Assign) else [st.target]) if isinstance(t, ast.Name) and t.id == name)
    if simple and n_assign == 1:
        try:
            return repo.fold(c.consts[name], c.mod, c)
        except Unfoldable:
            pass
    try:
        env = Interp(repo).class_env(c)
    except (PyRaise, Undecided) as e:
        raise AnalysisError(f"class body of {cname} cannot be evaluated: {e}")
    if name not in env:
        raise AnalysisError(f"{cname}.{name} is not defined by the class body")
    return env[name]


def started_tasks(repo, fi):
    """[(coroutine expression, task name, task key, cfg node)] for every `add_task(coro, name, key)` call in `fi`,
    with single-definition locals of the function replaced by their defining expressions - so the residue of an
    inlined helper (`h = Handler(); c = h.consume(p); add_task(c, name, KEY)`) reads like the direct call.
    name / key are folded constants or None."""
    from .cfg import cfg_of
    from .src import call_name
    g = cfg_of(fi)
    out = []
    for n in g.stmt_nodes():
        for c in n.calls():
            if call_name(c) != "add_task" or not c.args:
                continue
            try:
                args = [g.expand(a, at=n) for a in c.args]
            except RecursionError:
                args = list(c.args)
            kw = {k.arg: k.value for k in c.keywords if k.arg}
            name = args[1] if len(args) > 1 else kw.get("name_")
            key = args[2] if len(args) > 2 else kw.get("key_")
            out.append((args[0], repo.try_fold(name, fi.mod, fi.cls) if name is not None else None,
                        repo.try_fold(key, fi.mod, fi.cls) if key is not None else None, n))
    return out
