"""Pack-table extractor: reads driver/packs/*.py as *data* from the AST.

Each module holds one class (GeckoPack / GeckoConfigStruct / GeckoLogStruct) whose
properties return literals, and an `accessors` dict whose values are constructor
calls with literal arguments.  Anything not of that literal shape is recorded in
`Module.nonliteral` (a finding for C18.R7).

Derived geometry (length, format, bitmask, items) is NOT re-implemented here: it is
obtained by interpreting GeckoStructAccessor.__init__ (and the subclass constructors)
from /repo's current accessor.py on the literal arguments (vlib.absint, concrete
constants only), memoised per distinct argument shape.
"""
from __future__ import annotations

import ast
import os
import re
from concurrent.futures import ProcessPoolExecutor
from pathlib import Path

from .absint import Interp, Obj, Undecided, PyRaise
from .core import AnalysisError
from .src import Repo

PACKDIR = "driver/packs"
NAME_RE = re.compile(r"^(?P<plat>.+?)(?:-(?P<kind>cfg|log)-(?P<ver>\d+))?$")


class Item:
    __slots__ = ("module", "key", "ctor", "args", "lineno", "dup")

    def __init__(self, module, key, ctor, args, lineno):
        self.module = module
        self.key = key
        self.ctor = ctor
        self.args = args  # literal args after `self.struct`
        self.lineno = lineno
        self.dup = False

    @property
    def tag(self):
        return self.args[0] if self.args else None

    @property
    def pos(self):
        return self.args[1] if len(self.args) > 1 else None

    def shape_key(self):
        """Constructor + all args except tag and pos (the geometry-relevant part)."""
        rest = self.args[2:]
        return (self.ctor, _freeze(rest))


def _freeze(v):
    if isinstance(v, list):
        return tuple(_freeze(x) for x in v)
    if isinstance(v, tuple):
        return tuple(_freeze(x) for x in v)
    return v


class Module:
    def __init__(self, stem):
        self.stem = stem
        m = NAME_RE.match(stem)
        self.platform = m.group("plat")
        self.kind = m.group("kind") or "pack"
        self.ver = int(m.group("ver")) if m.group("ver") else None
        self.cls = None
        self.props = {}  # literal-returning properties
        self.items = []  # list[Item] in source order (duplicates kept)
        self.nonliteral = []  # (lineno, what)
        self.path = None

    def keys(self):
        return [i.key for i in self.items]

    def item(self, key):
        for i in self.items:
            if i.key == key:
                return i
        return None


def _parse_one(path):
    """Runs in a worker: returns a plain-dict description of one table module."""
    p = Path(path)
    stem = p.stem
    out = {"stem": stem, "cls": None, "props": {}, "items": [], "nonliteral": [], "path": str(p)}
    try:
        tree = ast.parse(p.read_text(encoding="utf-8"))
    except SyntaxError as e:
        out["nonliteral"].append((0, f"does not parse: {e}"))
        return out
    classes = [n for n in tree.body if isinstance(n, ast.ClassDef)]
    for n in tree.body:
        if isinstance(n, (ast.ClassDef, ast.ImportFrom, ast.Import)):
            continue
        if isinstance(n, ast.Expr) and isinstance(n.value, ast.Constant):
            continue
        out["nonliteral"].append((n.lineno, f"top-level {type(n).__name__}"))
    if len(classes) != 1:
        out["nonliteral"].append((0, f"{len(classes)} classes"))
        if not classes:
            return out
    c = classes[0]
    out["cls"] = c.name
    for st in c.body:
        if isinstance(st, ast.Expr) and isinstance(st.value, ast.Constant):
            continue
        if not isinstance(st, ast.FunctionDef):
            out["nonliteral"].append((st.lineno, f"class-level {type(st).__name__}"))
            continue
        if st.name == "__init__":
            continue
        body = [s for s in st.body if not (isinstance(s, ast.Expr) and isinstance(s.value, ast.Constant))]
        if len(body) != 1 or not isinstance(body[0], ast.Return) or body[0].value is None:
            out["nonliteral"].append((st.lineno, f"{st.name}: body is not a single return"))
            continue
        val = body[0].value
        if st.name == "accessors":
            if not isinstance(val, ast.Dict):
                out["nonliteral"].append((st.lineno, "accessors: not a dict literal"))
                continue
            for k, v in zip(val.keys, val.values):
                if not (isinstance(k, ast.Constant) and isinstance(k.value, str)):
                    out["nonliteral"].append((getattr(k, "lineno", st.lineno), "non-literal key"))
                    continue
                if not (isinstance(v, ast.Call) and isinstance(v.func, ast.Name)):
                    out["nonliteral"].append((v.lineno, f"{k.value}: value is not a constructor call"))
                    continue
                if v.keywords or not v.args or ast.unparse(v.args[0]) != "self.struct":
                    out["nonliteral"].append((v.lineno, f"{k.value}: unexpected call shape"))
                    continue
                try:
                    args = [ast.literal_eval(a) for a in v.args[1:]]
                except Exception:
                    out["nonliteral"].append((v.lineno, f"{k.value}: non-literal argument"))
                    continue
                out["items"].append((k.value, v.func.id, args, v.lineno))
        else:
            try:
                out["props"][st.name] = ast.literal_eval(val)
            except Exception:
                out["nonliteral"].append((st.lineno, f"{st.name}: non-literal return"))
    return out


class Tables:
    def __init__(self, repo: Repo, jobs=8):
        self.repo = repo
        d = repo.pkg / PACKDIR
        if not d.is_dir():
            raise AnalysisError(f"{d} vanished")
        files = sorted(str(p) for p in d.glob("*.py") if p.name != "__init__.py")
        if len(files) > 40 and jobs > 1:
            try:
                with ProcessPoolExecutor(max_workers=min(jobs, os.cpu_count() or 1)) as ex:
                    raw = list(ex.map(_parse_one, files, chunksize=8))
            except Exception:
                raw = [_parse_one(f) for f in files]
        else:
            raw = [_parse_one(f) for f in files]
        self.modules = {}
        for r in raw:
            m = Module(r["stem"])
            m.cls = r["cls"]
            m.props = r["props"]
            m.nonliteral = r["nonliteral"]
            m.path = r["path"]
            seen = set()
            for key, ctor, args, lineno in r["items"]:
                it = Item(m, key, ctor, args, lineno)
                if key in seen:
                    it.dup = True
                seen.add(key)
                m.items.append(it)
            self.modules[m.stem] = m
        self._geom = {}
        self._interp = None

    # ---- structure --------------------------------------------------------
    def platforms(self):
        return sorted({m.platform for m in self.modules.values() if m.kind == "pack"})

    def by_kind(self, platform, kind):
        return sorted(
            (m for m in self.modules.values() if m.platform == platform and m.kind == kind),
            key=lambda m: m.ver,
        )

    def combos(self):
        """All (pack, cfg, log) module triples."""
        out = []
        for p in self.platforms():
            pack = self.modules[p]
            for c in self.by_kind(p, "cfg"):
                for l in self.by_kind(p, "log"):
                    out.append((pack, c, l))
        return out

    def n_items(self):
        return sum(len(m.items) for m in self.modules.values())

    # ---- geometry by folding the constructors -----------------------------
    def geometry(self, item: Item):
        """dict(type,pos,bitpos,bitmask,length,format,items,read_write,maxitems,cls)
        obtained by interpreting the accessor constructors of /repo on the literals."""
        k = item.shape_key()
        g = self._geom.get(k)
        if g is None:
            g = self._fold_ctor(item.ctor, ["<tag>", 0] + list(item.args[2:]))
            self._geom[k] = g
        if isinstance(g, Exception):
            raise g
        out = dict(g)
        out["pos"] = item.pos
        out["tag"] = item.tag
        return out

    def _fold_ctor(self, ctor, args):
        if self._interp is None:
            self._interp = Interp(self.repo)
        cls = self.repo.cls(ctor, required=False)
        if cls is None:
            return AnalysisError(f"table uses unknown accessor class {ctor}")
        init = None
        for kk in self.repo.mro(cls):
            if "__init__" in kk.methods:
                init = kk.methods["__init__"]
                break
        if init is None:
            return AnalysisError(f"{ctor} has no constructor")
        obj = Obj(cls)
        struct_ = Obj(None, name="struct")
        try:
            self._interp.steps = 0
            self._interp.call(init, obj, [struct_] + list(args))
        except (Undecided, PyRaise) as e:
            return AnalysisError(f"cannot fold {ctor}{tuple(args)!r}: {e}")
        a = obj.attrs
        need = ["type", "pos", "bitpos", "length", "format", "items", "read_write"]
        for n in need:
            if n not in a:
                return AnalysisError(f"{ctor} constructor did not set self.{n}")
        return {
            "cls": ctor,
            "type": a["type"],
            "bitpos": a["bitpos"],
            "bitmask": a.get("bitmask"),
            "length": a["length"],
            "format": a["format"],
            "items": a["items"],
            "read_write": a["read_write"],
            "maxitems": a.get("maxitems"),
        }


def mask_width(mask):
    """Width of a contiguous-ones mask, or None when not contiguous from bit 0."""
    if not isinstance(mask, int) or mask <= 0:
        return None
    w = mask.bit_length()
    return w if mask == (1 << w) - 1 else None


_tables_cache = {}


def tables(repo: Repo) -> Tables:
    k = str(repo.root)
    if k not in _tables_cache:
        _tables_cache[k] = Tables(repo)
    return _tables_cache[k]
