"""Task registry model: AsyncTasks.add_task / cancel_key_tasks / gather / _tidy are *interpreted*
(vlib.absint) on model task objects, so the obligations speak about what the registry does, not
about how it is written (list, dict, helper methods, prefix helper ...).

  keys()               every task-domain key used in the package (constant 3rd argument of add_task,
                       argument of cancel_key_tasks)
  isolation matrix     a task of domain K1 is cancelled by cancel_key_tasks(K2) iff K1 == K2
  nothing forgotten    two live tasks with the same (name, key) are both cancelled by
                       cancel_key_tasks(key) and by gather()
  gather               cancels every live task and awaits all of them
  tidy                 one pass of the tidy loop forgets exactly the done tasks
"""
from __future__ import annotations

import ast

from .absint import Interp, Native, Obj, Opaque, PyRaise, Undecided
from .core import AnalysisError
from .src import call_name

TM = "AsyncTasks"


def used_keys(repo):
    """{key: [(function, line, 'add'|'cancel')]} over the package; non-constant keys -> AnalysisError"""
    out = {}
    for fi in repo.all_functions():
        for n in ast.walk(fi.node):
            if not isinstance(n, ast.Call):
                continue
            nm = call_name(n)
            if nm == "add_task" and len(n.args) + len(n.keywords) >= 3:
                e = n.args[2] if len(n.args) >= 3 else next((k.value for k in n.keywords if k.arg == "key_"), None)
                kind = "add"
            elif nm == "cancel_key_tasks" and n.args:
                e, kind = n.args[0], "cancel"
            else:
                continue
            if e is None:
                continue
            if fi.cls is not None and fi.cls.short == TM and isinstance(e, ast.Name):
                continue  # the registry's own parameter
            v = repo.try_fold(e, fi.mod, fi.cls)
            if not isinstance(v, str):
                raise AnalysisError(f"{fi.qual}: task key `{ast.unparse(e)}` is not a constant string - idiom not supported by the task-registry model")
            out.setdefault(v, []).append((fi, n.lineno, kind))
    return out


class Registry:
    def __init__(self, repo):
        self.repo = repo
        self.cls = repo.cls(TM)
        self.interp = Interp(repo)
        self.interp.call_hook = self._hook
        self.awaited = []
        self.sleeps = 0
        self.obj = None
        self.tasks = []

    # -- model tasks -----------------------------------------------------------------------------------
    def _task(self, name):
        t = Obj(None, {"_name": name, "_cancelled": False, "_done": False}, name=f"task<{name}>")

        def cancel(args, kwargs):
            t.attrs["_cancelled"] = True
            return True
        t.attrs["get_name"] = Native(lambda a, k: t.attrs["_name"], "get_name")
        t.attrs["cancel"] = Native(cancel, "cancel")
        t.attrs["done"] = Native(lambda a, k: t.attrs["_done"], "done")
        t.attrs["cancelled"] = Native(lambda a, k: t.attrs["_cancelled"], "cancelled")
        self.tasks.append(t)
        return t

    def _hook(self, interp, node, callee, args, kwargs):
        nm = getattr(callee, "name", "")
        if nm == "asyncio.create_task":
            name = kwargs.get("name")
            if not isinstance(name, str):
                raise Undecided("create_task without a constant name")
            return self._task(name)
        if nm == "asyncio.gather":
            self.awaited.append(list(args))
            return [None for _ in args]
        if nm == "asyncio.wait":
            # a suspension point whatever its timeout: other tasks run (and may register tasks) before it returns the
            # partition of the tasks it was GIVEN
            given = list(args[0]) if args else []
            self._suspended()
            done = {t for t in given if isinstance(t, Obj) and t.attrs.get("_done")}
            return (done, {t for t in given if t not in done})
        if nm == "asyncio.get_running_loop" or nm.startswith("asyncio.") and nm not in ("asyncio.CancelledError",):
            return Opaque(nm)
        f = getattr(node, "func", None)
        if isinstance(f, ast.Name) and f.id == "config_sleep" or isinstance(f, ast.Attribute) and f.attr in ("config_sleep", "sleep"):
            self.sleeps += 1
            if self.sleeps > 1:
                raise PyRaise("asyncio.CancelledError", node)
            self._suspended()
            return None
        return NotImplemented

    def _suspended(self):
        """the interpreted coroutine is suspended: what the scenario says happens meanwhile"""
        cb, self.on_suspend = getattr(self, "on_suspend", None), None
        if cb is not None:
            try:
                cb()
            finally:
                self.on_suspend = cb

    # -- driving the registry ----------------------------------------------------------------------------
    def fresh(self):
        self.tasks, self.awaited, self.sleeps = [], [], 0
        try:
            self.obj = self.interp.apply(__import__("vlib.absint", fromlist=["ClassRef"]).ClassRef(self.cls), [], {})
        except (PyRaise, Undecided) as e:
            raise AnalysisError(f"{TM}() cannot be constructed by interpretation: {e}")
        return self

    def _run(self, mname, args):
        fi = self.repo.method(TM, mname)
        self.interp.steps = 0
        try:
            return self.interp.call(fi, self.obj, args)
        except Undecided as e:
            raise AnalysisError(f"{TM}.{mname}: cannot interpret: {e}")

    def add(self, name, key):
        before = len(self.tasks)
        try:
            self._run("add_task", [Opaque("coroutine"), name, key])
        except PyRaise as e:
            raise AnalysisError(f"{TM}.add_task raises {e.what}")
        if len(self.tasks) != before + 1:
            raise AnalysisError(f"{TM}.add_task created {len(self.tasks) - before} tasks")
        return self.tasks[-1]

    def try_add(self, name, key):
        """add_task as a caller sees it: the task started for this call, or None when the registry started none"""
        before = len(self.tasks)
        closed = []
        coro = Obj(None, {"close": Native(lambda a, k: closed.append(1), "close")}, name="coroutine")
        try:
            self._run("add_task", [coro, name, key])
        except PyRaise as e:
            return f"raises {e.what}"
        return self.tasks[-1] if len(self.tasks) == before + 1 else None

    def cancel_key(self, key):
        try:
            self._run("cancel_key_tasks", [key])
        except PyRaise as e:
            return e.what
        return None

    def gather(self):
        try:
            self._run("gather", [])
        except PyRaise as e:
            return e.what
        return None

    def tidy_once(self):
        self.sleeps = 0
        try:
            self._run("_tidy", [])
        except PyRaise:
            pass


def check_registry(ctx, repo, rule, pump_key=None, only=None):
    """Files the registry obligations under `rule`.  only: subset of {'isolation','forgotten','gather','tidy'};
    pump_key: restrict the isolation matrix to the rows of that victim key (used by C09)."""
    keys = used_keys(repo)
    ks = sorted(keys)
    ctx.floor(rule, "task-domain keys in use", len(ks), 4)
    want = set(only or ("isolation", "forgotten", "gather", "tidy", "same-name"))
    R = Registry(repo)
    loc = repo.method(TM, "cancel_key_tasks").loc
    if "same-name" in want:
        # every call starts its task: commands issued through the blocking twins run as tasks with FIXED names ("Set value
        # task", "Button press task") - a second one while the first is still waiting for the lock or its
        # acknowledgement is another command, not a duplicate
        R.fresh()
        first = R.add("Set value task", ks[0])
        second = R.try_add("Set value task", ks[0])
        third = R.try_add("Set value task", ks[-1])
        ctx.ob(rule, "add_task::starts-a-task-for-every-call", isinstance(second, Obj) and second is not first and isinstance(third, Obj),
               f"a second add_task with the name and key of a task that is still running gives {second if not isinstance(second, Obj) else 'a task'!r} (same name under another key: "
               f"{third if not isinstance(third, Obj) else 'a task'!r}): the coroutine handed over is never run - a command issued while the previous one is in flight is dropped without an error",
               repo.method(TM, "add_task").loc, sample={"rule": rule, "scenario": "same name and key twice"})
        if not (isinstance(second, Obj) and second is not first and isinstance(third, Obj)):
            return ks      # the registry refuses tasks: the scenarios below (which register same-named tasks) do not apply
    if "isolation" in want:
        n = 0
        for k2 in ks:
            R.fresh()
            mine = {k1: R.add("t", k1) for k1 in ks}
            err = R.cancel_key(k2)
            for k1 in ks:
                if pump_key is not None and k1 != pump_key:
                    continue
                got = mine[k1].attrs["_cancelled"]
                n += 1
                ctx.ob(rule, f"cancel::{k2}::victim::{k1}", err is None and got == (k1 == k2),
                       (f"cancel_key_tasks({k2!r}) raises {err}" if err else
                        f"cancel_key_tasks({k2!r}) {'cancels' if got else 'does not cancel'} the task {mine[k1].attrs['_name']!r} of domain {k1!r}"
                        + (": tearing down one domain kills another domain's tasks" if got else ": the domain's own tasks survive its cancel")),
                       loc, sample={"rule": rule, "cancel": k2, "victim": k1, "cancelled": got} if k1 == k2 else None)
        ctx.count(f"{rule}:isolation_pairs", n)
    if "forgotten" in want:
        for k in ks[:1] + ([pump_key] if pump_key else []):
            R.fresh()
            a, b = R.add("same name", k), R.add("same name", k)
            R.cancel_key(k)
            ok = a.attrs["_cancelled"] and b.attrs["_cancelled"]
            ctx.ob(rule, "registry::same-name-tasks-both-cancelled", ok,
                   f"two live tasks started with the same name and key {k!r}: cancel_key_tasks({k!r}) cancels {[t.attrs['_cancelled'] for t in (a, b)]} - a task the registry no longer knows survives reset and exit",
                   repo.method(TM, "add_task").loc)
    if "forgotten" in want:
        # finished tasks that the tidy pass has not removed yet sit between live ones: the cancel must still reach
        # every live task of the domain (a registry that edits its list while walking it skips the neighbour)
        k = pump_key or ks[0]
        other = next((x for x in ks if x != k), k)
        for label, pattern in (("one-finished-before", "dLL"), ("finished-between", "LdLdL"), ("two-finished-before", "ddLL"), ("other-domain-finished-before", "oLL")):
            R.fresh()
            ts = []
            for i, ch in enumerate(pattern):
                t = R.add(f"task {i}", other if ch == "o" else k)
                if ch in "do":
                    t.attrs["_done"] = True
                ts.append((ch, t))
            err = R.cancel_key(k)
            live = [t.attrs["_cancelled"] for ch, t in ts if ch == "L"]
            ctx.ob(rule, f"registry::cancel-reaches-every-live-task::{label}", err is None and all(live),
                   (f"cancel_key_tasks({k!r}) raises {err}" if err else
                    f"cancel_key_tasks({k!r}) over the tasks {pattern} (d = finished, not yet tidied; L = live; o = finished task of another domain) cancels the live ones {live}: "
                    f"a live task of the domain survives its cancel (an endpoint's consumer or broadcast loop keeps running after discovery / reset)"),
                   loc)
    if "gather" in want:
        R.fresh()
        ts = [R.add("a", ks[0]), R.add("a", ks[0]), R.add("b", ks[-1])]
        err = R.gather()
        flat = [t for grp in R.awaited for t in grp]
        ok = err is None and all(t.attrs["_cancelled"] for t in ts) and all(any(t is x for x in flat) for t in ts)
        ctx.ob(rule, "gather::cancels-and-awaits-every-task", ok,
               f"gather() {'raises ' + err if err else ''} cancelled={[t.attrs['_cancelled'] for t in ts]} awaited={[any(t is x for x in flat) for t in ts]} for three live tasks (two with the same name)",
               repo.method(TM, "gather").loc)
    if "tidy" in want:
        R.fresh()
        live, dead = R.add("live", ks[0]), R.add("dead", ks[0])
        dead.attrs["_done"] = True
        R.tidy_once()
        R.awaited = []
        R.gather()
        flat = [t for grp in R.awaited for t in grp]
        ok = any(live is x for x in flat) and not any(dead is x for x in flat)
        ctx.ob(rule, "tidy::forgets-exactly-done-tasks", ok,
               f"after one tidy pass the registry still holds live={any(live is x for x in flat)} done={any(dead is x for x in flat)} (expected live kept, done dropped)",
               repo.method(TM, "_tidy").loc)
        # ... and loses nothing registered while the pass is suspended (the pass reads the list, may yield, and rebinds
        # it: a task added in between must still be there - else nothing ever cancels or awaits it)
        R.fresh()
        live, dead = R.add("live", ks[0]), R.add("dead", ks[0])
        dead.attrs["_done"] = True
        late = []
        R.on_suspend = lambda: late.append(R.add(f"late{len(late)}", ks[-1]))
        R.tidy_once()
        R.on_suspend = None
        R.awaited = []
        R.gather()
        flat = [t for grp in R.awaited for t in grp]
        lost = [t.attrs["_name"] for t in late if not any(t is x for x in flat)]
        ctx.ob(rule, "tidy::keeps-tasks-registered-during-the-pass", bool(late) and not lost and any(live is x for x in flat),
               f"{len(late)} task(s) registered while the tidy pass was suspended (one at each of its suspension points): {lost or 'none'} missing from the registry afterwards - a task the registry forgets "
               f"is never cancelled by its domain's cancel nor awaited on exit (the consumers and loops of an abandoned connection live on)", repo.method(TM, "_tidy").loc,
               sample={"rule": rule, "registered_during_pass": len(late), "lost": lost})
    return ks
