"""Standard-library idioms for the interpreter (vlib.absint): the helpers a refactoring reaches for - functools.partial,
operator.itemgetter / attrgetter / methodcaller and the operator functions, precompiled struct.Struct, itertools.chain /
filterfalse / islice, contextlib.contextmanager / suppress / closing / nullcontext - and LAZY generators.

Generators are run on a thread of their own with a strict hand-off (exactly one side runs at any time), so a generator
body is interpreted statement by statement only as far as its consumer asks: side effects interleave with the consumer's
as they do in Python (an observer list re-checked before each yield, a task table filtered while tasks are cancelled, a
coroutine built immediately before it is registered).  An abandoned generator is closed when it is dropped: its `finally`
clauses run, as in CPython.
"""
from __future__ import annotations

import itertools
import struct as _struct
import threading

from .absint import Native, Obj, Opaque, PyRaise, Undecided

threading.stack_size(16 * 1024 * 1024)


class _GenClose(BaseException):
    """thrown into a suspended generator body to unwind it (generator.close())"""


class _Channel:
    def __init__(self):
        self.to_gen = threading.Semaphore(0)
        self.to_consumer = threading.Semaphore(0)
        self.msg = None
        self.inject = None

    # the interpreter calls these at `yield` / `yield from`, on the generator's thread
    def append(self, v):
        self.msg = ("yield", v)
        self.to_consumer.release()
        self.to_gen.acquire()
        inj, self.inject = self.inject, None
        if inj is not None:
            raise inj

    def extend(self, vs):
        for v in vs:
            self.append(v)


class GenIter:
    """a generator object of interpreted code"""

    def __init__(self, interp, body, name="generator"):
        self.interp = interp
        self.body = body          # body(channel): interprets the function body, yields go through channel.append
        self.name = name
        self.ch = _Channel()
        self.started = False
        self.finished = False
        self.gen_depth = None

    def __iter__(self):
        return self

    def __next__(self):
        return self._resume(None)

    def _resume(self, inject):
        if self.finished:
            raise StopIteration
        it, ch = self.interp, self.ch
        consumer_depth = it.depth
        if not self.started:
            if inject is not None:
                self.finished = True
                if isinstance(inject, _GenClose):
                    raise StopIteration
                raise inject
            self.started = True
            it.depth = consumer_depth + 1
            body = self.body

            def run():
                try:
                    body(ch)
                    ch.msg = ("done", None)
                except BaseException as e:  # noqa: BLE001 - handed to the consumer, which re-raises it
                    ch.msg = ("raise", e)
                ch.to_consumer.release()
            t = threading.Thread(target=run, daemon=True, name=f"gen:{self.name}")
            t.start()
        else:
            ch.inject = inject
            it.depth = self.gen_depth if self.gen_depth is not None else consumer_depth + 1
            ch.to_gen.release()
        ch.to_consumer.acquire()
        self.gen_depth = it.depth
        it.depth = consumer_depth
        kind, val = ch.msg
        if kind == "yield":
            return val
        self.finished = True
        self.body = None
        if kind == "done" or isinstance(val, _GenClose):
            raise StopIteration
        raise val

    def throw(self, exc):
        return self._resume(exc)

    def close(self):
        if self.started and not self.finished:
            try:
                self._resume(_GenClose())
            except StopIteration:
                pass
            self.finished = True
        self.finished = True

    def __del__(self):
        try:
            self.close()
        except BaseException:  # noqa: BLE001
            pass

    def interp_getattr(self, attr):
        if attr == "close":
            return Native(lambda a, k: self.close(), "close")
        if attr == "__next__":
            return Native(lambda a, k: next(self), "__next__")
        raise Undecided(f"generator.{attr}")

    def __repr__(self):
        return f"<generator {self.name}>"


# ---- context managers ---------------------------------------------------------------------------------------------

class GenCM:
    """what @contextmanager makes of a generator function"""

    def __init__(self, gen):
        self.gen = gen

    def enter(self, interp):
        try:
            return next(self.gen)
        except StopIteration:
            raise PyRaise("RuntimeError: generator didn't yield")

    def exit(self, interp, exc):
        """-> True when the exception is swallowed"""
        if exc is None:
            try:
                next(self.gen)
            except StopIteration:
                return False
            raise PyRaise("RuntimeError: generator didn't stop")
        try:
            self.gen.throw(exc)
        except StopIteration:
            return True       # the generator caught it and finished
        except PyRaise as e:
            if e is exc:
                return False
            raise
        raise PyRaise("RuntimeError: generator didn't stop after throw()")


class Suppress:
    def __init__(self, names):
        self.names = names

    def enter(self, interp):
        return None

    def exit(self, interp, exc):
        if exc is None:
            return False
        return any(n.split(".")[-1] in exc.what or n in ("Exception", "BaseException") for n in self.names)


class Closing:
    def __init__(self, thing):
        self.thing = thing

    def enter(self, interp):
        return self.thing

    def exit(self, interp, exc):
        interp.apply(interp.getattr(self.thing, "close"), [], {})
        return False


class NullCM:
    def __init__(self, value=None):
        self.value = value

    def enter(self, interp):
        return self.value

    def exit(self, interp, exc):
        return False


# ---- callables -------------------------------------------------------------------------------------------------

class Partial:
    def __init__(self, func, args, kwargs):
        self.func, self.args, self.kwargs = func, tuple(args), dict(kwargs)
        self.name = "partial"

    def call(self, interp, args, kwargs, node=None):
        kw = dict(self.kwargs)
        kw.update(kwargs)
        return interp.apply_hooked(self.func, list(self.args) + list(args), kw, node)

    def interp_getattr(self, attr):
        if attr == "func":
            return self.func
        if attr == "args":
            return self.args
        if attr == "keywords":
            return self.kwargs
        raise PyRaise(f"AttributeError: {attr}")

    def __eq__(self, o):
        return o is self

    def __hash__(self):
        return id(self)


class StdCallable:
    """itemgetter / attrgetter / methodcaller / an operator function: fn(interp, args, kwargs, node)"""

    def __init__(self, name, fn):
        self.name, self.fn = name, fn

    def call(self, interp, args, kwargs, node=None):
        return self.fn(interp, args, kwargs, node)

    def __repr__(self):
        return f"<{self.name}>"


def _getitem(interp, base, idx, node):
    import ast
    fake = ast.Subscript(value=ast.Name(id="__b", ctx=ast.Load()), slice=ast.Name(id="__i", ctx=ast.Load()), ctx=ast.Load())
    return interp.e_Subscript(fake, {"__b": base, "__i": idx})


def _dotted(interp, obj, name, node):
    for part in name.split("."):
        obj = interp.getattr(obj, part, node)
    return obj


_BINOPS = {"add": "Add", "sub": "Sub", "mul": "Mult", "truediv": "Div", "floordiv": "FloorDiv", "mod": "Mod", "and_": "BitAnd", "or_": "BitOr",
           "xor": "BitXor", "lshift": "LShift", "rshift": "RShift", "pow": "Pow"}
_CMPOPS = {"lt": "Lt", "le": "LtE", "gt": "Gt", "ge": "GtE", "eq": "Eq", "ne": "NotEq", "is_": "Is", "is_not": "IsNot"}


class StructObj:
    """struct.Struct(fmt)"""

    def __init__(self, fmt):
        self.fmt = fmt

    def interp_getattr(self, attr):
        from .symbytes import SymBytes
        fmt = self.fmt
        if attr == "size":
            return _struct.calcsize(fmt)
        if attr == "format":
            return fmt

        def pack(a, k):
            if all(isinstance(v, int) for v in a):
                try:
                    return _struct.pack(fmt, *a)
                except _struct.error as e:
                    raise PyRaise(f"struct.error: {e}")
            return SymBytes.pack(fmt, list(a))

        def unpack(a, k):
            data = a[0]
            if hasattr(data, "unpack"):
                return data.unpack(fmt)
            if isinstance(data, (bytes, bytearray, memoryview)):
                try:
                    return _struct.unpack(fmt, data)
                except _struct.error as e:
                    raise PyRaise(f"struct.error: {e}")
            raise Undecided("Struct.unpack of non-constant")

        def unpack_from(a, k):
            data = a[0]
            off = a[1] if len(a) > 1 else k.get("offset", 0)
            size = _struct.calcsize(fmt)
            if not isinstance(off, int):
                raise Undecided("Struct.unpack_from at a symbolic offset")
            if isinstance(data, (bytes, bytearray, memoryview)):
                try:
                    return _struct.unpack_from(fmt, data, off)
                except _struct.error as e:
                    raise PyRaise(f"struct.error: {e}")
            try:
                n = len(data)
            except Exception:  # noqa: BLE001 - symbolic length
                n = None
            if n is not None and off + size > n:
                raise PyRaise(f"struct.error: unpack_from requires a buffer of at least {off + size} bytes")
            return unpack([data[off:off + size]], {})
        if attr in ("pack", "unpack", "unpack_from"):
            return Native({"pack": pack, "unpack": unpack, "unpack_from": unpack_from}[attr], f"Struct.{attr}")
        raise Undecided(f"Struct.{attr}")


def lazy_iter(x):
    """iterate an interpreter value the way a `for` does: a list by index over the LIVE object, anything else through
    its iterator (generators stay lazy)"""
    if isinstance(x, list):
        i = 0
        while i < len(x):
            yield x[i]
            i += 1
    elif isinstance(x, Opaque):
        raise Undecided(f"iteration over opaque {x.name}")
    elif isinstance(x, Obj) and x.cls is not None and "__fields__" not in x.attrs and Obj._active is not None and Obj._active.dunder(x, "__iter__") is not None:
        it_ = Obj._active         # the interpreter at work: an instance whose class defines __iter__ is iterated through it
        yield from lazy_iter(it_.call(it_.dunder(x, "__iter__"), x, []))
    elif hasattr(x, "__next__"):
        yield from x
    elif x is None or isinstance(x, (bool, int, float)):
        raise PyRaise(f"TypeError: '{type(x).__name__}' object is not iterable")
    else:
        yield from list(x)


STD_MODULES = ("functools", "operator", "itertools", "contextlib", "struct", "dataclasses", "typing", "enum", "collections", "weakref")


class WeakRef(Native):
    """weakref.ref / weakref.WeakMethod on the model: calling it gives the referent while something else still holds it,
    None afterwards.  Instances of repository classes, bound methods of them and model objects are held by their owners;
    a callable that a model marks `strongly_held = False` (an inline lambda, a partial built in the call, a closure of a
    helper that has returned) is collected as soon as the registration returns - CPython's reference counting."""

    def __init__(self, referent):
        self.referent = referent
        super().__init__(lambda a, k: self.get(), "weakref")

    def alive(self):
        return getattr(self.referent, "strongly_held", True)

    def get(self):
        return self.referent if self.alive() else None

    def __eq__(self, o):
        if isinstance(o, WeakRef):
            if self.alive() and o.alive():
                return self.referent == o.referent
            return self is o
        return False

    def __hash__(self):
        return hash(("weakref", id(self.referent)))


def std_call(interp, name, args, kwargs, node=None):
    """value of calling the standard-library function `name`, or NotImplemented"""
    import ast
    if name == "functools.partial":
        if not args:
            raise PyRaise("TypeError: partial needs a callable")
        return Partial(args[0], args[1:], kwargs)
    if name in ("functools.wraps", "functools.lru_cache", "functools.cache"):
        return Native(lambda a, k: a[0], "decorator")
    if name == "operator.itemgetter":
        keys = list(args)
        return StdCallable("itemgetter", lambda it, a, k, n: _getitem(it, a[0], keys[0], n) if len(keys) == 1 else tuple(_getitem(it, a[0], x, n) for x in keys))
    if name == "operator.attrgetter":
        names = list(args)
        return StdCallable("attrgetter", lambda it, a, k, n: _dotted(it, a[0], names[0], n) if len(names) == 1 else tuple(_dotted(it, a[0], x, n) for x in names))
    if name == "operator.methodcaller":
        mname, margs, mkw = args[0], list(args[1:]), dict(kwargs)
        return StdCallable("methodcaller", lambda it, a, k, n: it.apply_hooked(it.getattr(a[0], mname, n), margs, mkw, n))
    if name.startswith("operator."):
        op = name[9:]
        if op in _BINOPS:
            return interp.binop(getattr(ast, _BINOPS[op])(), args[0], args[1])
        if op in _CMPOPS:
            return interp.compare(getattr(ast, _CMPOPS[op])(), args[0], args[1])
        if op == "not_":
            return not interp.truth(args[0])
        if op == "truth":
            return interp.truth(args[0])
        if op == "contains":
            return interp.compare(ast.In(), args[1], args[0])
        if op == "getitem":
            return _getitem(interp, args[0], args[1], node)
        if op in ("neg", "invert", "index"):
            return {"neg": lambda v: -v, "invert": lambda v: ~v, "index": lambda v: int(v)}[op](args[0])
        return NotImplemented
    if name == "struct.Struct":
        if not isinstance(args[0], (str, bytes)):
            raise Undecided("struct.Struct with a non-constant format")
        return StructObj(args[0])
    if name == "struct.unpack_from":
        return interp.apply(StructObj(args[0]).interp_getattr("unpack_from"), list(args[1:]), kwargs, node)
    if name == "itertools.chain":
        return itertools.chain.from_iterable(lazy_iter(a) for a in args)
    if name == "itertools.chain.from_iterable":
        return itertools.chain.from_iterable(lazy_iter(a) for a in lazy_iter(args[0]))
    if name == "itertools.filterfalse":
        pred, seq = args
        return (v for v in lazy_iter(seq) if not interp.truth(v if pred is None else interp.apply(pred, [v], {}, node)))
    if name == "itertools.islice":
        return itertools.islice(lazy_iter(args[0]), *args[1:])
    if name == "itertools.starmap":
        f = args[0]
        return (interp.apply(f, list(v), {}, node) for v in lazy_iter(args[1]))
    if name == "itertools.takewhile":
        pred, seq = args
        return itertools.takewhile(lambda v: interp.truth(interp.apply(pred, [v], {}, node)), lazy_iter(seq))
    if name == "itertools.dropwhile":
        pred, seq = args
        return itertools.dropwhile(lambda v: interp.truth(interp.apply(pred, [v], {}, node)), lazy_iter(seq))
    if name == "itertools.repeat":
        return itertools.repeat(*args)
    if name == "itertools.count":
        return itertools.count(*args)
    if name == "itertools.cycle":
        return itertools.cycle(list(lazy_iter(args[0])))
    if name == "itertools.accumulate":
        if len(args) > 1 or kwargs.get("func") is not None:
            f_ = args[1] if len(args) > 1 else kwargs["func"]
            return itertools.accumulate(lazy_iter(args[0]), lambda a, b: interp.apply(f_, [a, b], {}, node), **{k: v for k, v in kwargs.items() if k == "initial"})
        return itertools.accumulate(lazy_iter(args[0]), **kwargs)
    if name == "itertools.pairwise":
        return itertools.pairwise(lazy_iter(args[0]))
    if name == "itertools.zip_longest":
        return itertools.zip_longest(*[lazy_iter(a) for a in args], **kwargs)
    if name == "itertools.product":
        return itertools.product(*[list(lazy_iter(a)) for a in args], **kwargs)
    if name == "contextlib.suppress":
        return Suppress([getattr(a, "name", str(a)) for a in args])
    if name == "contextlib.closing":
        return Closing(args[0])
    if name == "contextlib.nullcontext":
        return NullCM(args[0] if args else None)
    if name in ("contextlib.contextmanager", "contextlib.asynccontextmanager"):
        f = args[0]
        return StdCallable("contextmanager", lambda it, a, k, n: GenCM(it.apply(f, a, k, n)))
    if name == "dataclasses.replace":
        o = args[0]
        if isinstance(o, Obj):
            return Obj(o.cls, dict(o.attrs, **kwargs), name=o.name)
    if name == "dataclasses.field":
        return Opaque("field")
    if name == "enum.auto":
        return Opaque("auto")
    if name in ("weakref.ref", "weakref.WeakMethod", "weakref.proxy"):
        if not args:
            raise PyRaise("TypeError: weakref needs a referent")
        if name == "weakref.proxy":
            return args[0]
        return WeakRef(args[0])
    if name == "collections.deque":
        import collections as _c
        it_ = list(lazy_iter(args[0])) if args and args[0] is not None else []
        ml = args[1] if len(args) > 1 else kwargs.get("maxlen")
        return _c.deque(it_, maxlen=ml)
    if name == "collections.OrderedDict":
        return dict(*args, **kwargs)
    if name == "collections.Counter":
        import collections as _c
        return _c.Counter(*[list(lazy_iter(a)) if not isinstance(a, dict) else a for a in args], **kwargs)
    if name == "collections.defaultdict":
        import collections as _c
        fac = args[0] if args else None
        pyfac = None
        if fac is not None:
            bn = getattr(fac, "name", None)
            if bn in ("int", "list", "dict", "set", "str", "float", "bool", "tuple", "bytes"):
                import builtins as _b
                pyfac = getattr(_b, bn)
            else:
                pyfac = lambda fac=fac: interp.apply(fac, [], {})  # noqa: E731
        return _c.defaultdict(pyfac, *args[1:], **kwargs)
    if name == "ast.literal_eval":
        import ast as _ast
        if not isinstance(args[0], str):
            raise Undecided("ast.literal_eval of a non-constant")
        try:
            return _ast.literal_eval(args[0])
        except (ValueError, SyntaxError) as e:
            raise PyRaise(f"{type(e).__name__}: {e}")
    if name == "typing.cast":
        return args[1]
    return NotImplemented
