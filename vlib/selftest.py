"""Checker self-test (thorough tier): see selftest/ corpus.  Filled in later."""


def run(ctx):
    try:
        from . import selftest_impl
    except ImportError:
        ctx.note("self-test corpus not present")
        return
    selftest_impl.run(ctx)
