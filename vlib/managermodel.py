"""Manager model: a GeckoAsyncSpaMan built by its own constructor (vlib.absint), with a stand-in client callback, spa and
facade.  `_handle_event` and `async_reset` are *interpreted* - nested events are raised by the code itself, the stand-in
spa raises RUNNING_SPA_DISCONNECTED from its disconnect() the way the real one does - and the client callback records,
at the moment it is called, the event, the manager's state, whether a facade exists and the status sensor's text.

  Manager(repo)                      one model manager
  .put(state, facade=, spa=)         place it in a lifecycle state (audited private names; renamed backing attributes are
                                     mapped back by the normaliser)
  .fire(event_name, **kw)            interpret _handle_event(event)
  .reset()                           interpret async_reset()
  lifecycle_relation(repo)           {(state, facade present, event): outcome} for every state x event, by interpretation
"""
from __future__ import annotations

from .absint import BoundMethod, ClassRef, EnumMember, Interp, Native, Obj, Opaque, PyRaise, Undecided
from .core import AnalysisError

MAN = "GeckoAsyncSpaMan"
STATE, EVENT = "GeckoSpaState", "GeckoSpaEvent"


def members(repo, cname):
    import ast
    c = repo.cls(cname)
    return [(k, v.value) for k, v in c.consts.items() if isinstance(v, ast.Constant) and isinstance(v.value, int) and not k.startswith("_")]


class Manager:
    def __init__(self, repo, kwargs=None):
        self.repo = repo
        self.it = Interp(repo, max_depth=18)
        self.calls = []      # client callbacks: (event, state, facade present, sensor text)
        self.log = []        # collaborator calls in order: "spa.disconnect", "facade.disconnect", ("event", name) ...
        self.it.call_hook = self._hook
        kw = {"spa_identifier": "SPA-ID", "spa_name": "My spa", "spa_address": None} if kwargs is None else dict(kwargs)
        try:
            self.obj = self.it.apply(ClassRef(repo.cls(MAN)), ["uuid-1234"], kw)
        except (PyRaise, Undecided) as e:
            raise AnalysisError(f"{MAN}(uuid, spa_identifier=, spa_name=) cannot be constructed by interpretation: {e}")
        self.obj.attrs["handle_event"] = Native(self._client, "handle_event")
        self.facade = None
        self.spa = None

    # -- stand-ins ---------------------------------------------------------------------------------------
    def _hook(self, it, node, callee, args, kwargs):
        nm = getattr(callee, "name", "")
        if nm == "asyncio.sleep":
            return None
        if nm in ("time.monotonic",):
            return 100.0
        if nm.startswith("datetime."):
            return Opaque(nm)
        return NotImplemented

    def member(self, cname, name):
        return self.it.getattr(ClassRef(self.repo.cls(cname)), name)

    def _client(self, a, k):
        ev = a[0]
        st = self.it.getattr(self.obj, "spa_state")
        fac = self.it.getattr(self.obj, "facade")
        sensor = self.it.getattr(self.obj, "status_sensor")
        text = None
        if isinstance(sensor, Obj):
            try:
                text = self.it.getattr(sensor, "state")
            except (PyRaise, Undecided):
                text = "<unreadable>"
        self.calls.append((getattr(ev, "name", str(ev)), getattr(st, "name", str(st)), fac is not None, text))
        self.log.append(("client", getattr(ev, "name", str(ev))))

    def make_spa(self, connected=True):
        man = self

        def disconnect(a, k):
            man.log.append("spa.disconnect")
            man.log.append(("facade-at-spa-disconnect", man.it.getattr(man.obj, "facade") is not None))
            # the real spa announces its disconnection through the manager's event handler
            man.it.call(man.repo.method(MAN, "_handle_event"), man.obj, [man.member(EVENT, "RUNNING_SPA_DISCONNECTED")])
        return Obj(None, {"disconnect": Native(disconnect, "disconnect"), "is_connected": connected, "isopen": True, "signal": 77, "channel": 11,
                          "watch": Native(lambda a, k: None, "watch"), "unwatch": Native(lambda a, k: None, "unwatch"), "last_ping_at": None, "is_responding_to_pings": True,
                          "async_get_watercare": Native(lambda a, k: 1, "async_get_watercare"), "unique_id": "SPA-ID", "name": "My spa"}, name="spa")

    def make_facade(self):
        man = self
        wc = Obj(None, {"change_watercare_mode": Native(lambda a, k: man.log.append("watercare.change"), "change_watercare_mode")}, name="watercare")
        return Obj(None, {"disconnect": Native(lambda a, k: man.log.append("facade.disconnect"), "disconnect"), "_water_care": wc, "water_care": wc}, name="facade")

    # -- driving ---------------------------------------------------------------------------------------------
    def put(self, state, facade=True, spa=True, connected=True, descriptors=True):
        self.facade = self.make_facade() if facade else None
        self.spa = self.make_spa(connected) if spa else None
        # through the interpreter's attribute store: a backing attribute behind a property setter is reached too
        self.it.setattr(self.obj, "_spa_state", self.member(STATE, state))
        self.it.setattr(self.obj, "_facade", self.facade)
        self.it.setattr(self.obj, "_spa", self.spa)
        self.it.setattr(self.obj, "_spa_descriptors", [Opaque("descriptor")] if descriptors else None)
        self.calls.clear()
        self.log.clear()
        return self

    def warm_up(self):
        """let the manager create its sensors (status sensor, reconnect button, radio sensors) the way a connection does"""
        self.put("IDLE", facade=False, spa=True)
        for ev in ("SPA_MAN_ENTER", "CONNECTION_STARTED", "CONNECTION_GOT_CHANNEL"):
            try:
                self.fire(ev)
            except PyRaise:
                pass
        return self

    def fire(self, event, **kw):
        self.it.steps = 0
        try:
            self.it.call(self.repo.method(MAN, "_handle_event"), self.obj, [self.member(EVENT, event)], kw)
        except Undecided as e:
            raise AnalysisError(f"{MAN}._handle_event({event}): cannot interpret: {e}")

    def reset(self):
        self.it.steps = 0
        try:
            self.it.call(self.repo.method(MAN, "async_reset"), self.obj, [])
        except Undecided as e:
            raise AnalysisError(f"{MAN}.async_reset: cannot interpret: {e}")

    def state(self):
        return getattr(self.it.getattr(self.obj, "spa_state"), "name", None)

    def text_of(self, state_name):
        fi = self.repo.method(STATE, "to_string")
        return self.it.call(fi, None, [self.member(STATE, state_name)])


def lifecycle_relation(repo):
    """every (state, facade present?) x event by interpretation -> dict with final state, client callbacks, collaborator
    log, or 'raises'"""
    out = {}
    states = [n for n, _v in members(repo, STATE)]
    # CLIENT_* events are announcements the manager makes to its client (outputs of the relation), never inputs
    events = [n for n, _v in members(repo, EVENT) if not n.startswith("CLIENT_")]
    m = Manager(repo).warm_up()
    for s in states:
        for fac in (True, False):
            for e in events:
                m.put(s, facade=fac, spa=True)
                try:
                    m.fire(e)
                    out[(s, fac, e)] = {"final": m.state(), "calls": list(m.calls), "log": list(m.log), "facade_after": m.it.getattr(m.obj, "facade") is not None}
                except PyRaise as ex:
                    out[(s, fac, e)] = {"raises": ex.what, "calls": list(m.calls), "log": list(m.log), "final": m.state()}
    return out, states, events, m
