"""Scratch copies of the analysed tree (outside /repo and /verif, removed by the caller)."""
from __future__ import annotations

import os
import shutil
import tempfile
from pathlib import Path

from .core import repo_root


def make_scratch(relfile=None, base=None) -> Path:
    """Copy <base>/src/geckolib to a fresh mkdtemp dir; driver/packs and tests are
    symlinked unless the edited file lives there."""
    base = Path(base) if base else repo_root()
    d = Path(tempfile.mkdtemp(prefix="gverif_"))
    src = base / "src" / "geckolib"
    dst = d / "src" / "geckolib"
    packs_target = bool(relfile) and "driver/packs/" in relfile

    def ignore(dirpath, names):
        out = [n for n in names if n == "__pycache__"]
        if not packs_target and Path(dirpath) == src / "driver":
            out.append("packs")
        return out

    shutil.copytree(src, dst, ignore=ignore, symlinks=True)
    if not packs_target:
        os.symlink((src / "driver" / "packs").resolve(), dst / "driver" / "packs")
    if (base / "tests").is_dir():
        os.symlink((base / "tests").resolve(), d / "tests")
    return d


def remove_scratch(d):
    shutil.rmtree(d, ignore_errors=True)
