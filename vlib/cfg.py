"""Statement-level control-flow graph for one Python function (stdlib only).

Handles the statement kinds geckolib uses: If, While(+else), For/AsyncFor(+else),
Try (handlers, else, finally; return/break/continue routed through copies of the
finally block), With/AsyncWith, Return, Raise, Break, Continue, Assert and simple
statements.  `match` and other unknown compound statements raise AnalysisError.

Primitives: dominators, post-dominators, reachability, `between`, edge-dominance
guards (`guards`), suspension points (nodes containing an `await`).
"""
from __future__ import annotations

import ast

from .core import AnalysisError
from .src import walk_no_nested


class Node:
    __slots__ = ("id", "kind", "ast", "lineno", "suspends", "copy_of", "const_true", "cfg")

    def __init__(self, id, kind, ast_=None):
        self.id = id
        self.kind = kind
        self.ast = ast_
        self.lineno = getattr(ast_, "lineno", 0)
        self.suspends = False
        self.const_true = False

    def expr(self):
        """The expression/statement evaluated *at* this node (not nested bodies)."""
        a = self.ast
        if self.kind == "test":
            return a  # the test expression
        if self.kind == "for":
            return a.iter
        if self.kind == "with":
            return a  # handled by own_exprs
        return a

    def own_exprs(self):
        """AST sub-trees evaluated at this node."""
        a = self.ast
        if a is None:
            return []
        if self.kind == "test":
            return [a]
        if self.kind == "for":
            return [a.iter, a.target]
        if self.kind == "with":
            out = []
            for it in a.items:
                out.append(it.context_expr)
                if it.optional_vars is not None:
                    out.append(it.optional_vars)
            return out
        if self.kind == "handler":
            return [a.type] if a.type is not None else []
        return [a]

    def walk(self):
        for e in self.own_exprs():
            yield from walk_no_nested(e)

    def calls(self):
        return [n for n in self.walk() if isinstance(n, ast.Call)]

    def text(self):
        if self.ast is None:
            return self.kind
        try:
            if self.kind == "for":
                return f"for {ast.unparse(self.ast.target)} in {ast.unparse(self.ast.iter)}"
            if self.kind == "with":
                return "with " + ", ".join(ast.unparse(i) for i in self.ast.items)
            if self.kind == "handler":
                return "except " + (ast.unparse(self.ast.type) if self.ast.type else "")
            s = ast.unparse(self.ast)
        except Exception:
            s = self.kind
        s = " ".join(s.split())
        return s if len(s) < 120 else s[:117] + "..."

    def __repr__(self):
        return f"<{self.id}:{self.kind}@{self.lineno} {self.text()[:50]}>"


class _Loop:
    def __init__(self, head):
        self.head = head
        self.breaks = []
        self.finalbody = None


class _Try:
    """While building the try body."""

    def __init__(self, handlers, catch_all, finalbody):
        self.handlers = handlers
        self.catch_all = catch_all
        self.finalbody = finalbody
        self.exc_finally = None


class _FinOnly:
    """While building handlers / else of a try that has a finally."""

    def __init__(self, finalbody):
        self.finalbody = finalbody
        self.handlers = []
        self.catch_all = False
        self.exc_finally = None


class _With:
    finalbody = None


MAY_RAISE = (ast.Call, ast.Await, ast.Subscript, ast.Raise, ast.Assert, ast.BinOp, ast.Attribute)


class CFG:
    def __init__(self, func):
        self.func = func
        self.nodes = []
        self.succ = {}
        self.pred = {}
        self.entry = self._new("entry")
        self.exit = self._new("exit")
        self.raise_ = self._new("raise")
        self._frames = []
        self.back_edges = set()
        ends = self._seq(func.body, [(self.entry, None)])
        self._connect(ends, self.exit)
        self._dom = None
        self._pdom = {}

    # ---- construction -----------------------------------------------------
    def _new(self, kind, ast_=None):
        n = Node(len(self.nodes), kind, ast_)
        n.cfg = self
        self.nodes.append(n)
        self.succ[n] = []
        self.pred[n] = []
        if ast_ is not None:
            for sub in n.walk():
                if isinstance(sub, ast.Await):
                    n.suspends = True
                    break
            if kind == "with" and isinstance(ast_, ast.AsyncWith):
                n.suspends = True
            if kind == "for" and isinstance(ast_, ast.AsyncFor):
                n.suspends = True
        return n

    def _edge(self, a, b, label=None):
        if (b, label) not in self.succ[a]:
            self.succ[a].append((b, label))
            self.pred[b].append((a, label))

    def _connect(self, dangling, node):
        for a, label in dangling:
            self._edge(a, node, label)

    def _may_raise(self, n):
        for sub in n.walk():
            if isinstance(sub, MAY_RAISE):
                return True
        return n.kind in ("with", "for")

    def _exc_targets(self, depth):
        targets = []
        i = depth - 1
        while i >= 0:
            fr = self._frames[i]
            if isinstance(fr, _Try):
                targets.extend(fr.handlers)
                if fr.catch_all:
                    return targets
                if fr.finalbody:
                    targets.append(self._exc_finally(fr, i))
                    return targets
            elif isinstance(fr, _FinOnly):
                targets.append(self._exc_finally(fr, i))
                return targets
            i -= 1
        targets.append(self.raise_)
        return targets

    def _exc_finally(self, fr, depth):
        if fr.exc_finally is None:
            saved = self._frames
            self._frames = saved[:depth]
            join = self._new("join")
            fr.exc_finally = join
            ends = self._seq(fr.finalbody, [(join, None)])
            if ends:
                rr = self._new("reraise")
                self._connect(ends, rr)
                for t in self._exc_targets(depth):
                    self._edge(rr, t, "exc")
            self._frames = saved
        return fr.exc_finally

    def _add_exc(self, n):
        if self._may_raise(n):
            for t in self._exc_targets(len(self._frames)):
                self._edge(n, t, "exc")

    def _through_finally(self, dangling, to_depth):
        """Route dangling edges through copies of every finally between the current
        depth and to_depth (exclusive)."""
        saved = self._frames
        i = len(saved) - 1
        while i >= to_depth:
            fr = saved[i]
            fb = getattr(fr, "finalbody", None)
            if fb:
                self._frames = saved[:i]
                dangling = self._seq(fb, dangling)
            i -= 1
        self._frames = saved
        return dangling

    def _seq(self, stmts, dangling):
        for st in stmts:
            if not dangling:
                # unreachable code after return/raise/continue: still build it so
                # that rules can see its nodes, but leave it disconnected
                pass
            dangling = self._stmt(st, dangling)
        return dangling

    def _stmt(self, st, dangling):
        if isinstance(st, (ast.FunctionDef, ast.AsyncFunctionDef, ast.ClassDef)):
            n = self._new("stmt", st)
            n.suspends = False
            self._connect(dangling, n)
            return [(n, None)]
        if isinstance(st, ast.If):
            t = self._new("test", st.test)
            self._connect(dangling, t)
            self._add_exc(t)
            body = self._seq(st.body, [(t, "T")])
            if st.orelse:
                orelse = self._seq(st.orelse, [(t, "F")])
            else:
                orelse = [(t, "F")]
            return body + orelse
        if isinstance(st, ast.While):
            t = self._new("test", st.test)
            self._connect(dangling, t)
            self._add_exc(t)
            const_true = isinstance(st.test, ast.Constant) and bool(st.test.value)
            t.const_true = const_true
            lp = _Loop(t)
            self._frames.append(lp)
            body = self._seq(st.body, [(t, "T")])
            self._frames.pop()
            for a, label in body:
                self._edge(a, t, label)
                self.back_edges.add((a, t))
            out = []
            if not const_true:
                if st.orelse:
                    out = self._seq(st.orelse, [(t, "F")])
                else:
                    out = [(t, "F")]
            return out + lp.breaks
        if isinstance(st, (ast.For, ast.AsyncFor)):
            h = self._new("for", st)
            self._connect(dangling, h)
            self._add_exc(h)
            lp = _Loop(h)
            self._frames.append(lp)
            body = self._seq(st.body, [(h, "iter")])
            self._frames.pop()
            for a, label in body:
                self._edge(a, h, label)
                self.back_edges.add((a, h))
            if st.orelse:
                out = self._seq(st.orelse, [(h, "done")])
            else:
                out = [(h, "done")]
            return out + lp.breaks
        if isinstance(st, (ast.With, ast.AsyncWith)):
            w = self._new("with", st)
            self._connect(dangling, w)
            self._add_exc(w)
            self._frames.append(_With())
            out = self._seq(st.body, [(w, None)])
            self._frames.pop()
            return out
        if isinstance(st, ast.Try) or st.__class__.__name__ == "TryStar":
            hnodes = []
            catch_all = False
            for h in st.handlers:
                hn = self._new("handler", h)
                hnodes.append(hn)
                if h.type is None:
                    catch_all = True
                else:
                    tn = ast.unparse(h.type)
                    if "BaseException" in tn:
                        catch_all = True
            fr = _Try(hnodes, catch_all, st.finalbody or None)
            self._frames.append(fr)
            body = self._seq(st.body, dangling)
            self._frames.pop()
            fo = None
            if st.finalbody:
                fo = _FinOnly(st.finalbody)
                self._frames.append(fo)
            normal = self._seq(st.orelse, body) if st.orelse else body
            for hn, h in zip(hnodes, st.handlers):
                normal = normal + self._seq(h.body, [(hn, None)])
            if fo is not None:
                self._frames.pop()
                normal = self._seq(st.finalbody, normal)
            return normal
        if isinstance(st, ast.Return):
            n = self._new("stmt", st)
            self._connect(dangling, n)
            self._add_exc(n)
            d = self._through_finally([(n, None)], 0)
            self._connect(d, self.exit)
            return []
        if isinstance(st, ast.Raise):
            n = self._new("stmt", st)
            self._connect(dangling, n)
            for t in self._exc_targets(len(self._frames)):
                self._edge(n, t, "exc")
            return []
        if isinstance(st, (ast.Break, ast.Continue)):
            n = self._new("stmt", st)
            self._connect(dangling, n)
            j = None
            for i in range(len(self._frames) - 1, -1, -1):
                if isinstance(self._frames[i], _Loop):
                    j = i
                    break
            if j is None:
                raise AnalysisError("break/continue outside loop")
            d = self._through_finally([(n, None)], j + 1)
            lp = self._frames[j]
            if isinstance(st, ast.Break):
                lp.breaks.extend(d)
            else:
                for a, label in d:
                    self._edge(a, lp.head, label)
                    self.back_edges.add((a, lp.head))
            return []
        if isinstance(
            st,
            (
                ast.Assign,
                ast.AugAssign,
                ast.AnnAssign,
                ast.Expr,
                ast.Assert,
                ast.Pass,
                ast.Delete,
                ast.Global,
                ast.Nonlocal,
                ast.Import,
                ast.ImportFrom,
            ),
        ):
            n = self._new("stmt", st)
            self._connect(dangling, n)
            self._add_exc(n)
            return [(n, None)]
        raise AnalysisError(
            f"unsupported statement kind {type(st).__name__} at line {getattr(st, 'lineno', '?')}"
        )

    # ---- queries ----------------------------------------------------------
    def nodes_for(self, ast_node):
        """All CFG nodes built from this AST statement/expression (finally copies)."""
        return [n for n in self.nodes if n.ast is ast_node]

    def stmt_nodes(self):
        return [n for n in self.nodes if n.ast is not None]

    def find(self, pred):
        return [n for n in self.nodes if n.ast is not None and pred(n)]

    def nodes_calling(self, name, recv_endswith=None):
        out = []
        for n in self.stmt_nodes():
            for c in n.calls():
                f = c.func
                nm = f.attr if isinstance(f, ast.Attribute) else getattr(f, "id", None)
                if nm != name:
                    continue
                if recv_endswith is not None:
                    r = ast.unparse(f.value) if isinstance(f, ast.Attribute) else ""
                    if not r.endswith(recv_endswith):
                        continue
                out.append((n, c))
        return out

    def reach_from(self, start, avoid=(), cut=(), labels_skip=()):
        """Nodes reachable from start (start itself excluded unless on a cycle)."""
        avoid = set(avoid)
        seen = set()
        stack = [start]
        first = True
        while stack:
            n = stack.pop()
            if not first and n in avoid:
                continue
            first = False
            for m, label in self.succ[n]:
                if (n, m) in cut or label in labels_skip:
                    continue
                if m not in seen:
                    seen.add(m)
                    if m not in avoid:
                        stack.append(m)
        return seen

    def reach_to(self, target, avoid=(), cut=(), labels_skip=()):
        avoid = set(avoid)
        seen = set()
        stack = [target]
        first = True
        while stack:
            n = stack.pop()
            if not first and n in avoid:
                continue
            first = False
            for m, label in self.pred[n]:
                if (m, n) in cut or label in labels_skip:
                    continue
                if m not in seen:
                    seen.add(m)
                    if m not in avoid:
                        stack.append(m)
        return seen

    def reachable(self, a, b, avoid=(), cut=(), labels_skip=()):
        return b in self.reach_from(a, avoid, cut, labels_skip)

    def between(self, a, b, labels_skip=()):
        """Nodes strictly inside some path a -> b that does not revisit a or b."""
        f = self.reach_from(a, avoid=(a, b), labels_skip=labels_skip)
        t = self.reach_to(b, avoid=(a, b), labels_skip=labels_skip)
        return (f & t) - {a, b}

    def live_nodes(self):
        return self.reach_from(self.entry) | {self.entry}

    def dominators(self):
        if self._dom is None:
            self._dom = self._compute_dom(self.entry, self.succ, self.pred)
        return self._dom

    def _compute_dom(self, root, succ, pred, skip_labels=()):
        live = set()
        stack = [root]
        while stack:
            n = stack.pop()
            if n in live:
                continue
            live.add(n)
            for m, label in succ[n]:
                if label in skip_labels:
                    continue
                stack.append(m)
        dom = {n: set(live) for n in live}
        dom[root] = {root}
        changed = True
        order = [n for n in self.nodes if n in live]
        while changed:
            changed = False
            for n in order:
                if n is root:
                    continue
                ps = [p for p, label in pred[n] if p in live and label not in skip_labels]
                if not ps:
                    new = {n}
                else:
                    new = set.intersection(*[dom[p] for p in ps]) | {n}
                if new != dom[n]:
                    dom[n] = new
                    changed = True
        return dom

    def dom(self, a, b):
        """a dominates b (every entry->b path passes a)."""
        d = self.dominators()
        return b in d and a in d[b]

    def postdominators(self, normal_only=True):
        key = normal_only
        if key not in self._pdom:
            skip = ("exc",) if normal_only else ()
            # virtual sink joining exit and raise
            sink = Node(-1, "sink")
            succ = {n: list(v) for n, v in self.pred.items()}  # reversed graph
            pred = {n: list(v) for n, v in self.succ.items()}
            succ[sink] = [(self.exit, None)] + ([] if normal_only else [(self.raise_, None)])
            pred[sink] = []
            pred[self.exit] = pred[self.exit] + [(sink, None)]
            if not normal_only:
                pred[self.raise_] = pred[self.raise_] + [(sink, None)]
            saved_nodes = self.nodes
            self.nodes = [sink] + saved_nodes
            try:
                self._pdom[key] = self._compute_dom(sink, succ, pred, skip)
            finally:
                self.nodes = saved_nodes
        return self._pdom[key]

    def pdom(self, a, b, normal_only=True):
        """a post-dominates b."""
        d = self.postdominators(normal_only)
        return b in d and a in d[b]

    # ---- guards -----------------------------------------------------------
    def branch_edges(self):
        out = []
        for n in self.nodes:
            if n.kind in ("test", "for"):
                for m, label in self.succ[n]:
                    if label in ("T", "F", "iter", "done"):
                        out.append((n, m, label))
        return out

    def guards(self, target, entry=None, cut_back=False):
        """Set of (test-node, label) branch edges lying on every entry->target path."""
        entry = entry or self.entry
        cut = self.back_edges if cut_back else ()
        out = []
        base = self.reach_from(entry, cut=cut) | {entry}
        if target not in base:
            return out
        for n, m, label in self.branch_edges():
            if n not in base:
                continue
            # remove edge (n --label--> m)
            seen = {entry}
            stack = [entry]
            found = False
            while stack and not found:
                x = stack.pop()
                for y, lab in self.succ[x]:
                    if (x, y) in cut:
                        continue
                    if x is n and lab == label and y is m:
                        continue
                    if y not in seen:
                        if y is target:
                            found = True
                            break
                        seen.add(y)
                        stack.append(y)
            if not found and target is not entry:
                out.append((n, label))
        # None-ness path sensitivity: a branch edge is also a guard when, without it, the target is only
        # reachable through paths that contradict the tracked None-ness of a flag local
        # (`x = None ... if x is not None:` - what an inlined helper's result test looks like)
        if self._null_vars() and target is not entry:
            key = (target, entry, bool(cut_back))
            cache = self.__dict__.setdefault("_gps", {})
            if key not in cache:
                extra = []
                have = {(n, l) for n, l in out}
                for n, m, label in self.branch_edges():
                    if n not in base or (n, label) in have:
                        continue
                    if target not in self.reach_ps(start=entry, cut_edges={(n, m, label)}, cut=cut):
                        extra.append((n, label))
                cache[key] = extra
            out = out + cache[key]
        return out

    def guard_atoms(self, target, entry=None, cut_back=False):
        """Normalised atomic facts known to hold whenever target executes."""
        facts = set()
        consts = getattr(self, "module_consts", None)
        for n, label in self.guards(target, entry, cut_back):
            if n.kind == "test":
                for a in atoms(n.ast, label == "T"):
                    facts.add(a)
                try:
                    ex = self.expand(n.ast, at=n, consts=consts)
                    for a in atoms(ex, label == "T"):
                        facts.add(a)
                except RecursionError:
                    pass
                # a boolean carried in a local: `r = False ... r = <E> ... if r:` (what is left of an inlined
                # predicate with several returns).  Every other binding of r is a falsy constant, so r can only be
                # true through <E>: the facts of <E> hold as well
                for t, pol in list(atoms(n.ast, label == "T")):
                    if pol and t.isidentifier():
                        e = self._truthy_source(t, n)
                        if e is not None:
                            for a in atoms(e, True):
                                facts.add(a)
                            try:
                                for a in atoms(self.expand(e, at=n, consts=consts), True):
                                    facts.add(a)
                            except RecursionError:
                                pass
        return facts

    def _truthy_source(self, name, at):
        """the one non-constant expression that can make local `name` true at test node `at` (all its other
        bindings are falsy constants), provided no suspension point lies between that binding and `at`"""
        args = self.func.args
        if name in {p.arg for p in args.posonlyargs + args.args + args.kwonlyargs}:
            return None
        others = []
        for n in self.nodes:
            a = n.ast
            if a is None:
                continue
            if n.kind == "for" and any(isinstance(x, ast.Name) and x.id == name for x in ast.walk(a.target)):
                return None
            if n.kind != "stmt":
                continue
            if isinstance(a, ast.Assign):
                for t in a.targets:
                    if isinstance(t, ast.Name) and t.id == name:
                        if not (isinstance(a.value, ast.Constant) and not a.value.value):
                            others.append((n, a.value))
                    elif any(isinstance(x, ast.Name) and x.id == name and isinstance(x.ctx, ast.Store) for x in ast.walk(t)):
                        return None
            elif isinstance(a, (ast.AugAssign, ast.AnnAssign)) and isinstance(a.target, ast.Name) and a.target.id == name:
                if isinstance(a, ast.AugAssign) or a.value is None:
                    return None
                if not (isinstance(a.value, ast.Constant) and not a.value.value):
                    others.append((n, a.value))
        if len(others) != 1:
            return None
        d, v = others[0]
        if isinstance(v, ast.Name) or any(isinstance(x, (ast.Await, ast.Yield, ast.NamedExpr)) for x in ast.walk(v)):
            return None
        if d is at or any(m.suspends for m in self.between(d, at)):
            return None
        return v

    # ---- light path sensitivity: None-ness of locals ----------------------------
    def _null_vars(self):
        """flag locals: assigned a falsy constant (None / False / 0 / '') somewhere and tested with
        `is None` / `is not None` or by plain truthiness; copies of flag locals are flags too"""
        if getattr(self, "_nv", None) is None:
            assigned_falsy, tested = set(), set()
            for n in self.nodes:
                a = n.ast
                if n.kind == "stmt" and isinstance(a, (ast.Assign, ast.AnnAssign)) and getattr(a, "value", None) is not None:
                    tg = a.targets if isinstance(a, ast.Assign) else [a.target]
                    if len(tg) == 1 and isinstance(tg[0], ast.Name) and isinstance(a.value, ast.Constant) and not a.value.value:
                        assigned_falsy.add(tg[0].id)
                if n.kind == "test":
                    for t, p in atoms(a, True):
                        if t.endswith(" is None") and t[:-8].isidentifier():
                            tested.add(t[:-8])
                        elif t.isidentifier():
                            tested.add(t)
            tracked = set(assigned_falsy)
            changed = True
            while changed:  # copies of tracked names are tracked too
                changed = False
                for n in self.nodes:
                    a = n.ast
                    if n.kind == "stmt" and isinstance(a, ast.Assign) and len(a.targets) == 1 and isinstance(a.targets[0], ast.Name) \
                            and isinstance(a.value, ast.Name) and a.value.id in tracked and a.targets[0].id not in tracked:
                        tracked.add(a.targets[0].id)
                        changed = True
            self._nv = tracked if tracked & tested else set()
        return self._nv

    @staticmethod
    def _flag_state(v, st, vars_):
        """abstract value of an assigned expression: N None, F falsy constant, X truthy, ? unknown"""
        if isinstance(v, ast.Constant):
            if v.value is None:
                return "N"
            return "X" if v.value else "F"
        if isinstance(v, ast.Name) and v.id in vars_:
            return st[vars_.index(v.id)]
        if isinstance(v, (ast.Tuple, ast.List)):
            return "X" if v.elts else "F"
        if isinstance(v, ast.Dict):
            return "X" if v.keys else "F"
        if isinstance(v, ast.JoinedStr):
            return "?"
        return "?"

    def reach_ps(self, avoid=(), start=None, labels_skip=(), cut_edges=(), cut=()):
        """Nodes reachable from `start` (default entry) without entering `avoid`, on the
        product of the CFG with the abstract value (None / falsy constant / truthy / unknown) of
        the flag locals: branches that contradict the tracked value are infeasible and pruned."""
        vars_ = sorted(self._null_vars())
        avoid = set(avoid)
        start = start or self.entry
        init = tuple("?" for _ in vars_)
        seen = {(start, init)}
        stack = [(start, init)]
        out = {start}
        while stack:
            n, st = stack.pop()
            st2 = st
            a = n.ast
            if vars_ and n.kind == "stmt" and isinstance(a, (ast.Assign, ast.AnnAssign)) and getattr(a, "value", None) is not None:
                lst = list(st)
                for t in (a.targets if isinstance(a, ast.Assign) else [a.target]):
                    for nm in ast.walk(t):
                        if isinstance(nm, ast.Name) and nm.id in vars_:
                            i = vars_.index(nm.id)
                            lst[i] = self._flag_state(a.value, st, vars_) if t is nm else "?"
                st2 = tuple(lst)
            elif vars_ and n.kind in ("stmt", "for") and a is not None and not isinstance(a, (ast.Assign, ast.AnnAssign)):
                # any other binding of a flag local (loop target, augmented assignment, with-as, walrus) forgets it
                lst = list(st)
                tgt = a.target if n.kind == "for" else a
                for nm in ast.walk(tgt):
                    if isinstance(nm, ast.Name) and isinstance(nm.ctx, ast.Store) and nm.id in vars_:
                        lst[vars_.index(nm.id)] = "?"
                st2 = tuple(lst)
            for m, label in self.succ[n]:
                if label in labels_skip or m in avoid or (n, m, label) in cut_edges or (n, m) in cut:
                    continue
                st3 = st2
                if vars_ and n.kind == "test" and label in ("T", "F"):
                    feasible = True
                    lst = list(st2)
                    for t, p in atoms(a, label == "T"):
                        if t.endswith(" is None") and t[:-8] in vars_:
                            i = vars_.index(t[:-8])
                            if p:
                                if lst[i] not in ("N", "?"):
                                    feasible = False
                                lst[i] = "N"
                            elif lst[i] == "N":
                                feasible = False
                        elif t in vars_:
                            i = vars_.index(t)
                            if p:
                                if lst[i] not in ("X", "?"):
                                    feasible = False
                                lst[i] = "X"
                            elif lst[i] == "X":
                                feasible = False
                    if not feasible:
                        continue
                    st3 = tuple(lst)
                if (m, st3) not in seen:
                    seen.add((m, st3))
                    out.add(m)
                    stack.append((m, st3))
        return out

    def dom_ps(self, a, b):
        """a dominates b on all *feasible* paths (None-ness-sensitive)."""
        if a is b:
            return True
        return b not in self.reach_ps(avoid=(a,))

    # ---- local aliases ------------------------------------------------------------
    def single_defs(self):
        """local name -> (def node, value expr) for names bound exactly once by a plain
        assignment in this function (not a loop target, not augmented)."""
        if getattr(self, "_sd", None) is None:
            count, val = {}, {}
            for n in self.nodes:
                a = n.ast
                if a is None:
                    continue
                if n.kind == "for":
                    for nm in ast.walk(a.target):
                        if isinstance(nm, ast.Name):
                            count[nm.id] = count.get(nm.id, 0) + 2
                if n.kind == "stmt":
                    if isinstance(a, ast.Assign):
                        for t in a.targets:
                            if isinstance(t, ast.Name):
                                count[t.id] = count.get(t.id, 0) + 1
                                val[t.id] = (n, a.value)
                            else:
                                for nm in ast.walk(t):
                                    if isinstance(nm, ast.Name) and isinstance(nm.ctx, ast.Store):
                                        count[nm.id] = count.get(nm.id, 0) + 2
                    elif isinstance(a, (ast.AugAssign, ast.AnnAssign)):
                        if isinstance(a.target, ast.Name):
                            count[a.target.id] = count.get(a.target.id, 0) + (1 if isinstance(a, ast.AnnAssign) and a.value is not None else 2)
                            if isinstance(a, ast.AnnAssign) and a.value is not None:
                                val[a.target.id] = (n, a.value)
            args = self.func.args
            params = {p.arg for p in args.posonlyargs + args.args + args.kwonlyargs}
            self._sd = {k: v for k, v in val.items() if count.get(k) == 1 and k not in params}
        return self._sd

    def expand(self, expr, at=None, consts=None, depth=3):
        """Copy of expr with single-definition locals replaced by their defining
        expression (only when no suspension point lies between definition and `at`),
        and module-level literal constants (consts: name -> ast) substituted."""
        import copy as _copy
        sd = self.single_defs()
        cfg = self

        class T(ast.NodeTransformer):
            def visit_Name(self, node):
                if not isinstance(node.ctx, ast.Load):
                    return node
                if node.id in sd and depth > 0:
                    d, v = sd[node.id]
                    if any(isinstance(x, (ast.Await, ast.Yield)) for x in ast.walk(v)):
                        return node
                    if at is not None and d is not at:
                        if not cfg.dom(d, at):
                            return node
                        # a plain copy of another single-definition local stays valid across suspension points
                        pure_copy = isinstance(v, ast.Name) and v.id in sd
                        if not pure_copy and any(m.suspends for m in cfg.between(d, at)):
                            return node
                    return cfg.expand(v, at=at, consts=consts, depth=depth - 1)
                if consts and node.id in consts and isinstance(consts[node.id], (ast.Tuple, ast.List, ast.Constant)):
                    return _copy.deepcopy(consts[node.id])
                return node

        return T().visit(_copy.deepcopy(expr))

    def canon_target(self, node, target):
        """text of an assignment target with a local alias at the base of its attribute chain expanded
        (`c = self._collector; c.n = 0`  ->  `self._collector.n`)"""
        t = ast.parse(ast.unparse(target), mode="eval").body
        try:
            return ast.unparse(self.expand(t, at=node))
        except RecursionError:
            return ast.unparse(target)

    def loop_of(self, node):
        """Innermost loop head whose natural loop contains node (None if not in a loop)."""
        cands = []
        for h in {h for _, h in self.back_edges}:
            body = self.loop_body(h)
            if node in body:
                cands.append((len(body), h.id, h))
        if cands:
            cands.sort()
            return cands[0][2]
        return None

    def loop_body(self, head):
        """Natural loop of `head` (head itself excluded): every node that can reach a
        back-edge source of head without passing through head."""
        body = set()
        for a, h in self.back_edges:
            if h is head:
                if a is not head:
                    body.add(a)
                    body |= self.reach_to(a, avoid=(head,))
        body.discard(head)
        return body

    def iter_guard_atoms(self, target):
        """Facts that hold in the *same iteration* of the innermost enclosing loop."""
        h = self.loop_of(target)
        if h is None:
            return self.guard_atoms(target)
        return self.guard_atoms(target, entry=h, cut_back=True)

    def dump(self):
        lines = []
        for n in self.nodes:
            s = ", ".join(f"{m.id}{'/' + l if l else ''}" for m, l in self.succ[n])
            lines.append(f"{n.id:3} {n.kind:7} L{n.lineno:<4} {'S' if n.suspends else ' '} {n.text()[:60]:60} -> {s}")
        return "\n".join(lines)


# ---------------------------------------------------------------------------
# condition normalisation
# ---------------------------------------------------------------------------

_NEG = {
    ast.Eq: ast.NotEq,
    ast.NotEq: ast.Eq,
    ast.Is: ast.IsNot,
    ast.IsNot: ast.Is,
    ast.In: ast.NotIn,
    ast.NotIn: ast.In,
    ast.Lt: ast.GtE,
    ast.GtE: ast.Lt,
    ast.Gt: ast.LtE,
    ast.LtE: ast.Gt,
}
_POSITIVE = (ast.Eq, ast.Is, ast.In, ast.Lt, ast.LtE)


def atoms(test, polarity=True):
    """Decompose a branch condition known to be `polarity` into atomic facts
    (canonical_text, bool).  `a and b` true -> a true, b true; `a or b` false ->
    a false, b false; `not x` flips; comparisons are canonicalised so that
    `x != y` false == `x == y` true and `x is not None` true == `x is None` false;
    equality operands are sorted."""
    out = []
    if isinstance(test, ast.UnaryOp) and isinstance(test.op, ast.Not):
        return atoms(test.operand, not polarity)
    if isinstance(test, ast.BoolOp):
        if isinstance(test.op, ast.And) and polarity:
            for v in test.values:
                out.extend(atoms(v, True))
            return out
        if isinstance(test.op, ast.Or) and not polarity:
            for v in test.values:
                out.extend(atoms(v, False))
            return out
        # disjunctive knowledge: keep as an opaque atom
        return [(_txt(test), polarity)]
    if isinstance(test, ast.Compare) and len(test.ops) == 1:
        op = type(test.ops[0])
        l, r = test.left, test.comparators[0]
        pol = polarity
        if op not in _POSITIVE and op in _NEG:
            op = _NEG[op]
            pol = not pol
        if op in (ast.Gt,):
            pass
        lt, rt = _txt(l), _txt(r)
        sym = {ast.Eq: "==", ast.Is: "is", ast.In: "in", ast.Lt: "<", ast.LtE: "<="}.get(op)
        if sym is None:
            return [(_txt(test), polarity)]
        if op in (ast.Eq,) and rt < lt:
            lt, rt = rt, lt
        return [(f"{lt} {sym} {rt}", pol)]
    if isinstance(test, ast.Await):
        return [(_txt(test.value), polarity), (_txt(test), polarity)]
    return [(_txt(test), polarity)]


def _txt(e):
    return " ".join(ast.unparse(e).split())


def has_fact(facts, text, polarity=True):
    return (text, polarity) in facts


def facts_matching(facts, pred):
    return [(t, p) for (t, p) in facts if pred(t, p)]


_cache = {}


def cfg_of(fi) -> CFG:
    """CFG of a FuncInfo (memoised per AST node)."""
    k = id(fi.node)
    if k not in _cache:
        try:
            _cache[k] = CFG(fi.node)
        except RecursionError:
            raise AnalysisError(f"CFG construction recursion in {fi.qual}")
        _cache[k].module_consts = getattr(fi.mod, "consts", None)
        _cache[k].fi = fi
    return _cache[k]
