"""Positive controls: tiny fixture trees on which a zero-count rule must fire on every run."""
from .core import VERIF
from .src import Repo


def positive_control(ctx, rule, name, fn):
    name = name[:-3] if name.endswith(".py") else name
    root = VERIF / "fixtures" / name
    if not root.is_dir():
        ctx.error(f"{ctx.pid}.{rule}: positive-control fixture {name} missing")
        return
    try:
        hits = fn(Repo(root))
    except Exception as e:  # noqa
        ctx.error(f"{ctx.pid}.{rule}: positive control {name} crashed: {e}")
        return
    if not hits:
        ctx.error(f"{ctx.pid}.{rule}: positive control {name} did not fire (rule is vacuous)")
    else:
        ctx.count(f"{ctx.pid}.{rule}:positive_control_hits", len(hits))
