"""Regular expressions applied to byte strings with an unknown-length payload (vlib.symbytes).

The result is the one that holds FOR EVERY value of the payload, or - where the payload decides the outcome -
the adversarial one (the rules that use symbolic payloads state obligations "for any payload", so a payload for
which the match fails or is cut short refutes them):

  pattern shape supported:   LIT_A ( .* | .*? | .+ | .+? ) LIT_B     (either literal may be empty)
  subject shape supported:   concrete prefix + one payload + concrete suffix

  no DOTALL                  -> no match   (the payload may contain a newline byte)
  lazy group, search/match   -> group is the payload cut at the first LIT_B inside it (named  <payload>~cut)
  otherwise                  -> group(1) = everything between LIT_A and the last LIT_B

Anything else raises Undecided (the caller reports an analysis error, never a verdict).
"""
from __future__ import annotations

import re
import re._parser as sre

from .absint import Native, Undecided
from .symbytes import Blob, SymBytes


class SymMatch:
    def __init__(self, groups):
        self._groups = groups

    def interp_getattr(self, attr):
        if attr == "group":
            def group(a, k):
                if not a:
                    raise Undecided("match.group() of a symbolic match")
                if len(a) == 1:
                    return self._one(a[0])
                return tuple(self._one(i) for i in a)
            return Native(group, "group")
        if attr == "groups":
            return Native(lambda a, k: tuple(self._groups), "groups")
        raise Undecided(f"match.{attr} of a symbolic match")

    def _one(self, i):
        if not isinstance(i, int) or not 1 <= i <= len(self._groups):
            raise Undecided(f"match.group({i!r}) of a symbolic match")
        return self._groups[i - 1]

    def __getitem__(self, i):
        return self._one(i)

    def __bool__(self):
        return True


def _skeleton(pat):
    p = pat.pattern
    if isinstance(p, bytes):
        p = p.decode("latin1")
    tree = sre.parse(p, pat.flags & ~re.UNICODE if isinstance(pat.pattern, bytes) else pat.flags)
    seq, lit = [], bytearray()
    for op, av in tree:
        if str(op) == "LITERAL":
            lit.append(av)
            continue
        seq.append(("lit", bytes(lit)))
        lit = bytearray()
        if str(op) != "SUBPATTERN":
            raise Undecided(f"regex construct {op} on a symbolic payload")
        inner = av[3]
        if len(inner) != 1 or str(inner[0][0]) not in ("MAX_REPEAT", "MIN_REPEAT"):
            raise Undecided("regex group that is not a repeat, on a symbolic payload")
        lo, hi, body = inner[0][1]
        if len(body) != 1 or str(body[0][0]) != "ANY" or str(hi) != "MAXREPEAT":
            raise Undecided("regex group that is not .* / .+, on a symbolic payload")
        seq.append(("group", str(inner[0][0]) == "MIN_REPEAT", lo))
    seq.append(("lit", bytes(lit)))
    kinds = [s[0] for s in seq]
    if kinds != ["lit", "group", "lit"]:
        if len(kinds) > 3 and kinds == ["lit", "group"] * (len(kinds) // 2) + ["lit"]:
            raise _Multi(seq)
        raise Undecided(f"regex skeleton {kinds} on a symbolic payload (supported: literal, (group, literal)+)")
    return seq[0][1], seq[1][1], seq[1][2], seq[2][1]


class _Multi(Exception):
    def __init__(self, seq):
        self.seq = seq


def _sym_match_multi(pat, how, cells, seq):
    """LIT0 (g1) LIT1 (g2) ... (gn) LITn on  C0 B1 C1 B2 ... Bn Cn  (one payload per group).  The payloads of all
    groups but the last are taken to be free of the literals (identifiers); the last one is arbitrary:
      no DOTALL                         -> no match (a payload may contain a newline byte)
      greedy group before the last      -> adversarial: it overruns into a later payload that contains its closing
                                           literal  (<payload>~overrun)
      lazy last group, search / match   -> adversarial: cut at the closing literal inside the payload (<payload>~cut)"""
    lits = [x[1] for x in seq if x[0] == "lit"]
    groups = [x for x in seq if x[0] == "group"]
    if any(not isinstance(c, (int, Blob)) for c in cells):
        raise Undecided("regex on a byte string with symbolic single bytes")
    segs, blobs, cur = [], [], bytearray()
    for c in cells:
        if isinstance(c, Blob):
            segs.append(bytes(cur))
            cur = bytearray()
            blobs.append(c)
        else:
            cur.append(c)
    segs.append(bytes(cur))
    if len(blobs) != len(groups):
        raise Undecided(f"regex with {len(groups)} groups on a byte string with {len(blobs)} payloads")
    # opening literal
    if how == "search":
        i = segs[0].find(lits[0])
        if i < 0:
            raise Undecided("regex search whose opening literal is not in the concrete prefix")
    else:
        if not segs[0].startswith(lits[0]):
            return None
        i = 0
    head = segs[0][i + len(lits[0]):]
    if not pat.flags & re.DOTALL:
        return None
    out = []
    n = len(groups)
    for gi in range(n):
        _g, lazy, _lo = groups[gi]
        seg, lit = segs[gi + 1], lits[gi + 1]
        last = gi == n - 1
        if not last:
            j = seg.find(lit)
            if j < 0:
                return None   # the closing literal of this group is not where the frame has it
            if not lazy:
                out.append(SymBytes(list(head) + [Blob(blobs[gi].name + "~overrun")]))
            else:
                out.append(SymBytes(list(head) + [blobs[gi]] + list(seg[:j])))
            head = seg[j + len(lit):]
        else:
            if how == "fullmatch":
                if not seg.endswith(lit):
                    return None
                j = len(seg) - len(lit)
            else:
                j = seg.rfind(lit)
                if j < 0:
                    return None
            if lazy and how != "fullmatch" and lit:
                out.append(SymBytes(list(head) + [Blob(blobs[gi].name + "~cut")]))
            else:
                out.append(SymBytes(list(head) + [blobs[gi]] + list(seg[:j])))
    return SymMatch(out)


def sym_match(pat, how, subject):
    if how not in ("search", "match", "fullmatch"):
        raise Undecided(f"pattern.{how} on a symbolic payload")
    cells = subject.cells
    try:
        lit_a, lazy, lo, lit_b = _skeleton(pat)
    except _Multi as m:
        return _sym_match_multi(pat, how, cells, m.seq)
    if how != "search":
        k = 0
        while k < len(cells) and isinstance(cells[k], int):
            k += 1
        k = min(k, len(lit_a))
        if bytes(cells[:k]) != lit_a[:k] or (k == len(cells) and k < len(lit_a)):
            return None  # the concrete head already differs from the opening literal, whatever follows
    bi = [k for k, c in enumerate(cells) if isinstance(c, Blob)]
    if len(bi) != 1 or any(not isinstance(c, (int, Blob)) for c in cells):
        raise Undecided("regex on a byte string that is not prefix + one payload + suffix")
    P, B, S = bytes(cells[:bi[0]]), cells[bi[0]], bytes(cells[bi[0] + 1:])
    # ---- where LIT_A matches
    if how == "search":
        i = P.find(lit_a)
        if i < 0:
            raise Undecided("regex search whose opening literal is not in the concrete prefix")
    else:
        if not P.startswith(lit_a):
            if len(P) >= len(lit_a):
                return None
            raise Undecided("regex match whose opening literal reaches into the payload")
        i = 0
    head = P[i + len(lit_a):]
    # ---- where LIT_B matches
    if how == "fullmatch":
        if not S.endswith(lit_b):
            if len(S) >= len(lit_b):
                return None
            raise Undecided("regex fullmatch whose closing literal reaches into the payload")
        j = len(S) - len(lit_b)
    else:
        j = S.rfind(lit_b)
        if j < 0:
            raise Undecided("regex whose closing literal is not in the concrete suffix")
    if not pat.flags & re.DOTALL:
        return None  # adversarial: the payload contains a newline byte
    if lazy and how != "fullmatch" and lit_b:
        return SymMatch([SymBytes(list(head) + [Blob(B.name + "~cut")])])  # adversarial: LIT_B occurs inside the payload
    return SymMatch([SymBytes(list(head) + [B] + list(S[:j]))])
