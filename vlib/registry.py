"""Which properties are claimed, with what technique/level; and the not-applicable list.
MANIFEST.json is generated from this file by tools/gen_manifest.py."""

HOOK_COMMITS = []

PENDING = "check not built yet in this round (see DESIGN.md section 4 for the planned static rules); not claimed until it runs"

CLAIMED = {
    "C18": {
        "technique": "AST table extraction + constant folding of accessor constructors; exhaustive scan of all modules/items; item-by-item layout pin",
        "level": "Exhaustive static scan of every shipped table module and item (finite configuration space): addressability, bit-field fit, label capacity, advertised keys, naming, FILES-reply name resolution for all 895 combinations, and an item-by-item comparison with the layout pinned at 236b7b1. Geometry is folded from /repo's own accessor constructors, so a change of the constructor ladder changes what is checked.",
        "note": "Trusted: CPython ast; the pin file baseline/pack_layout.json.gz generated once from git objects of 236b7b1; assumption that a spa reports GeckoPack.name as its platform key. Known findings: 3 generated-table defects (known_findings.txt).",
    },
}

NOT_APPLICABLE = {f"C{n:02d}": PENDING for n in range(1, 21) if f"C{n:02d}" not in CLAIMED}
