"""Which properties are claimed, with what technique/level; and the not-applicable list.
MANIFEST.json is generated from this file by tools/gen_manifest.py."""

HOOK_COMMITS = []

PENDING = "check not built yet in this round (see DESIGN.md section 4 for the planned static rules); not claimed until it runs"

CLAIMED = {
    "C18": {
        "technique": "AST table extraction + constant folding of accessor constructors; exhaustive scan of all modules/items; item-by-item layout pin; symbolic string templates of the module lookups; refresh-window coverage evaluated for every shipped log table",
        "level": "Exhaustive static scan of every shipped table module and item (finite configuration space): addressability, bit-field fit, label capacity, advertised keys, naming, FILES-reply name resolution for all 895 combinations, and an item-by-item comparison with the layout pinned at 236b7b1. Geometry is folded from /repo's own accessor constructors, so a change of the constructor ladder changes what is checked.",
        "note": "Trusted: CPython ast; the pin file baseline/pack_layout.json.gz generated once from git objects of 236b7b1; assumption that a spa reports GeckoPack.name as its platform key. Known findings: 3 generated-table defects (known_findings.txt).",
    },
    "C16": {
        "technique": "value-set fixpoint of the counter function by abstract interpretation (exhaustive over all 12 480 reachable states x both kinds); lock-scope and call-site provenance rules over the AST",
        "level": "Every reachable counter state of both implementations is enumerated by interpreting get_and_increment_sequence_counter from /repo's source (finite space, exhaustive): ranges 1..191 / 192..255, never 0, successor law on every transition under every interleaving of the two kinds. Lock scope of every counter access in the threaded socket; kind (True/False) of every draw site matched to the builder that consumes it.",
        "note": "Trusted: vlib.absint on a 10-line integer function; threading.Lock gives mutual exclusion. Real thread schedules inside CPython are not explored (lock semantics assumed).",
    },
    "C07": {
        "technique": "CFG path rule: no suspension point between queue-head read, can_handle test and pop (edge-dominance guards + between-set); who-may-pop/mark layering; mark-protocol typestate; guard of the re-queue",
        "level": "Structural necessary conditions decided on every path: at each of the pop sites the popped datagram is the inspected one and check-then-act is atomic under cooperative scheduling; only the three consumers remove from a protocol queue; the discard consumer pops only what stayed marked across a yield; packet content is re-queued only under the identifier-pair comparison; all consumers are started and yield every iteration. Decides these clauses, not the head-of-line time bound.",
        "note": "Assumes asyncio interleaves tasks only at await and asyncio.Queue is FIFO. NOT decided: the 'few polling intervals' bound under arbitrary wake-up orders (schedule/timing dependent).",
    },
    "C10": {
        "technique": "acquire/release pairing over the CFG with exceptional edges at every await (crash points); task-key pairing over the resolved call graph; cancellation-handler re-raise rule; no-timed-wait-in-finally rule; task registry interpreted on model tasks (domain isolation for every key pair, nothing forgotten, gather, tidy)",
        "level": "For every await between opening and closing an endpoint the close is reached on the exceptional edge too; every endpoint attribute is closed before it is dropped; every add_task key has a cancel reachable from reset/exit; handlers that can catch CancelledError re-raise on all paths; no timed wait sits in a finally of a task coroutine; observers are detached in disconnect. Three genuine defects found by these rules were repaired (fix: commits).",
        "note": "NOT decided: late effects through references invisible to the analysis (e.g. a client keeping an accessor), promptness in seconds. Clean-up statements inside a finally are assumed not to raise.",
    },
    "C01": {
        "technique": "CFG edge-dominance guards of the install/append sites, reaching re-initialisation per attempt, loop-variant rule; residue-indexed affine abstract domain for the simulator's segment-chain modulus; exhaustive small-model interpretation of the simulator's segment chain (all 1024 lengths x 4 starts); counted retry() on a handler model",
        "level": "Assembly discipline of both structure classes decided on every path: install only under (delivered, in-sequence, final segment); append only in sequence; success only after install, failure never after; fresh accumulators before every (re)send; bounded attempts. The simulator's chain arithmetic is decided for EVERY length by evaluating modulus and segment count symbolically per residue mod 39 (found and repaired the L%39==0 defect).",
        "note": "NOT decided: success/failure under concrete loss, duplication, re-order and delay patterns (fault sequences are runtime); delayed segments of an earlier transfer accepted by a later one. STATU/STATV byte layouts are C04's.",
    },
    "C05": {
        "technique": "dominance of the per-message reset over the decode loop; post-dominance of clear-after-apply; loop-shape rules for in-order, unconditional application; single-acknowledgement path rule with provenance of the sequence byte; symbolic STATP decode order through /repo's own builder; flag-idiom tolerant pairing rule for the consume loop",
        "level": "Structural necessary conditions on both stacks: changes list reset per STATP (async) / cleared after apply on every normal path (sync); apply loops iterate front-to-back, unconditionally, once per element; exactly one STATQ ack per STATP, not for STATQ, protocol-range counter, addressed to sender.",
        "note": "NOT decided: interleavings of partial updates with refreshes over arbitrary histories; an observer raising inside the sync apply loop (skips the for-else clear).",
    },
    "C06": {
        "technique": "loop-variant rule + one-send-per-iteration path rule on the retry loop; lexical lock-scope rule for every wait/send site in the async stack; who-may-send layering; iteration-guard (edge-dominance) rule for the connected/ping gates; guard rule for the timeout restart (only on the own reply)",
        "level": "Decides: retry loop strictly bounded by retry_count with a freshly built request and exactly one send per attempt; a reply is returned only on the delivered edge; every wait_for_response and request send is inside `async with protocol.Lock`; only queue_send touches the transport; all 6 command/query methods are gated by is_connected and is_responding_to_pings.",
        "note": "NOT decided (runtime quantities): the N x (timeout+pause) time bound, FIFO service order of asyncio.Lock, starvation/stalls. asyncio.Lock FIFO hand-over and cooperative scheduling are assumed.",
    },
    "C02": {
        "technique": "bit-provenance abstract interpretation (per-bit Boolean functions of old[..]/new[..] symbols) of /repo's writer and reader code, once per geometry shape of the shipped tables; symbolic byte strings for the device-write encoders; post-dominance rule for the structures' write-through to the device callback",
        "level": "For every one of the 78 (type,width,bitpos,mask,writability) shapes occurring in the 20 505 shipped items, with SYMBOLIC field contents and SYMBOLIC new value: bits outside the item's field keep their provenance, field bits carry the new value, nothing overflows the field, (pos,length) are the item's; reading back the big-endian device write yields the value; read-only items refuse; sync and async writers emit identical writes; numeric/boolean string forms convert. One evaluation covers all block contents and all values.",
        "note": "Trusted: vlib.absint BV domain; protocol assumption that the spa applies SPACK writes big-endian. NOT decided: Time 'HH:MM' and temperature float round trips as values (opaque arithmetic; affine part under C14).",
    },
    "C03": {
        "technique": "dominance/loop-shape rules on replace_status_block_segment and status_block_changed; def-use provenance of the compared values; Order-domain enumeration of the intersection filter; who-may-write rule for the observer list; small-model interpretation of the Observable discipline (observers with bound-method identity)",
        "level": "Decides structurally: swap happens before any notification, each accessor is notified exactly once per update with (offset,len,previous), the notify decision compares decoded old (from the previous block) and decoded new through the same decoder and fires _on_change(self,old,new) exactly when they differ; the byte-range filter never drops an overlapping update (all orderings of the end points); watch de-duplicates, unwatch/unwatch_all remove, each live observer is called once.",
        "note": "NOT decided: raising or re-entrant observers; ordering between accessors; histories of watch/unwatch interleaved with updates beyond the list discipline.",
    },
    "C04": {
        "technique": "symbolic round trip: /repo's builders interpreted with symbolic fields -> symbolic byte string -> /repo's can_handle of every class (exclusivity) and its decoder, decoded attributes compared bit-for-bit; regex-AST inspection of the framing pattern; split-arity rule; constant folding of the codec; exhaustive FILES-name resolution",
        "level": "For each of the 29 message builders the encoder/decoder layout agreement is decided for ALL field values at once (formats, offsets, byte order, signedness, payload slices, record loops), acceptance by exactly the own handler class, reply-addressing orientation (SRCCN/DESCN swap), unambiguity conditions of the framing regex, HELLO/FILES text parts (FILES: all 895 shipped platform x cfg x log names), latin-1 codec at every encode/decode site. Two genuine defects repaired (fix: commits), two recorded (SETWC/WCREQ accepted by no handler).",
        "note": "Trusted: vlib.symbytes model of struct.pack/unpack, re._parser. NOT decided: truncated/malformed datagrams, out-of-range field values, identifiers containing framing tags.",
    },
    "C08": {
        "technique": "lifecycle relation extracted from the event switch via CFG guard atoms; invariant rules on every extracted row (single-site, guard, dominance, atomic test-and-set); inter-procedural may-raise analysis over the call graph for facade-exists-at-teardown; nullness dataflow for the reset post-condition; interpretation of to_string",
        "level": "Invariants of the statement checked on every edge of the relation extracted from today's source: CONNECTED only at the single CONNECTION_FINISHED site with a facade built under SPA_READY after a complete connect; READY announced exactly there; every TEARDOWN is an atomic test-and-set on CONNECTED; no teardown trigger after the facade was dropped (defect found and repaired); STARTED/FINISHED bracketed by try/finally; reset post-condition on every normal path; status sensor updated after the switch and before the client callback; to_string total and injective on the named states.",
        "note": "NOT decided: closure of the reachable (state, facade, spa, descriptors, sensors) set under events raised concurrently from different tasks - that needs a model checker (other family).",
    },
    "C09": {
        "technique": "structural necessary conditions only: exception-containment rule on the reconnect driver's loop, link-by-link recovery-chain rule on the extracted lifecycle relation and the driver's trigger guards, guard rule on the ping loop's no-response raise; isolation matrix of the interpreted task registry for the driver's key",
        "level": "Decides three necessary conditions and nothing temporal: (R1) the reconnect driver cannot be terminated by an exception [today violated - 2 known findings, reproduced]; (R2) each error state has a recovery edge and reset/locate/connect triggers line up [ERROR_SPA_NOT_FOUND has none - known finding]; (R3) an unanswered spa is reported from CONNECTED. Breaking any of them breaks self-healing; holding them does not prove it.",
        "note": "NOT decided - and not decidable by a static argument in reach: that recovery happens, within which bounded (virtual) time, after which fault scripts, and that the facade's values mirror the spa afterwards. Those clauses are the headline of the property and remain unverified here.",
    },
    "C11": {
        "technique": "guarded-subscript / definite-assignment analysis of the construction path (CFG guard atoms) giving the set of required item keys, joined exhaustively with the key sets of all 895 platform x cfg x log combinations; value-set interpretation of the label/reminder/watercare renderings over every byte; wire decoder composed with the facade's Reminder members by interpretation",
        "level": "Exhaustive over configurations: which items must exist for the facade to be constructed and its read-only members to evaluate is derived from the code (unguarded accessors[...] subscripts, attributes assigned only under `key in accessors`, None-able members of iterated device lists) and joined with every shipped combination - reproducing exactly the 18 combinations (9 table modules, recorded as known findings) that cannot be built. Label lookups, reminder type bytes 0..255 and watercare bytes 0..255 are evaluated exhaustively (one defect repaired).",
        "note": "NOT decided: exception freedom of every member for arbitrary 1024-byte block contents beyond missing items, label lookups, reminder types and the watercare byte.",
    },
    "C12": {
        "technique": "shape rules on the scan pipeline (order-preserving constructs only, stage contents), normalised-AST sibling comparison of the two scans, exhaustive table join for device state keys, constant folding of the automation key set; small-model interpretation of both device scans on model wirings against the statement (adversarial set order); class-body evaluation of the device table; table completeness rule",
        "level": "Decides: the scan keeps table order (no set/sorted/reversed; order-preserving de-dup - defect in the blocking facade repaired), both scans identical after normalisation, each device list builds the class its filter names with the matched demand, DEVICES[d][2] exists for all wirings of all 895 combinations, all automation keys pairwise distinct, unique_id = parent-key, get_device/devices agree on one list.",
        "note": "The stage rules read comprehensions only; a rewrite as explicit loops is reported as ANALYSIS-ERROR (unsupported idiom), not as a violation. NOT decided: exactness of prefix matching for label sets never shipped.",
    },
    "C13": {
        "technique": "CFG guard/exclusivity rules on the four switch methods; normalised-AST sibling comparison (await/async_ forms identified) of every sync/async command pair; argument-provenance rules for the SPACK builders; small-model interpretation of switch/pump/heater commands on a model spa (exhaustive over state x keypad x item type); C16's counter fixpoint borrowed for the command range",
        "level": "Decides: on/off commands are suppressed exactly by the already-on/off test, exactly one of {keypad press, direct write} is emitted per remaining path with the device's own keypad code / accessor and the right constant; blocking and awaitable command methods are identical modulo await; pump/heater/unit commands write the intended item; SPACK commands carry the connected pack's type and versions, the accessor's pos/length/value unchanged and a command-range sequence; watercare set sends once then updates locally.",
        "note": "NOT decided: the closed loop with a responding spa (the write applied, echoed, and read back by the client) - that is the composition of C02, C04 and C05, each decided separately.",
    },
    "C14": {
        "technique": "abstract interpretation in an exact affine domain (a*x+b over Fraction) of the temperature reader and both writers with a symbolic value; interpretation of unit/limit members per unit value; truth-table enumeration of the operation ladder; heaters and temperature accessors built by /repo's constructors in the interpreter: unit switched without notification (live unit), operation ladder with/without flag items; post-dominance rule for the heater setters",
        "level": "Decides for a SYMBOLIC raw word / temperature: reader = raw/18 (C) and (raw+320)/10 (F), each writer is the exact rational inverse of the reader with positive slope and int truncation, sync = async; symbol and limits follow the unit and denote the same temperatures; current_operation equals the stated decision on all 27 flag/ordering combinations.",
        "note": "NOT decided: IEEE-754 exactness of the read-back for all 65 536 words and the 'within one device step' bound for non-representable values (numerical properties of float arithmetic; outside static reach here).",
    },
    "C15": {
        "technique": "CFG guard/dominance rules on the discovery callback (de-dup, filter, paired appends, found flag) and on the wait loop (bound, early exits, yield); acquire/release pairing with exceptional edges for the clean-up; exhaustive decision table of the wait loop by interpretation (16 valuations of 4 predicates); roles instead of private names",
        "level": "Decides structurally: a reply is listed only if its identifier was not seen and (when one was requested) equals the requested identifier; identifier and descriptor lists stay in step; the found flag is raised only after listing and only for filtered runs; the wait loop is bounded by the discovery timeout with exactly the two stated early exits and yields every iteration; transport and helper tasks are released on every exit incl. cancellation (defect repaired under C10).",
        "note": "NOT decided: return times relative to the configured waits (clock); behaviour for identifiers that are not valid latin-1.",
    },
    "C17": {
        "technique": "set comparison of the three configuration tables (class-body constants); shape/dominance rules on set_config_mode and config_sleep; who-sleeps-how rule over every sleep/wait call site; guard rule on the active-mode flag; exhaustive small-model decision of the configuration mode over on/off valuations of pumps and blowers",
        "level": "Decides: active and idle tables define exactly the base members, CONFIG_MEMBERS is computed from the base, the switch copies every member unconditionally from one freshly built table without suspending and wakes sleepers only after the copy; config_sleep waits on the shared future with exactly the requested timeout and renews it when done; no configuration-valued delay uses a plain sleep; active mode = some pump or blower is on.",
        "note": "NOT decided: wake-up latency and over-sleep as measured time (asyncio.wait semantics assumed).",
    },
    "C19": {
        "technique": "skeleton alignment of the shell's log-line templates (f-strings with the spa's format templates inlined) against the regex ASTs of the snapshot reader; shape rules on the block dump writer/reader; regexes extracted from source applied to the shipped snapshot files (data check); symbolic string templates of the simulator's module lookup; memoisation/invalidation rule for the header writer",
        "level": "Narrow, as stated: the five version lines and the header the shell writes are read back by the reader's regex table (literal skeletons align, integer holes land in \\d+ groups); the hex-list dump and its parser agree; traffic-log segments go through the real STATV decoder; all 34 shipped snapshots name existing platform/cfg/log modules and carry full 1024-byte blocks.",
        "note": "NOT decided: byte-exact round trip of arbitrary blocks and version tuples through repr/hex/str/re (value-level), and re-assembly of arbitrary segmentations of a traffic log; regex features outside the literal/group/whitespace fragment give ANALYSIS-ERROR, not a verdict.",
    },
    "C20": {
        "technique": "who-may-write + lock-scope rules on the send queue; guard/dominance rules on throttle, first-match selection and retry life-cycle; exception-containment rule; sibling cross-check of response branches over the request-capable handler classes; callback-chain rule for the handshake; small-model interpretation of the threaded engine (FIFO, throttle, first match, isolation) and of the handler life-cycle (retry/loop/clean-up) with a set clock; C01's sync-assembly obligations borrowed",
        "level": "Structural necessary conditions of the blocking stack: single tail-append producer and head-pop consumer under the lock; throttle test dominates the one sendto per pass; first accepting handler wins with immediate break, handle then handled on it only, exceptions contained; retry decrements once, refuses at 0, failure handler only after refusal, flagged handlers removed; every request-capable handler flags itself on its response; the handshake chain registers and queues each step's request.",
        "note": "NOT decided: pacing in seconds, real thread schedules, 'exactly N retransmissions' as counted events, handshake completion under loss patterns (runtime).",
    },
}

NOT_APPLICABLE = {f"C{n:02d}": PENDING for n in range(1, 21) if f"C{n:02d}" not in CLAIMED}
# every property has at least one structural clause that is decided statically; the clauses that are
# NOT decided are listed per check in level_note and in DESIGN.md section 6.
