"""May-call graph over resolved callees (light-weight receiver inference).

Resolution: `self.m()` via the MRO of the enclosing class (plus overrides in
subclasses); `self.<attr>.m()` / `<param>.m()` via annotations and constructor
assignments when known; otherwise every repository class defining `m` (may-call).
Callbacks passed as arguments (`add_task(self.f())`, `on_handled=self.f`,
`async_on_handled=...`, `watch(self.f)`) are edges too.
"""
from __future__ import annotations

import ast

from .src import Repo, walk_no_nested, call_name

# method names so generic that name-based resolution would be noise
GENERIC = {"append", "get", "items", "values", "keys", "format", "join", "encode", "decode",
           "split", "lower", "upper", "startswith", "endswith", "replace", "index", "pop",
           "clear", "remove", "update", "close", "set", "wait", "start", "cancel", "done",
           "debug", "info", "warning", "error", "exception", "sleep", "__init__"}


class CallGraph:
    def __init__(self, repo: Repo):
        self.repo = repo
        self.funcs = list(repo.all_functions())
        self.by_qual = {}
        for f in self.funcs:
            self.by_qual.setdefault(f.qual, f)
        self._edges = {}
        self._attr_types = None

    def attr_types(self):
        """(class short, attr) -> set of class shorts, from `self.x = Cls(...)`,
        `self.x: Optional[Cls]`, and parameter annotations stored to self."""
        if self._attr_types is None:
            t = {}
            classes = self.repo.classes()
            for f in self.funcs:
                if f.cls is None:
                    continue
                ann = {}
                for a in f.node.args.args:
                    if a.annotation is not None:
                        ann[a.arg] = self._ann_classes(a.annotation)
                for n in walk_no_nested(f.node):
                    tgt, val, annot = None, None, None
                    if isinstance(n, ast.Assign) and len(n.targets) == 1:
                        tgt, val = n.targets[0], n.value
                    elif isinstance(n, ast.AnnAssign):
                        tgt, val, annot = n.target, n.value, n.annotation
                    if not (isinstance(tgt, ast.Attribute) and isinstance(tgt.value, ast.Name) and tgt.value.id == "self"):
                        continue
                    key = (f.cls.short, tgt.attr)
                    s = t.setdefault(key, set())
                    if annot is not None:
                        s |= self._ann_classes(annot)
                    if isinstance(val, ast.Call):
                        nm = call_name(val)
                        if nm in classes:
                            s.add(nm)
                    if isinstance(val, ast.Name) and val.id in ann:
                        s |= ann[val.id]
            self._attr_types = t
        return self._attr_types

    def _ann_classes(self, annot):
        out = set()
        classes = self.repo.classes()
        for n in ast.walk(annot):
            if isinstance(n, ast.Name) and n.id in classes:
                out.add(n.id)
            if isinstance(n, ast.Attribute) and n.attr in classes:
                out.add(n.attr)
            if isinstance(n, ast.Constant) and isinstance(n.value, str) and n.value in classes:
                out.add(n.value)
        return out

    def resolve(self, fi, call: ast.Call):
        """-> list of FuncInfo that this call may invoke."""
        f = call.func
        repo = self.repo
        out = []
        if isinstance(f, ast.Name):
            # module-level function or class constructor
            if f.id in fi.mod.functions:
                out.append(fi.mod.functions[f.id])
            elif f.id in fi.mod.imports:
                tgt = repo._import_target(fi.mod, f.id)
                if tgt and tgt[1] is not None and tgt[1] in tgt[0].functions:
                    out.append(tgt[0].functions[tgt[1]])
            cs = repo.classes().get(f.id, [])
            if len(cs) == 1:
                m = repo.method(f.id, "__init__", required=False)
                if m:
                    out.append(m)
            return out
        if not isinstance(f, ast.Attribute):
            return out
        name = f.attr
        recv = f.value
        # self.m()
        if isinstance(recv, ast.Name) and recv.id == "self" and fi.cls is not None:
            for k in repo.mro(fi.cls):
                if name in k.methods:
                    out.append(k.methods[name])
                    break
            for sub in repo.subclasses(fi.cls.short):
                if name in sub.methods:
                    out.append(sub.methods[name])
            return out
        # super().m()
        if isinstance(recv, ast.Call) and isinstance(recv.func, ast.Name) and recv.func.id == "super" and fi.cls is not None:
            for k in repo.mro(fi.cls)[1:]:
                if name in k.methods:
                    return [k.methods[name]]
            return out
        # module.f()  (`from . import helpers` ... helpers.f())
        if isinstance(recv, ast.Name) and recv.id in fi.mod.imports and recv.id not in repo.classes():
            tgt = repo._import_target(fi.mod, recv.id)
            if tgt and tgt[1] is None:
                if name in tgt[0].functions:
                    return [tgt[0].functions[name]]
                if name in tgt[0].classes:
                    m = repo.method(name, "__init__", required=False)
                    return [m] if m else []
        # Cls.m()
        if isinstance(recv, ast.Name) and recv.id in repo.classes() and len(repo.classes()[recv.id]) == 1:
            m = repo.method(recv.id, name, required=False)
            return [m] if m else []
        # self.attr.m()
        types = set()
        if isinstance(recv, ast.Attribute) and isinstance(recv.value, ast.Name) and recv.value.id == "self" and fi.cls is not None:
            for k in repo.mro(fi.cls):
                types |= self.attr_types().get((k.short, recv.attr), set())
        # param.m()
        if isinstance(recv, ast.Name):
            for a in fi.node.args.args:
                if a.arg == recv.id and a.annotation is not None:
                    types |= self._ann_classes(a.annotation)
        if types:
            for t in types:
                m = repo.method(t, name, required=False)
                if m:
                    out.append(m)
                for sub in repo.subclasses(t):
                    if name in sub.methods:
                        out.append(sub.methods[name])
            if out:
                return out
        if name in GENERIC:
            return out
        for c in repo.definers(name):
            out.append(c.methods[name])
        return out

    def callees(self, fi):
        k = id(fi.node)
        if k in self._edges:
            return self._edges[k]
        out = []
        seen = set()

        def add(f2):
            if id(f2.node) not in seen:
                seen.add(id(f2.node))
                out.append(f2)

        for n in ast.walk(fi.node):  # nested lambdas included: they run on behalf of fi
            if isinstance(n, ast.Call):
                for f2 in self.resolve(fi, n):
                    add(f2)
                # callbacks: bound methods passed as arguments / keywords
                for a in list(n.args) + [kw.value for kw in n.keywords]:
                    if isinstance(a, ast.Attribute) and isinstance(a.value, ast.Name) and a.value.id == "self" and fi.cls is not None:
                        for kcls in self.repo.mro(fi.cls):
                            if a.attr in kcls.methods and not kcls.methods[a.attr].is_property:
                                add(kcls.methods[a.attr])
                                break
            elif isinstance(n, ast.Attribute) and isinstance(n.value, ast.Name) and n.value.id == "self" and fi.cls is not None:
                # property reads are calls
                for kcls in self.repo.mro(fi.cls):
                    if n.attr in kcls.methods:
                        if kcls.methods[n.attr].is_property:
                            add(kcls.methods[n.attr])
                        elif isinstance(n.ctx, ast.Load) and n.attr.startswith("_") and not n.attr.startswith("__"):
                            add(kcls.methods[n.attr])   # a private method bound to a local (`step = self._step`) is called through it
                        break
        self._edges[k] = out
        return out

    def reachable(self, roots, max_depth=12):
        seen = {}
        frontier = [(r, 0, None) for r in roots]
        while frontier:
            f, d, parent = frontier.pop()
            if id(f.node) in seen:
                continue
            seen[id(f.node)] = (f, parent)
            if d >= max_depth:
                continue
            for g in self.callees(f):
                if id(g.node) not in seen:
                    frontier.append((g, d + 1, f))
        return seen

    def path_to(self, seen, target):
        out = []
        cur = target
        while cur is not None:
            out.append(cur.qual)
            cur = seen[id(cur.node)][1]
        return list(reversed(out))


_cg = {}


def callgraph(repo):
    k = str(repo.root)
    if k not in _cg:
        _cg[k] = CallGraph(repo)
    return _cg[k]
