"""C03 - change notifications fire exactly once, iff the decoded value changed.

R1 swap-before-notify; R2 one notification call per accessor; R3 decision on decoded
values from one decoder, exactly one _on_change; R4 intersection filter exact (Order
domain: all orderings of the four end points); R5 observer list discipline.
NOT decided: raising / re-entrant observers; ordering between different accessors.
"""
from __future__ import annotations

import ast
import itertools

from ..absint import Interp, Native, Obj, PyRaise, Undecided
from ..cfg import cfg_of
from ..core import AnalysisError
from ..facts import STRUCT_CLASSES, block_attr, loc
from ..pathrules import assigns_attr, assigns_to, calls_named
from ..src import Repo, call_name, receiver, walk_no_nested


class _Reached(Exception):
    pass


def swap_then_notify(ctx, repo, cname):
    """R1 / R2 by interpretation (witness scenarios): the structure is built by its constructor, given three model
    accessors that record, at the moment they are notified, their arguments AND the block the structure holds then;
    replace_status_block_segment is interpreted for patches at the start, in the middle, at the very end, of one byte and
    of the whole block.  The statement-shape rules that used to decide this alarmed on equivalent rewrites (splice and
    notification loop moved into shared module-level helpers) and were retired."""
    from ..absint import ClassRef, Interp, Native, Obj, Opaque, PyRaise, Undecided
    fi = repo.method(cname, "replace_status_block_segment")
    key = fi.qual
    ctx.ob("R1", f"{key}::synchronous", not fi.is_async, f"{fi.qual} is a coroutine: observers could see a half-updated block", fi.loc)
    init = next((k.methods["__init__"] for k in repo.mro(repo.cls(cname)) if "__init__" in k.methods), None)
    n_pos = len(init.node.args.args) - 1 - len(init.node.args.defaults) if init is not None else 0
    n = 0
    for label, off, seg in (("start", 0, bytes(range(1, 40))), ("middle", 500, b"\xaa\xbb"), ("one-byte", 700, b"\x5a"), ("very-end", 1024 - 39, bytes(range(200, 239))),
                            ("whole-block", 0, bytes((i * 7) % 256 for i in range(1024)))):
        it = Interp(repo, max_depth=10)
        try:
            st = it.apply(ClassRef(repo.cls(cname)), [Opaque(f"callback{i}") for i in range(n_pos)], {})
            before = it.getattr(st, "status_block")
        except (PyRaise, Undecided) as e:
            raise AnalysisError(f"{cname}(...) cannot be constructed by interpretation: {e}")
        if not isinstance(before, bytes) or len(before) != 1024:
            raise AnalysisError(f"{cname}: status block after construction is not 1024 bytes")
        seen = []

        def acc(name, st=st, seen=seen, it=it):
            o = Obj(None, {"tag": name}, name=f"acc<{name}>")
            o.attrs["status_block_changed"] = Native(lambda a, k, name=name: seen.append((name, tuple(a), it.getattr(st, "status_block"))), "status_block_changed")
            return o
        try:
            accs = it.getattr(st, "accessors")
            if not isinstance(accs, dict):
                raise AnalysisError(f"{cname}.accessors is not a dict after construction")
            for nm in ("A", "B", "C"):
                accs[nm] = acc(nm)
            it.steps = 0
            it.call(fi, st, [off, seg])
            after = it.getattr(st, "status_block")
        except PyRaise as e:
            after = f"raises {e.what}"
        except Undecided as e:
            raise AnalysisError(f"{fi.qual}: cannot interpret: {e}")
        want_block = before[:off] + seg + before[off + len(seg):]
        n += 1
        ctx.ob("R1", f"{key}::splice::{label}", after == want_block,
               f"{fi.qual}({off}, <{len(seg)} bytes>) leaves a block of {len(after) if isinstance(after, bytes) else after} bytes that is not old[:offset] + segment + old[offset+len(segment):]", fi.loc,
               sample={"rule": "R1", "function": fi.qual, "case": label} if label == "middle" else None)
        names = [s_[0] for s_ in seen]
        ctx.ob("R2", f"{key}::each-accessor-once::{label}", names == ["A", "B", "C"],
               f"{fi.qual}: accessors notified {names}, expected each of A, B, C exactly once", fi.loc)
        ctx.ob("R2", f"{key}::notify-arguments::{label}", all(s_[1] == (off, len(seg), before) for s_ in seen),
               f"{fi.qual}: status_block_changed called with {[(a_[0], a_[1], 'previous block' if a_[2] == before else 'another block') if len(a_) == 3 else a_ for _n, a_, _b in seen][:1]}, expected ({off}, {len(seg)}, previous block)", fi.loc)
        ctx.ob("R1", f"{key}::swap-before-notify::{label}", all(s_[2] == want_block for s_ in seen),
               f"{fi.qual}: at the moment accessors are notified the structure does not hold the new block yet (observers would read the old one)", fi.loc)
    ctx.floor("R1", f"{key} patches interpreted", n, 5)


def _swap_then_notify_shape(ctx, repo, cname):
    fi = repo.own_method(cname, "replace_status_block_segment")
    g = cfg_of(fi)
    key = fi.qual
    blk = block_attr(repo, cname)
    params = [a.arg for a in fi.node.args.args]
    off, seg = params[1], params[2]
    ctx.ob("R1", f"{key}::synchronous", not fi.is_async and not any(n.suspends for n in g.nodes),
           f"{fi.qual} suspends: observers could see a half-updated block", fi.loc)
    swaps = [n for n in g.stmt_nodes() if assigns_attr(n, f"self.{blk}")]
    ctx.ob("R1", f"{key}::single-swap", len(swaps) == 1, f"{fi.qual}: {len(swaps)} assignments of the block", fi.loc)
    if len(swaps) != 1:
        return
    S = swaps[0]
    # previous captured before the swap
    prevs = [n for n in g.stmt_nodes() if isinstance(n.ast, ast.Assign) and ast.unparse(n.ast.value) == f"self.{blk}" and isinstance(n.ast.targets[0], ast.Name)]
    ctx.ob("R1", f"{key}::previous-captured-before-swap", len(prevs) == 1 and g.dom(prevs[0], S),
           f"{fi.qual}: the previous block is not captured before the new block is assigned", fi.loc)
    if len(prevs) != 1:
        return
    prev = prevs[0].ast.targets[0].id
    # the new block = old[0:off] + seg + old[off+len(seg):]   (local aliases such as
    # `previous_block = self._block` expanded first)
    v = g.expand(S.ast.value, at=S)
    parts = []

    def flat(e):
        if isinstance(e, ast.BinOp) and isinstance(e.op, ast.Add):
            flat(e.left)
            flat(e.right)
        else:
            parts.append(e)

    flat(v)
    ok = len(parts) == 3 and ast.unparse(parts[1]) == seg
    if ok:
        a, b = parts[0], parts[2]
        ok = (isinstance(a, ast.Subscript) and ast.unparse(a.value) == f"self.{blk}" and isinstance(a.slice, ast.Slice)
              and (a.slice.lower is None or repo.try_fold(a.slice.lower) == 0) and ast.unparse(a.slice.upper) == off)
        if ok:
            ok = isinstance(b, ast.Subscript) and ast.unparse(b.value) == f"self.{blk}" and isinstance(b.slice, ast.Slice) and b.slice.upper is None
            lo = b.slice.lower if ok else None
            if ok:
                # off + len(seg)  (len(seg) possibly via a local)
                lens = {f"len({seg})"}
                for n in g.stmt_nodes():
                    if isinstance(n.ast, ast.Assign) and ast.unparse(n.ast.value) == f"len({seg})" and isinstance(n.ast.targets[0], ast.Name):
                        lens.add(n.ast.targets[0].id)
                ok = isinstance(lo, ast.BinOp) and isinstance(lo.op, ast.Add) and (
                    (ast.unparse(lo.left) == off and ast.unparse(lo.right) in lens) or (ast.unparse(lo.right) == off and ast.unparse(lo.left) in lens))
    ctx.ob("R1", f"{key}::splice", ok, f"{fi.qual}: new block is not old[0:offset] + segment + old[offset+len(segment):] (`{ast.unparse(v)}`)", loc(fi, S.ast),
           sample={"rule": "R1", "function": fi.qual, "splice": ast.unparse(v)})
    # notification loop
    notes = calls_named(g, "status_block_changed")
    ctx.ob("R2", f"{key}::single-notify-site", len(notes) == 1, f"{fi.qual}: {len(notes)} notification call sites (each accessor must be notified exactly once)", fi.loc)
    for N, nc in notes:
        ctx.ob("R1", f"{key}::swap-dominates-notify", g.dom(S, N), f"{fi.qual}: accessors are notified before the new block is in place (observers would read the old block)", loc(fi, N.ast))
        lp = g.loop_of(N)
        ok = lp is not None and lp.kind == "for" and ast.unparse(lp.ast.iter) == "self.accessors.values()" and receiver(nc) == ast.unparse(lp.ast.target)
        ctx.ob("R2", f"{key}::loop-over-all-accessors", ok, f"{fi.qual}: notification is not `for a in self.accessors.values(): a.status_block_changed(...)`", loc(fi, N.ast))
        if ok:
            outer = [h for h in {h for _, h in g.back_edges} if h is not lp and N in g.loop_body(h)]
            ctx.ob("R2", f"{key}::not-nested", not outer, f"{fi.qual}: notification loop is nested in another loop", loc(fi, N.ast))
            gs = [x for x in g.guards(N, entry=lp, cut_back=True) if x[0] is not lp]
            ctx.ob("R2", f"{key}::unconditional", not gs, f"{fi.qual}: some accessors are skipped ({[(x[0].text(), x[1]) for x in gs]})", loc(fi, N.ast))
        a = [ast.unparse(x) for x in nc.args]
        lens = {f"len({seg})"} | {n.ast.targets[0].id for n in g.stmt_nodes() if isinstance(n.ast, ast.Assign) and ast.unparse(n.ast.value) == f"len({seg})" and isinstance(n.ast.targets[0], ast.Name)}
        ok = len(a) == 3 and a[0] == off and a[1] in lens and a[2] == prev
        ctx.ob("R2", f"{key}::notify-arguments", ok, f"{fi.qual}: status_block_changed called with {a}, expected ({off}, len({seg}), {prev})", loc(fi, N.ast))


def decision(ctx, repo):
    fi = repo.own_method("GeckoStructAccessor", "status_block_changed")
    g = cfg_of(fi)
    key = fi.qual
    params = [a.arg for a in fi.node.args.args]
    prevp = params[3]
    oc = calls_named(g, "_on_change")
    ctx.ob("R3", f"{key}::single-on_change", len(oc) == 1 and g.loop_of(oc[0][0]) is None, f"{fi.qual}: {len(oc)} _on_change sites", fi.loc)
    if len(oc) != 1:
        return
    N, c = oc[0]
    args = [ast.unparse(a) for a in c.args]
    # old/new variables
    defs = {}
    for n in g.stmt_nodes():
        if isinstance(n.ast, ast.Assign) and isinstance(n.ast.targets[0], ast.Name):
            defs.setdefault(n.ast.targets[0].id, []).append(n)
    ok = len(args) == 3 and args[0] == "self" and args[1] in defs and args[2] in defs
    if not ok:
        # not the audited spelling (values bound by tuple assignment, passed through a helper ...): what the observers
        # receive, and when, is decided by the interpreted item x block-pair scenarios (decision_model)
        ctx.note(f"{fi.qual}: `_on_change({', '.join(args)})` is not (self, <single-assignment local>, <single-assignment local>) - decided by the interpreted scenarios only")
        return
    oldv, newv = args[1], args[2]
    od, nd = defs[oldv], defs[newv]
    ok_old = len(od) == 1 and ast.unparse(od[0].ast.value) == f"self._get_value({prevp})"
    ok_new = len(nd) == 1 and ast.unparse(nd[0].ast.value) in ("self.value", "self._get_value()")
    ctx.ob("R3", f"{key}::old-decoded-from-previous", ok_old,
           f"{fi.qual}: the old value is `{ast.unparse(od[0].ast.value) if od else None}`, not the decoded value of the previous block (self._get_value({prevp}))", loc(fi, od[0].ast) if od else fi.loc)
    ctx.ob("R3", f"{key}::new-decoded-from-current", ok_new,
           f"{fi.qual}: the new value is `{ast.unparse(nd[0].ast.value) if nd else None}`, not the decoded current value", loc(fi, nd[0].ast) if nd else fi.loc)
    # same decoder: property `value` returns self._get_value()
    vp = repo.own_method("GeckoStructAccessor", "value")
    rets = [n for n in ast.walk(vp.node) if isinstance(n, ast.Return)]
    ctx.ob("R3", "GeckoStructAccessor.value::same-decoder", len(rets) == 1 and ast.unparse(rets[0].value) == "self._get_value()",
           "property `value` does not return self._get_value(): old and new values would be decoded differently (subclasses such as temperature override _get_value)", vp.loc)
    facts = g.guard_atoms(N)
    s = sorted([oldv, newv])
    ctx.ob("R3", f"{key}::notify-iff-changed", (f"{s[0]} == {s[1]}", False) in facts,
           f"{fi.qual}: _on_change is not guarded by old != new (guards {sorted(facts)}): unchanged items would notify", loc(fi, N.ast),
           sample={"rule": "R3", "function": fi.qual, "guards": sorted(map(str, facts)), "args": args})
    # and nothing else suppresses it: the only guards are the intersection filter and the equality
    # guards evaluated BEFORE the decode are the byte-range filter (its soundness is R4's job,
    # decided by interpretation); only guards after the decode could suppress a real change
    decodes = [d for d in (od + nd)]
    extra = [(n.text(), l) for n, l in g.guards(N)
             if any(g.dom(d, n) for d in decodes) and not (oldv in n.text() and newv in n.text())]
    ctx.ob("R3", f"{key}::no-other-suppression", not extra, f"{fi.qual}: notification additionally suppressed by {extra}", loc(fi, N.ast))
    # order: both values read before the call, no writes in between
    return fi


def intersection_filter(ctx, repo):
    """R4: interpret status_block_changed up to the first decode for every ordering of
    the end points offset, offset+len, pos, pos+length (small-model: all values in
    0..6 with len,length in 1..3 cover every ordering incl. equalities) and compare the
    early return with the interval-overlap definition."""
    fi = repo.own_method("GeckoStructAccessor", "status_block_changed")
    interp = Interp(repo)

    def hook(ip, node, callee, args, kwargs):
        from ..absint import BoundMethod
        if isinstance(callee, BoundMethod) and callee.fi.name in ("_get_value", "_get_raw_value", "_on_change"):
            raise _Reached()
        return NotImplemented

    def attr_hook(ip, base, attr):
        if isinstance(base, Obj) and attr == "value":
            raise _Reached()
        return NotImplemented

    interp.call_hook = hook
    interp.attr_hook = attr_hook
    n = 0
    bad = None
    cls = repo.cls("GeckoStructAccessor")
    for off, ln, pos, length in itertools.product(range(0, 7), range(1, 4), range(0, 7), range(1, 3)):
        obj = Obj(cls, {"pos": pos, "length": length, "tag": "t"})
        interp.steps = 0
        try:
            interp.call(fi, obj, [off, ln, b"prev"])
            passed = False
        except _Reached:
            passed = True
        except (PyRaise, Undecided) as e:
            raise AnalysisError(f"{fi.qual}: cannot interpret the intersection filter: {e}")
        overlap = max(off, pos) < min(off + ln, pos + length)
        n += 1
        # one-sided: an overlapping update must never be filtered out.  (Decoding on
        # disjoint ranges is only a lost optimisation: old == new there, so nothing fires.)
        if overlap and not passed and bad is None:
            bad = (off, ln, pos, length, passed, overlap)
    ctx.count("R4:orderings_evaluated", n)
    ctx.ob("R4", f"{fi.qual}::filter-exact", bad is None,
           f"{fi.qual}: intersection filter wrong for update [offset={bad[0]}, len={bad[1]}) vs item [pos={bad[2]}, length={bad[3]}): "
           f"{'decodes' if bad[4] else 'returns early'} although the ranges {'overlap' if bad[5] else 'are disjoint'}" if bad else "",
           fi.loc, detail=bad, sample={"rule": "R4", "cases": n, "mismatch": bad})


def observers(ctx, repo):
    """R5 by interpretation: an Observable is built by its own constructor and driven through
    watch / unwatch / unwatch_all / _on_change with model observers.  Observers come in two kinds, as in
    real use: plain callables, and *bound methods* - two separately obtained bound methods of one listener are
    equal but not identical (every automation class registers `self._on_change` that way)."""
    from ..absint import ClassRef, Interp, Native, Obj, PyRaise, Undecided
    cls = repo.cls("Observable")
    w = repo.method("Observable", "watch")

    class Listener(Native):
        """a callable with bound-method identity semantics: eq by key, a fresh object per 'access';
        `during` = what the listener does to the Observable while it is being notified"""

        def __init__(self, key, log, during=None):
            # "inline" listeners are callables nobody else keeps a reference to (a lambda written in the watch() call, a
            # partial, a closure of a helper that returned): the observer list is their only owner
            self.strongly_held = not str(key).startswith("inline")

            def fire(a, k):
                log.append((key, tuple(a)))
                if during is not None:
                    during()
            super().__init__(fire, f"listener<{key}>")
            self.key = key

        def __eq__(self, o):
            return isinstance(o, Listener) and o.key == self.key

        def __hash__(self):
            return hash(self.key)

    def run(script):
        interp = Interp(repo)
        log = []
        try:
            o = interp.apply(ClassRef(cls), [], {})
        except (PyRaise, Undecided) as e:
            raise AnalysisError(f"Observable() cannot be constructed by interpretation: {e}")
        for step in script:
            op, arg = step
            try:
                interp.steps = 0
                if op == "watch" and isinstance(arg, tuple):
                    # ("a", ("unwatch", "b")): listener a removes b (or everybody) while being notified
                    key, (op2, arg2) = arg
                    if op2 == "unwatch":
                        act = lambda o=o, arg2=arg2: interp.call(repo.method("Observable", "unwatch"), o, [Listener(arg2, log)])  # noqa: E731
                    elif op2 == "raise-once":
                        fired = []

                        def act(fired=fired):
                            if not fired:
                                fired.append(1)
                                raise PyRaise("RuntimeError: observer bug")
                    else:
                        act = lambda o=o: interp.call(repo.method("Observable", "unwatch_all"), o, [])  # noqa: E731
                    interp.call(repo.method("Observable", "watch"), o, [Listener(key, log, act)])
                elif op in ("watch", "unwatch"):
                    interp.call(repo.method("Observable", op), o, [Listener(arg, log)])
                elif op == "unwatch_all":
                    interp.call(repo.method("Observable", "unwatch_all"), o, [])
                elif op == "change":
                    interp.call(repo.method("Observable", "_on_change"), o, list(arg))
            except PyRaise as e:
                log.append(("raise", op, e.what))
            except Undecided as e:
                raise AnalysisError(f"Observable.{op}: cannot interpret: {e}")
        return log

    ev = ("S", 1, 2)
    cases = [
        ("registered-twice-called-once", [("watch", "a"), ("watch", "a"), ("change", ev)], [("a", ev)],
         "an observer registered twice (two equal bound methods of one listener) is called twice per change"),
        ("removed-never-called", [("watch", "a"), ("watch", "a"), ("unwatch", "a"), ("change", ev)], [],
         "an observer that was registered twice and then removed is still called"),
        ("each-once-in-order", [("watch", "a"), ("watch", "b"), ("change", ev)], [("a", ev), ("b", ev)],
         "two observers are not each called exactly once, in registration order, with (sender, old, new)"),
        ("unwatch-one-keeps-other", [("watch", "a"), ("watch", "b"), ("unwatch", "a"), ("change", ev)], [("b", ev)],
         "removing one observer does not leave exactly the other one"),
        ("a-callable-nobody-else-holds-is-still-notified", [("watch", "inline-1"), ("watch", "b"), ("watch", "inline-2"), ("change", ev), ("change", ev)],
         [("inline-1", ev), ("b", ev), ("inline-2", ev), ("inline-1", ev), ("b", ev), ("inline-2", ev)],
         "an observer given as an inline lambda / partial / closure (no other reference to it exists) is dropped: registered observers are held by the observable until they are removed"),
        ("unwatch-all-clears", [("watch", "a"), ("watch", "b"), ("unwatch_all", None), ("change", ev)], [],
         "unwatch_all leaves observers behind"),
        ("re-register-after-remove", [("watch", "a"), ("unwatch", "a"), ("watch", "a"), ("change", ev)], [("a", ev)],
         "an observer cannot be registered again after removal"),
        ("removed-during-notification-not-called", [("watch", ("a", ("unwatch", "c"))), ("watch", "b"), ("watch", "c"), ("change", ev)], [("a", ev), ("b", ev)],
         "an observer removed (by an earlier observer) while the notification is being delivered is still called for that update, or a live one is skipped"),
        ("unwatch-all-during-notification", [("watch", ("a", ("unwatch_all", None))), ("watch", "b"), ("change", ev)], [("a", ev)],
         "observers removed by unwatch_all during a notification are still called for that update"),
        ("self-removal-does-not-skip-the-next", [("watch", ("a", ("unwatch", "a"))), ("watch", "b"), ("change", ev), ("change", ev)], [("a", ev), ("b", ev), ("b", ev)],
         "an observer that removes itself while being notified makes the next observer miss that update (or is called again afterwards)"),
    ]
    # a listener that fails once: whatever happens to THAT delivery (not claimed), the next changes reach everybody again
    ev2, ev3 = ("S", 2, 3), ("S", 3, 4)
    got = run([("watch", "a"), ("watch", ("b", ("raise-once", None))), ("watch", "c"), ("change", ev), ("change", ev2), ("change", ev3)])
    later = [g for g in got if g[0] != "raise" and g[1] in (ev2, ev3)]
    want_later = [("a", ev2), ("b", ev2), ("c", ev2), ("a", ev3), ("b", ev3), ("c", ev3)]
    ctx.ob("R5", "Observable::a-failing-observer-does-not-silence-later-changes", later == want_later,
           f"after an observer raised once while being notified, the next two changes are delivered as {later}, expected {want_later}: a device whose listener failed once stops reporting changes "
           f"(the facade no longer hears that a pump went off and keeps the wrong timing table)", w.loc)
    for key, script, want, what in cases:
        got = run(script)
        ctx.ob("R5", f"Observable::{key}", got == want, f"{what}: calls {got}, expected {want}", w.loc,
               sample={"rule": "R5", "script": [list(map(str, s)) for s in script], "calls": [str(g) for g in got]})
    # who may write the list (the attribute __init__ binds to a list display)
    init = repo.method("Observable", "__init__")
    def _is_list_value(v):
        if isinstance(v, ast.List):
            return True
        if isinstance(v, ast.Call) and isinstance(v.func, ast.Name):
            if v.func.id == "list":
                return True
            cs_ = repo.classes().get(v.func.id, [])
            return len(cs_) == 1 and any(b_ == "list" for k_ in repo.mro(cs_[0]) for b_ in k_.bases)   # a list subclass of the repository
        return False
    lists = [t.attr for n in ast.walk(init.node) if isinstance(n, (ast.Assign, ast.AnnAssign)) and _is_list_value(getattr(n, "value", None))
             for t in (n.targets if isinstance(n, ast.Assign) else [n.target]) if isinstance(t, ast.Attribute)]
    if len(lists) != 1:
        ctx.error(f"Observable.__init__: observer list not identified by role ({lists})")
        return
    attr = lists[0]
    writers = set()
    for fi in repo.all_functions():
        for n in walk_no_nested(fi.node):
            if isinstance(n, ast.Attribute) and n.attr == attr and isinstance(n.ctx, ast.Store):
                writers.add(fi.qual)
            if isinstance(n, ast.Call) and (receiver(n) or "").endswith("." + attr) and call_name(n) in ("append", "remove", "clear", "insert", "extend", "pop"):
                writers.add(fi.qual)
    allowed = {"Observable.__init__", "Observable.watch", "Observable.unwatch", "Observable.unwatch_all"}
    ctx.ob("R5", "observer-list::who-may-write", writers <= allowed, f"observer list `{attr}` also modified by {sorted(writers - allowed)}")


def temperature_notifications(ctx, repo, rule):
    """for temperatures the statement compares the STORED reading: a unit item and a temperature item are built by their
    own constructors on a model structure, an observer is registered, and status_block_changed is interpreted for block
    pairs in which the unit flips, the stored word changes, both, or neither"""
    from ..absint import ClassRef, Interp, Native, Obj, PyRaise, Undecided
    from ..core import AnalysisError
    gc = repo.cls("GeckoConstants")
    KEY = repo.fold(gc.consts["KEY_TEMP_UNITS"], gc.mod, gc)

    def block(unit_bit, word):
        b = bytearray(64)
        b[13] = 0x04 if unit_bit else 0
        b[15], b[16] = word >> 8, word & 0xFF
        return bytes(b)
    cases = (("unit-flips::word-unchanged", block(0, 670), block(1, 670), 0, "the stored reading is the same: the item stays silent although the presented number changes with the unit"),
             ("unit-flips::word-changes-to-same-number", block(0, 720), block(1, 80), 1, "the stored reading differs (720 -> 80) although both present as 40.0"),
             ("same-unit::word-changes", block(0, 670), block(0, 671), 1, "the stored reading differs"),
             ("same-unit::word-unchanged::other-bytes-change", block(0, 670)[:20] + b"\x55" * 44, block(0, 670), 0, "neither unit nor reading changed"),
             ("fahrenheit::word-changes", block(1, 680), block(1, 700), 1, "the stored reading differs"))
    fi = repo.method("GeckoStructAccessor", "status_block_changed")
    n = 0
    for key, prev, new, want, why in cases:
        it = Interp(repo, max_depth=12)
        calls = []
        st = Obj(None, {"status_block": new, "accessors": {}}, name="struct")
        try:
            units = it.apply(ClassRef(repo.cls("GeckoEnumStructAccessor")), [st, KEY, 13, 2, ["C", "F"], None, 2, "ALL"], {})
            temp = it.apply(ClassRef(repo.cls("GeckoTempStructAccessor")), [st, "SetpointG", 15, "ALL"], {})
            st.attrs["accessors"] = {KEY: units, "SetpointG": temp}
            it.call(repo.method("GeckoTempStructAccessor", "watch"), temp, [Native(lambda a, k: calls.append(tuple(a[1:])), "observer")])
            it.steps = 0
            it.call(repo.method("GeckoTempStructAccessor", "status_block_changed"), temp, [0, 64, prev])
        except PyRaise as e:
            calls.append(("raises", e.what))
        except Undecided as e:
            raise AnalysisError(f"GeckoTempStructAccessor.status_block_changed on the model structure: {e}")
        n += 1
        ctx.ob(rule, f"temperature::{key}", len(calls) == want and not any(c and c[0] == "raises" for c in calls),
               f"temperature item, {key.replace('::', ', ')}: {len(calls)} notification(s) {calls[:2]}, expected {want} - {why}", fi.loc,
               sample={"rule": rule, "case": key, "notifications": len(calls)})
    ctx.floor(rule, "temperature block pairs interpreted", n, 5)


def decision_model(ctx, repo, rule):
    """R3 by interpretation: a byte item, a word item and a 2-bit label item are built by their own constructors on a model
    structure, an observer is registered through watch(), and status_block_changed(0, n, previous) is interpreted on
    block pairs: item bytes equal (other bytes differ) -> silent; item bytes differ -> exactly one notification
    (sender, value decoded from the previous block, value decoded from the current block); for the label item also a
    change of the OTHER bits of its byte -> silent."""
    from ..absint import ClassRef, Interp, Native, Obj, PyRaise, Undecided
    fi = repo.method("GeckoStructAccessor", "status_block_changed")

    def blk(**at):
        b = bytearray(64)
        for k, v in at.items():
            b[int(k[1:])] = v
        return bytes(b)
    items = (("byte", "GeckoByteStructAccessor", ["B", 10, "ALL"], lambda b: b[10]),
             ("word", "GeckoWordStructAccessor", ["W", 20, "ALL"], lambda b: b[20] * 256 + b[21]),
             ("label", "GeckoEnumStructAccessor", ["E", 30, 2, ["OFF", "LO", "HI", "MAX"], None, 4, "ALL"], lambda b: ["OFF", "LO", "HI", "MAX"][(b[30] >> 2) & 3]),
             # every declared item type decodes the PREVIOUS block it is handed, not the live one (schedule times and flags too)
             ("time", "GeckoTimeStructAccessor", ["T", 40, "ALL"], lambda b: f"{b[40]:02}:{b[41]:02}"),
             ("flag", "GeckoBoolStructAccessor", ["Q", 50, 3, "ALL"], lambda b: bool(b[50] & 8)))
    pairs = (("unchanged::other-bytes-differ", blk(p10=7, p20=1, p21=2, p30=0b0100, p40=6, p41=30, p50=8, p5=9), blk(p10=7, p20=1, p21=2, p30=0b0100, p40=6, p41=30, p50=8, p5=1)),
             ("changed", blk(p10=7, p20=1, p21=2, p30=0b0100, p40=6, p41=30, p50=8), blk(p10=8, p20=1, p21=3, p30=0b1000, p40=6, p41=45, p50=0)),
             ("changed-to-zero", blk(p10=7, p20=1, p21=2, p30=0b0100, p40=6, p41=30, p50=8), blk()),
             ("other-bits-of-the-byte-differ", blk(p10=7, p20=1, p21=2, p30=0b0100, p40=6, p41=30, p50=8), blk(p10=7, p20=1, p21=2, p30=0b0111, p40=6, p41=30, p50=0b1111)))
    n = 0
    for kind, cname, args, decode in items:
        for key, prev, new in pairs:
            it = Interp(repo, max_depth=12)
            calls = []
            st = Obj(None, {"status_block": new, "accessors": {}}, name="struct")
            try:
                acc = it.apply(ClassRef(repo.cls(cname)), [st] + list(args), {})
                it.call(repo.method(cname, "watch"), acc, [Native(lambda a, k: calls.append(tuple(a)), "observer")])
                it.steps = 0
                it.call(repo.method(cname, "status_block_changed"), acc, [0, 64, prev])
            except PyRaise as e:
                calls.append(("raises", e.what))
            except Undecided as e:
                raise AnalysisError(f"{cname}.status_block_changed on the model structure: {e}")
            old, cur = decode(prev), decode(new)
            want = [] if old == cur else [(acc, old, cur)]
            n += 1
            ok = len(calls) == len(want) and all(len(c) == 3 and c[0] is w[0] and c[1] == w[1] and c[2] == w[2] for c, w in zip(calls, want))
            ctx.ob(rule, f"decision::{kind}::{key}", ok,
                   f"{kind} item, {key.replace('::', ', ')}: observers got {[tuple(map(str, c[1:])) for c in calls]}, expected {[tuple(map(str, w[1:])) for w in want]} "
                   f"(one notification with the values decoded from the previous and the current block iff they differ)", fi.loc,
                   sample={"rule": rule, "item": kind, "case": key, "notifications": len(calls)})
    ctx.floor(rule, "item x block-pair notifications interpreted", n, 20)


def reentrant_update_model(ctx, repo, rule):
    """An observer may react to a notification by writing another item; with a loop-back device model (the simulator, the
    tests, any echoing connection) that write becomes a NESTED update of the block while the outer update is still
    notifying.  Both structure classes, built by their constructors with three byte items A, B, C (in that order): the
    outer update changes A and B; A's observer makes a nested update that changes C.  Each of the three items notifies
    exactly once, with its own old and new value - the nested update must not disturb what the outer one compares."""
    from ..absint import ClassRef, Interp, Native, Obj, Opaque, PyRaise, Undecided
    for sname in ("GeckoStructure", "GeckoAsyncStructure"):
        scls = repo.cls(sname)
        rep = repo.method(sname, "replace_status_block_segment")
        it = Interp(repo, max_depth=14)
        init = repo.method(sname, "__init__")
        nargs = len([a for a in init.node.args.args if a.arg != "self"]) - len(init.node.args.defaults)
        calls = []
        try:
            st = it.apply(ClassRef(scls), [Opaque(f"callback{i}") for i in range(nargs)], {})
            it.call(repo.method(sname, "set_status_block"), st, [bytes(64)])
            accs = {}
            for tag, pos in (("A", 10), ("B", 11), ("C", 20)):
                accs[tag] = it.apply(ClassRef(repo.cls("GeckoByteStructAccessor")), [st, tag, pos, "ALL"], {})
            it.setattr(st, "accessors", accs)

            def on_a(a, k):
                calls.append(("A",) + tuple(a[1:]))
                it.call(rep, st, [20, b"\x05"])         # the reaction: another item is written, the device echoes it at once
            it.call(repo.method("GeckoByteStructAccessor", "watch"), accs["A"], [Native(on_a, "observer-A")])
            for tag in ("B", "C"):
                it.call(repo.method("GeckoByteStructAccessor", "watch"), accs[tag], [Native(lambda a, k, tag=tag: calls.append((tag,) + tuple(a[1:])), f"observer-{tag}")])
            it.steps = 0
            it.call(rep, st, [10, b"\x01\x02"])
        except PyRaise as e:
            calls.append(("raises", e.what))
        except Undecided as e:
            raise AnalysisError(f"{sname}.replace_status_block_segment with a re-entrant observer: {e}")
        want = {("A", 0, 1), ("B", 0, 2), ("C", 0, 5)}
        ok = len(calls) == 3 and set(calls) == want
        ctx.ob(rule, f"{sname}::nested-update-during-notification", ok,
               f"{sname}: an update changing items A (0->1) and B (0->2) whose A-observer triggers a nested update of item C (0->5): notifications {calls}, expected each of {sorted(want)} exactly once - "
               f"what the outer update compares must not be disturbed by the nested one (kept per call, not on the object)", rep.loc,
               sample={"rule": rule, "structure": sname, "notifications": [list(map(str, c)) for c in calls]})


def check(ctx):
    repo = Repo()
    ctx.rule("R1", "swap-before-notify in both replace_status_block_segment: previous block captured, new block = exact splice, assignment dominates the notification loop, no suspension")
    ctx.rule("R2", "exactly one status_block_changed call per accessor: single site in an un-nested, unconditional loop over accessors.values() with (offset, len(segment), previous)")
    ctx.rule("R3", "decision on decoded values of one decoder: old = _get_value(previous), new = value (= _get_value()), _on_change(self, old, new) guarded exactly by old != new")
    ctx.rule("R4", "intersection filter sound: the early return is taken only when [offset,offset+len) and [pos,pos+length) are disjoint - all orderings of the end points enumerated (Order domain); filtering less is harmless because the decoded values are then equal")
    ctx.rule("R5", "observer list, by interpretation with plain and bound-method-like observers: registered twice -> called once; removed -> never called; each observer once, in registration order, with (sender, old, new); unwatch_all clears; no other writer of the list")
    ctx.rule("R6", "a full refresh is one update: on both stacks the received segments are installed by a single install call for the whole requested range, made only when the final in-order segment has arrived (C01's install and append guards borrowed) - installing per segment would notify an item that straddles a segment boundary twice and show observers a half-refreshed block")
    from . import c01 as _c01
    _c01.async_assembly(ctx.borrowed("R6", "C01", only=("R1", "R2", "R3")), repo, observe="calls")   # one refresh = one notifying install
    _c01.sync_assembly(ctx.borrowed("R6", "C01", only=("R1", "R2", "R3")), repo)
    ctx.rule("R8", "per received update: what reaches the structure for a partial-update message is that message's changes, each once (C05's message-sequence model on both stacks borrowed) - a handler that replays earlier messages flips unchanged items back and forth, notifying twice for an item that did not change")
    from .c05 import message_sequence_model as _msm
    _msm(ctx.borrowed("R8", "C05"), repo, "R9")
    ctx.rule("R9", "any sequence of updates, nested ones included: on both structure classes an update whose observer triggers another update of the block (a reaction written through a loop-back device model) still notifies every changed item exactly once with its own old and new value (structures and byte items built by their constructors, the nested call made from inside the observer)")
    reentrant_update_model(ctx, repo, "R9")
    ctx.rule("R7", "temperatures notify iff the stored reading differs: unit item and temperature item built by their constructors on a model structure, status_block_changed interpreted on block pairs where the unit flips with the word unchanged (silent), the word changes to one presenting the same number under the new unit (one notification), the word changes (one), nothing relevant changes (silent)")
    temperature_notifications(ctx, repo, "R7")
    for c in STRUCT_CLASSES:
        swap_then_notify(ctx, repo, c)
    decision_model(ctx, repo, "R3")
    decision(ctx, repo)
    intersection_filter(ctx, repo)
    observers(ctx, repo)
    # sibling agreement of the two structure classes' install function
    a = repo.own_method(STRUCT_CLASSES[0], "replace_status_block_segment")
    b = repo.own_method(STRUCT_CLASSES[1], "replace_status_block_segment")
    from ..src import strip_doc_and_logging
    na = "\n".join(ast.unparse(s) for s in strip_doc_and_logging(a.node.body))
    nb = "\n".join(ast.unparse(s) for s in strip_doc_and_logging(b.node.body))
    ctx.count("sibling_install_functions_identical", int(na == nb))
    ctx.note("Not decided: observers that raise or re-enter; ordering between different accessors' notifications.")
    ctx.assume("the functions touched by R4 use offset/len/pos/length only through max, min, +, - and comparisons (verified by interpretation: any other construct is an analysis error)")
