"""C07 - dispatch: each datagram consumed once, only by a capable, addressed consumer.

asyncio is cooperative, so "check-then-act is atomic under every schedule" is the path
rule *no suspension point on any CFG path between the head read, the acceptance test
and the pop*.  Decided per pop site; plus who-may-pop layering, the mark protocol of
the discard consumer, the identifier-pair guard of the re-queue, and start-up of every
consumer.
"""
from __future__ import annotations

import ast

from ..cfg import atoms, cfg_of
from ..core import AnalysisError
from ..facts import loc
from ..src import Repo, call_name, names_in, receiver, walk_no_nested

QUEUE_CLS = "AsyncPeekableQueue"
BASE = "GeckoUdpProtocolHandler"
UNHANDLED = "GeckoUnhandledProtocolHandler"
REMOVERS = {"pop", "get_nowait", "get", "popleft", "clear"}


def _is_queue_recv(r):
    return r is not None and (r.endswith(".queue") or r.endswith("._queue") or r == "queue")


def queue_sites(repo):
    """All calls in the package on a receiver that is a protocol queue."""
    sites = []
    for fi in repo.all_functions():
        if fi.cls is not None and fi.cls.short == QUEUE_CLS:
            continue
        for n in walk_no_nested(fi.node):
            if isinstance(n, ast.Call) and isinstance(n.func, ast.Attribute):
                r = receiver(n)
                if _is_queue_recv(r):
                    sites.append((fi, n, n.func.attr, r))
    return sites


def head_reads(g):
    """CFG nodes that read `<x>.queue.head` into local names -> (node, names)."""
    out = []
    for n in g.stmt_nodes():
        if n.kind != "stmt" or not isinstance(n.ast, ast.Assign):
            continue
        v = n.ast.value
        if isinstance(v, ast.Attribute) and v.attr == "head" and _is_queue_recv(ast.unparse(v.value)):
            names = set()
            for t in n.ast.targets:
                names |= names_in(t)
            out.append((n, names, ast.unparse(v.value)))
    return out


def check_pop_site(ctx, repo, fi, call, discard):
    g = cfg_of(fi)
    pn = [n for n in g.stmt_nodes() if call in list(n.walk())]
    if not pn:
        raise AnalysisError(f"pop call not found in CFG of {fi.qual}")
    key = fi.qual
    reads = head_reads(g)
    for P in pn:
        recv = receiver(call)
        # the head read that feeds this pop: dominates it, same queue expression
        cands = [(h, names) for (h, names, q) in reads if q == recv and g.dom(h, P)]
        ctx.ob("R1", f"{key}::head-read-dominates-pop", bool(cands),
               f"{fi.qual}: pop at line {P.lineno} is not dominated by a read of {recv}.head into locals (popped element may not be the inspected one)",
               loc(fi, P.ast))
        if not cands:
            continue
        # nearest dominating read
        H, names = sorted(cands, key=lambda x: -x[0].lineno)[0]
        mid = g.between(H, P)
        susp = [m for m in mid | {P, H} if m.suspends]
        ctx.ob("R1", f"{key}::no-suspension-between-peek-and-pop", not susp,
               f"{fi.qual}: suspension point(s) {[f'L{m.lineno}: {m.text()}' for m in susp]} between head read (L{H.lineno}) and pop (L{P.lineno}): another consumer can pop or the head can change",
               loc(fi, P.ast),
               sample={"rule": "R1", "site": f"{fi.qual} {loc(fi, P.ast)}", "head_read": f"L{H.lineno}",
                       "between": [m.text() for m in sorted(mid, key=lambda x: x.lineno)], "suspensions_between": len(susp)})
        # names not rebound between
        rebound = []
        for m in mid:
            if isinstance(m.ast, ast.Assign):
                for t in m.ast.targets:
                    if names_in(t) & names:
                        rebound.append(m)
        ctx.ob("R1", f"{key}::inspected-values-not-rebound", not rebound,
               f"{fi.qual}: {sorted(names)} re-assigned between head read and pop", loc(fi, P.ast))
        facts = g.iter_guard_atoms(P)
        if not discard:
            # value flow of the inspected head through local assignments / tuple (un)packing
            tainted = {nm: {nm} for nm in names}  # local -> which head values it carries
            changed = True
            while changed:
                changed = False
                for n2 in g.stmt_nodes():
                    if isinstance(n2.ast, ast.Assign):
                        src = set()
                        for nm in names_in(n2.ast.value):
                            src |= tainted.get(nm, set())
                        if src:
                            for t in n2.ast.targets:
                                for nm in names_in(t):
                                    if not src <= tainted.get(nm, set()):
                                        tainted.setdefault(nm, set()).update(src)
                                        changed = True

            def carries_head(text):
                try:
                    e = ast.parse(text, mode="eval").body
                except SyntaxError:
                    return False
                got = set()
                for nm in names_in(e):
                    got |= tainted.get(nm, set())
                return names <= got
            want = [t for (t, p) in facts if p and "can_handle(" in t and (all(nm in t for nm in names) or carries_head(t))]
            ctx.ob("R1", f"{key}::pop-guarded-by-can_handle", bool(want),
                   f"{fi.qual}: pop at L{P.lineno} is not guarded by can_handle({', '.join(sorted(names))}) on the values read from head; guards are {sorted(facts)}",
                   loc(fi, P.ast))
            # head is not None guard
            nn = [t for (t, p) in facts if (t.endswith(".head is None") and not p)]
            ctx.ob("R1", f"{key}::head-not-none", bool(nn), f"{fi.qual}: pop not guarded by `{recv}.head is not None`", loc(fi, P.ast))
            # the same values are handed to the handler after the pop (value flow through
            # local assignments / tuple packing is followed: `ret = (data, sender)` ... `d, s = ret`)
            hcalls = [(n, c) for n in g.stmt_nodes() for c in n.calls() if call_name(c) in ("async_handle", "handle")]
            ok = False
            for n, c in hcalls:
                carried = set()
                for a in c.args:
                    for nm in names_in(a):
                        carried |= tainted.get(nm, set())
                if names <= carried and g.dom_ps(P, n):
                    ok = True
            ctx.ob("R1", f"{key}::handled-after-pop", ok,
                   f"{fi.qual}: the popped ({', '.join(sorted(names))}) is not passed to handle/async_handle after the pop", loc(fi, P.ast))
        else:
            mk = [t for (t, p) in facts if p and t.endswith(".is_marked")]
            ctx.ob("R3", f"{key}::pop-guarded-by-is_marked", bool(mk),
                   f"{fi.qual}: discard pop at L{P.lineno} not guarded by is_marked; guards are {sorted(facts)}", loc(fi, P.ast))
            marks = [n for n, c in g.nodes_calling("mark") if _is_queue_recv(receiver(c))]
            ctx.ob("R3", f"{key}::mark-dominates-pop", any(g.dom(m, P) for m in marks) or not marks,
                   f"{fi.qual}: no mark() dominates the discard pop", loc(fi, P.ast))
            for m in marks:
                if not g.dom(m, P):
                    continue
                # every path mark -> pop passes a suspension point
                avoid = [x for x in g.nodes if x.suspends]
                direct = P in g.reach_from(m, avoid=avoid)
                ctx.ob("R3", f"{key}::yield-between-mark-and-pop", not direct,
                       f"{fi.qual}: a path from mark() (L{m.lineno}) to pop (L{P.lineno}) has no suspension point: other consumers get no chance to claim the datagram",
                       loc(fi, P.ast))
                # mark is guarded by head not None
                mf = g.iter_guard_atoms(m)
                ctx.ob("R3", f"{key}::mark-only-nonempty", any(t.endswith(".head is None") and not p for t, p in mf),
                       f"{fi.qual}: mark() not guarded by head is not None", loc(fi, m.ast))


def discard_consumer_model(ctx, repo, rule):
    """The discard consumer by interpretation: one pass of GeckoUnhandledProtocolHandler.consume over a real peekable
    queue (model FIFO underneath) on a model connection.  What happens while the consumer yields is scripted: nobody
    takes the datagram / a capable consumer takes it and another one arrives; the request lock is free or held."""
    from ..absint import ClassRef, Interp, Native, Obj, PyRaise, Undecided

    class _Stop(Exception):
        pass
    cons = repo.method(UNHANDLED, "consume")
    X = (b"<PACKT>nobody wants this</PACKT>", ("10.0.0.5", 10022))
    Y = (b"<PACKT>the next one</PACKT>", ("10.0.0.5", 10022))
    n = 0
    for locked in (False, True):
        for taken in (False, True):
            interp = Interp(repo, max_depth=10)
            try:
                q = interp.apply(ClassRef(repo.cls(QUEUE_CLS)), [], {})
            except (PyRaise, Undecided) as e:
                raise AnalysisError(f"{QUEUE_CLS}() cannot be constructed by interpretation: {e}")
            fifo = [X]
            q.attrs["_queue"] = fifo
            q.attrs["qsize"] = Native(lambda a, k, f=fifo: len(f), "qsize")
            q.attrs["empty"] = Native(lambda a, k, f=fifo: not f, "empty")
            q.attrs["get_nowait"] = Native(lambda a, k, f=fifo: f.pop(0), "get_nowait")
            lock = Obj(None, {"locked": Native(lambda a, k, v=locked: v, "locked")}, name="request-lock")
            proto = Obj(None, {"queue": q, "Lock": lock, "_lock": lock, "isopen": True}, name="protocol")
            sleeps = [0]

            def hook(it, node, callee, args, kwargs, q=q, fifo=fifo, taken=taken, sleeps=sleeps):
                if getattr(callee, "name", "") == "asyncio.sleep" or (isinstance(getattr(node, "func", None), ast.Attribute) and node.func.attr in ("sleep", "config_sleep")):
                    sleeps[0] += 1
                    if sleeps[0] == 1 and taken:
                        it.call(repo.method(QUEUE_CLS, "pop"), q, [])   # its consumer takes X while the discard consumer yields ...
                        fifo.append(Y)                                   # ... and the next datagram arrives
                    if sleeps[0] >= 2:
                        raise _Stop()
                    return None
                return NotImplemented
            interp.call_hook = hook
            try:
                h = interp.apply(ClassRef(repo.cls(UNHANDLED)), [], {})
                interp.steps = 0
                interp.call(cons, h, [proto])
                left = "returned"
            except _Stop:
                left = list(fifo)
            except PyRaise as e:
                left = f"raises {e.what}"
            except Undecided as e:
                raise AnalysisError(f"{cons.qual}: cannot interpret: {e}")
            want = [Y] if taken else []
            n += 1
            ctx.ob(rule, f"{cons.qual}::lock-{'held' if locked else 'free'}::{'taken-meanwhile' if taken else 'unclaimed'}", left == want,
                   f"{cons.qual}, request lock {'held' if locked else 'free'}, head datagram {'taken by its consumer while the discard consumer yields (and another arrives)' if taken else 'claimed by nobody'}: "
                   f"after one mark-and-wait pass the queue holds {left}, expected {want} - "
                   + ("an unclaimed datagram must leave the head after one polling interval in every state of the connection, or it blocks every later datagram (and a stale reply is served to the next request of its verb)"
                      if not taken else "only the datagram that was marked may be discarded"), cons.loc,
                   sample={"rule": rule, "locked": locked, "taken": taken, "queue_after": str(left)})
    ctx.floor(rule, "discard-consumer passes interpreted", n, 4)


def queue_model(ctx, repo, rule):
    """The peekable queue by interpretation (witness scenarios): an AsyncPeekableQueue built by its constructor over a
    model FIFO; datagrams are (data, sender) tuples, and a retransmission is an EQUAL but distinct tuple.
    head = oldest element / None when empty; pop removes exactly the head; a mark says 'the datagram I marked is
    still at the head': it does not survive the removal of that datagram - neither onto an empty queue nor onto an
    equal datagram that follows."""
    from ..absint import ClassRef, Interp, Native, Obj, PyRaise, Undecided
    cls = repo.cls(QUEUE_CLS)

    def run(script):
        interp = Interp(repo, max_depth=8)
        try:
            q = interp.apply(ClassRef(cls), [], {})
        except (PyRaise, Undecided) as e:
            raise AnalysisError(f"{QUEUE_CLS}() cannot be constructed by interpretation: {e}")
        fifo = []
        q.attrs.setdefault("_queue", fifo)
        fifo = q.attrs["_queue"] if isinstance(q.attrs["_queue"], list) else fifo
        q.attrs["_queue"] = fifo
        q.attrs["qsize"] = Native(lambda a, k: len(fifo), "qsize")
        q.attrs["empty"] = Native(lambda a, k: not fifo, "empty")
        q.attrs["get_nowait"] = Native(lambda a, k: fifo.pop(0), "get_nowait")
        q.attrs["put_nowait"] = Native(lambda a, k: fifo.append(a[0]), "put_nowait")
        out = []
        for op, arg in script:
            try:
                interp.steps = 0
                if op == "put":
                    fifo.append(arg)
                elif op in ("pop", "mark"):
                    interp.call(repo.method(QUEUE_CLS, op), q, [])
                elif op == "head":
                    out.append(("head", interp.getattr(q, "head")))
                elif op == "is_marked":
                    out.append(("is_marked", bool(interp.getattr(q, "is_marked"))))
            except PyRaise as e:
                out.append((op, f"raises {e.what}"))
            except Undecided as e:
                raise AnalysisError(f"{QUEUE_CLS}.{op}: cannot interpret: {e}")
        return out

    X = (b"<PACKT>one</PACKT>", ("10.0.0.5", 10022))
    X2 = (bytes(bytearray(X[0])), ("10.0.0.5", 10022))  # equal to X, another object
    Y = (b"<PACKT>two</PACKT>", ("10.0.0.5", 10022))
    cases = [
        ("head::oldest-or-none", [("head", None), ("put", X), ("put", Y), ("head", None), ("pop", None), ("head", None), ("pop", None), ("head", None)],
         [("head", None), ("head", X), ("head", Y), ("head", None)], "head is not the oldest queued datagram / None on an empty queue, or pop does not remove exactly the head"),
        ("mark::marks-the-head", [("put", X), ("is_marked", None), ("mark", None), ("is_marked", None)], [("is_marked", False), ("is_marked", True)],
         "mark() does not mark the head (or a fresh queue is marked)"),
        ("mark::cleared-when-marked-datagram-leaves", [("put", X), ("put", Y), ("mark", None), ("pop", None), ("is_marked", None)], [("is_marked", False)],
         "after the marked datagram was taken by its consumer the NEXT datagram counts as marked: the discard consumer drops it unseen"),
        ("mark::not-carried-onto-an-empty-queue", [("put", X), ("mark", None), ("pop", None), ("is_marked", None)], [("is_marked", False)],
         "the mark survives on an empty queue after the marked datagram was taken (the discard consumer then unpacks head None and dies)"),
        ("mark::not-carried-onto-an-equal-datagram", [("put", X), ("mark", None), ("pop", None), ("put", X2), ("is_marked", None)], [("is_marked", False)],
         "a retransmitted (byte-identical) datagram arriving after the marked one was consumed counts as marked: it is discarded without reaching its handler (no acknowledgement)"),
    ]
    for key, script, want, what in cases:
        got = run(script)
        ctx.ob(rule, f"{QUEUE_CLS}::{key}", got == want, f"{what}: observed {got}, expected {want}", repo.method(QUEUE_CLS, "pop").loc,
               sample={"rule": rule, "scenario": key, "observed": [str(x) for x in got]})
    pop = repo.method(QUEUE_CLS, "pop")
    ctx.ob(rule, f"{QUEUE_CLS}.pop::sync", not pop.is_async and not any(n.suspends for n in cfg_of(pop).nodes), f"{QUEUE_CLS}.pop suspends", pop.loc)


def nothing_queued_is_lost(ctx, repo, rule, n=100):
    """what arrives is what the consumers get, however much is waiting: an AsyncPeekableQueue built by its constructor
    (asyncio.Queue's documented behaviour modelled, the subclass's own _init / _put / _get hooks interpreted) takes
    <n> distinct datagrams through put_nowait and hands out the same <n>, oldest first, through head / pop - a bounded
    container behind an unbounded queue (deque(maxlen=...)) drops the oldest waiting datagrams without a word."""
    from ..absint import ClassRef, Interp, PyRaise, Undecided
    cls = repo.cls(QUEUE_CLS)
    interp = Interp(repo, max_depth=8)
    try:
        q = interp.apply(ClassRef(cls), [], {})
        items = [(b"<HELLO>SPA%03d|Spa %d</HELLO>" % (i, i), ("10.0.%d.%d" % (i // 200, i % 200 + 1), 10022)) for i in range(n)]
        for x in items:
            interp.steps = 0
            interp.apply(interp.getattr(q, "put_nowait"), [x], {})
        got = []
        for _ in range(n + 5):
            interp.steps = 0
            h = interp.getattr(q, "head")
            if h is None:
                break
            got.append(h)
            interp.call(repo.method(QUEUE_CLS, "pop"), q, [])
    except PyRaise as e:
        got = f"raises {e.what}"
    except Undecided as e:
        raise AnalysisError(f"{QUEUE_CLS}: {n} datagrams through put_nowait / head / pop: cannot interpret: {e}")
    ok = isinstance(got, list) and len(got) == n and all(a is b or a == b for a, b in zip(got, items))
    what = (f"{len(got)} come out, the first being {got[0][0][:14] if got else None!r}" if isinstance(got, list) else got)
    ctx.ob(rule, f"{QUEUE_CLS}::{n}-waiting::all-handed-out-oldest-first", ok,
           f"{QUEUE_CLS}: {n} datagrams queued before the consumer wakes: {what} - expected all {n}, oldest first: replies still waiting when more arrive are dropped "
           f"without an error (a discovery with more spas than the hidden bound lists only the last ones; a burst of partial updates loses its oldest)", repo.method(QUEUE_CLS, "pop").loc,
           sample={"rule": rule, "queued": n, "handed_out": len(got) if isinstance(got, list) else str(got)})


def acceptance_by_complete_verb(ctx, repo, rule):
    """can_handle of every verb consumer, interpreted on adversarial datagrams derived from the verbs the library emits:
    every proper prefix of every verb (the empty datagram included), every verb with its last byte replaced, a verb
    stem followed by another verb's last byte, and the bare framing tags.  None of them is the consumer's verb, so none
    may be claimed: such a datagram must fall to the discard consumer (a consumer that accepts it decodes fields that
    are not there - it dies, or acknowledges traffic that was never sent)."""
    from ..absint import Interp, PyRaise, Undecided
    from .c04 import CATCH_ALL, SENDER, build_message, can_handle, fresh_handler, handler_classes, message_table, wire_of
    from ..symbytes import SymBytes
    interp = Interp(repo, max_depth=10)
    classes = [c for c in handler_classes(repo) if c.short not in CATCH_ALL]
    verbs = set()
    for cname, builder, args, _expect, _desc in message_table():
        try:
            w = wire_of(build_message(repo, interp, cname, builder, args))
        except (PyRaise, Undecided):
            continue
        if w is None:
            continue
        cells = SymBytes.of(w).cells[:5]
        if len(cells) == 5 and all(isinstance(x, int) for x in cells) and not bytes(cells).startswith(b"<"):
            verbs.add(bytes(cells))
    # ... and the verbs the protocol modules name as constants (STATQ is only ever sent from inside a decoder)
    import ast as _ast
    for m in repo.all_mods():
        if not m.rel.startswith("src/geckolib/driver/protocol/"):
            continue
        for st in m.tree.body:
            if isinstance(st, _ast.Assign) and isinstance(st.value, _ast.Constant) and isinstance(st.value.value, bytes) and len(st.value.value) == 5 and st.value.value.isalpha():
                verbs.add(st.value.value)
    ctx.floor(rule, "verbs emitted by the builders or named by the protocol modules", len(verbs), 22)
    probes = {b""}
    lasts = {v[4:] for v in verbs}
    for v in verbs:
        for k in range(1, 5):
            probes.add(v[:k])
        for other in (b"?", b"\x00") + tuple(lasts):
            cand = v[:4] + other
            if cand not in verbs:
                probes.add(cand)
                probes.add(cand + b"\x01\x00\x00\x00\x27")
    probes |= {b"<PACKT>", b"<HELLO>", b"</PACKT>", b"</HELLO>", b"<PACK", b"<HELL"}
    n = 0
    for c in classes:
        claimed = []
        # ... and another consumer's message that merely CONTAINS this consumer's verb (in its payload): the verb is the
        # first five bytes of a datagram, nothing else
        own = []
        for v in sorted(verbs):
            try:
                if can_handle(repo, interp, c, fresh_handler(repo, interp, c), v + bytes(6)):
                    own.append(v)
            except (PyRaise, Undecided):
                pass
        embedded = {v + b"\x00\x01" + w + b"\x02\x03" for w in own for v in verbs if v not in own}
        for pr in sorted(probes | embedded):
            try:
                if can_handle(repo, interp, c, fresh_handler(repo, interp, c), pr):
                    claimed.append(pr)
            except PyRaise as e:
                claimed.append(pr + b" (raises " + e.what.encode() + b")")
            except Undecided as e:
                from ..core import AnalysisError
                raise AnalysisError(f"{c.short}.can_handle on {pr!r}: {e}")
            n += 1
        ctx.ob(rule, f"{c.short}.can_handle::claims-only-complete-verbs", not claimed,
               f"{c.short}.can_handle claims (or raises on) {len(claimed)} datagram(s) that do not START with one of its verbs (truncated / unknown verbs, bare tags, another consumer's message with this verb in its payload), e.g. {claimed[:3]}: "
               f"a truncated or unknown verb is taken by a consumer that does not accept it instead of being discarded as unhandled", repo.method(c.short, "can_handle").loc,
               sample={"rule": rule, "class": c.short, "probes": len(probes), "claimed": [repr(x) for x in claimed[:5]]})
    ctx.count(f"{rule}:can_handle probes", n)
    ctx.floor(rule, "can_handle probes", n, 12 * 100)


def one_taker_per_datagram(ctx, repo, rule):
    """On one connection the long-lived consumers and the request waiters poll the same queue; which of them wakes first
    after a datagram arrives is a matter of timing.  The only thing that makes the order irrelevant is that they accept
    DISJOINT sets of datagrams.  For every long-lived consumer `_connect` starts (connection model) and every other
    handler class the awaitable connection builds requests from: no verb (followed by a payload) is accepted by both."""
    import ast as _ast
    from ..absint import Interp, PyRaise, Undecided
    from ..facts import connection_tasks
    from .c04 import CATCH_ALL, can_handle, fresh_handler, handler_classes
    interp = Interp(repo, max_depth=10)
    long_lived = sorted({t["handler"] for t in connection_tasks(repo) if t["kind"] == "consume" and t["handler"] and t["handler"] not in CATCH_ALL})
    ctx.floor(rule, "long-lived verb consumers of the awaitable connection", len(long_lived), 3)
    classes = {c.short: c for c in handler_classes(repo) if c.short not in CATCH_ALL}
    used = set()
    for owner in ("GeckoAsyncSpa", "GeckoAsyncStructure"):
        for f in repo.all_methods(owner).values():
            for n in _ast.walk(f.node):
                if isinstance(n, _ast.Name) and n.id in classes:
                    used.add(n.id)
    verbs = set()
    for m in repo.all_mods():
        for st in m.tree.body:
            if isinstance(st, _ast.Assign) and isinstance(st.value, _ast.Constant) and isinstance(st.value.value, bytes) and len(st.value.value) == 5 and st.value.value.isalpha():
                verbs.add(st.value.value)
    ctx.floor(rule, "verbs named by the protocol modules", len(verbs), 20)

    def accepts(cname):
        out = set()
        for v in sorted(verbs):
            for payload in (bytes(6), b"\x01"):
                try:
                    if can_handle(repo, interp, classes[cname], fresh_handler(repo, interp, classes[cname]), v + payload):
                        out.add(v)
                except (PyRaise, Undecided):
                    pass
        return out
    acc = {c: accepts(c) for c in sorted(used | set(long_lived)) if c in classes}
    n = 0
    for L in long_lived:
        if L not in acc:
            continue
        for C, vs in sorted(acc.items()):
            if C == L:
                continue
            n += 1
            both = sorted(acc[L] & vs)
            ctx.ob(rule, f"{L}::{C}::disjoint", not both,
                   f"{L} (a long-lived consumer of the connection) and {C} (built by the connection for a request) both accept {both}: whichever polls first after the datagram arrives takes it - "
                   f"taken by the waiter, the consumer's event is never raised and the waiter's real reply is left to the discard consumer", repo.method(C, "can_handle").loc,
                   sample={"rule": rule, "consumer": L, "other": C, "shared": [v.decode() for v in both]})
    ctx.count(f"{rule}:consumer/handler pairs compared", n)
    ctx.floor(rule, "consumer/handler pairs compared", n, 20)


def check_queue_class(ctx, repo):
    c = repo.cls(QUEUE_CLS)
    ctx.rule("R11", "whose packet it is: the identifier pair the addressed-to-me test compares is the one in the packet's OWN header (the first of the datagram), whatever the payload contains - a foreign packet whose payload embeds a complete header naming this connection still reads as foreign (packet handler interpreted on concrete nested frames)")
    from .c04 import outer_header_wins as _ohw7
    _ohw7(ctx, repo, "R11")
    queue_model(ctx, repo, "R3")
    nothing_queued_is_lost(ctx, repo, "R3")
    ctx.rule("R10", "one taker per datagram: the long-lived consumers `_connect` starts and the handler classes the connection builds requests from accept pairwise disjoint verbs (can_handle interpreted on every verb the protocol modules name) - the consumers poll one queue and nothing else orders them")
    one_taker_per_datagram(ctx, repo, "R10")
    ctx.rule("R7", "head-of-line: one pass of the discard consumer, interpreted on a real peekable queue, removes a datagram nobody claimed after one mark-and-wait interval whether the request lock is free or held, and removes nothing when the marked datagram was taken meanwhile")
    discard_consumer_model(ctx, repo, "R7")
    ctx.rule("R8", "acceptance is by complete verb: no verb consumer claims a datagram that is a truncated verb, an unknown verb sharing a stem with a known one, or a bare framing tag (can_handle of every handler class interpreted on the derived probe set)")
    acceptance_by_complete_verb(ctx, repo, "R8")
    # the mark flag has no other writer in the package
    writers = []
    for fi in repo.all_functions():
        for n in walk_no_nested(fi.node):
            if isinstance(n, ast.Attribute) and n.attr == "_marked" and isinstance(n.ctx, ast.Store):
                writers.append(fi.qual)
    allowed = {f"{QUEUE_CLS}.__init__", f"{QUEUE_CLS}.pop", f"{QUEUE_CLS}.mark"}
    ctx.ob("R2", "mark-flag::who-may-write", set(writers) <= allowed,
           f"_marked written outside {sorted(allowed)}: {sorted(set(writers) - allowed)}")


def packet_fields_fresh(ctx, repo, rule):
    fi = repo.method("GeckoAsyncSpa", "_async_on_packet")
    # the callback reads handler.parms / handler.packet_content of a LONG-LIVED handler: both must be
    # (re)assigned by every handled datagram, or a malformed packet is judged by the previous packet's
    # identifiers and the previous content is re-queued (consumed twice)
    def underlying(cname, prop):
        pm = repo.method(cname, prop, required=False)
        if pm is not None and pm.is_property:
            rets = [ast.unparse(x.value) for x in ast.walk(pm.node) if isinstance(x, ast.Return) and x.value is not None]
            if len(rets) == 1 and rets[0].startswith("self."):
                return rets[0][5:]
        return prop

    hp = fi.node.args.args[1].arg
    read = sorted({x.attr for x in ast.walk(fi.node) if isinstance(x, ast.Attribute) and isinstance(x.value, ast.Name) and x.value.id == hp})
    pk = "GeckoPacketProtocolHandler"
    hfi = repo.method(pk, "handle")
    gh = cfg_of(hfi)
    ctx.floor(rule, "handler attributes read by _async_on_packet", len(read), 2)
    for a in read:
        attr = underlying(pk, a)
        asg = [x for x in gh.stmt_nodes() if isinstance(x.ast, ast.Assign) and any(
            isinstance(tt, ast.Attribute) and tt.attr == attr and isinstance(tt.value, ast.Name) and tt.value.id == "self" and isinstance(tt.ctx, ast.Store)
            for t in x.ast.targets for tt in ast.walk(t))]
        ok = bool(asg) and gh.exit not in gh.reach_from(gh.entry, avoid=asg, labels_skip=("exc",))
        ctx.ob(rule, f"{pk}.handle::assigns-{attr}-for-every-datagram", ok,
               f"{pk}.handle can return without assigning self.{attr}: the long-lived packet consumer's callback would then see the value left by the PREVIOUS packet "
               f"(a malformed or foreign packet passes the identifier check with stale identifiers and the old content is delivered again)", hfi.loc)


def check(ctx):
    repo = Repo()
    ctx.rule("R1", "peek-check-pop atomic and matched: at each pop site the popped element is the one read from queue.head, no suspension point between read, can_handle test and pop; same values handed to the handler")
    ctx.rule("R2", "who may pop/mark: removal from a protocol queue only at the three consumer sites; mark() only in the discard consumer; queue internals untouched elsewhere")
    ctx.rule("R3", "mark protocol: pop clears the mark; the discard consumer pops only under is_marked after a suspension that follows mark()")
    ctx.rule("R4", "addressed: packet content is re-queued only under handler.parms == self.sendparms")
    ctx.rule("R5", "every consumer is started in _connect (incl. the discard consumer); consume loops suspend every iteration and exit only via should_remove_handler")
    ctx.rule("R6", "wait_for_response returns True only after pop+handle and False only on the has_timedout edge")
    ctx.rule("R9", "each connection has its own receive queue: no constructor keeps a default-argument object (`queue=AsyncPeekableQueue()` is evaluated once, at definition) nor a class-level container in an instance attribute - else datagrams received on one connection are taken, marked or discarded by another connection's consumers (C10.R8 borrowed)")
    from .c10 import no_shared_defaults as _nsd, shared_class_state as _scs
    _nsd(ctx.borrowed("R9", "C10"), repo, "R8")
    _scs(ctx.borrowed("R9", "C10"), repo, "R8", only_under="/driver/")

    sites = queue_sites(repo)
    pops = [(fi, c, nm, r) for fi, c, nm, r in sites if nm in REMOVERS]
    marks = [(fi, c, nm, r) for fi, c, nm, r in sites if nm == "mark"]
    ctx.floor("R1", "pop sites", len(pops), 2)
    # the three consumers, wherever the class hierarchy keeps their definitions (the base handler's own body, or a mixin
    # it inherits them from): what runs as BASE.wait_for_response / BASE.consume / UNHANDLED.consume
    Q_WAIT = repo.method(BASE, "wait_for_response").qual
    Q_CONSUME = repo.method(BASE, "consume").qual
    Q_DISCARD = repo.method(UNHANDLED, "consume").qual
    allowed = {Q_WAIT, Q_CONSUME, Q_DISCARD}
    # a helper of a consumer is that consumer: a private method / module function every caller of which is an allowed
    # function (or such a helper) removes on its behalf
    from ..callgraph import callgraph as _cgf
    _cg = _cgf(repo)
    _callers = {}
    for f_ in _cg.funcs:
        for c_ in _cg.callees(f_):
            _callers.setdefault(id(c_.node), set()).add(f_.qual)
    changed = True
    while changed:
        changed = False
        for fi_, c_, nm_, r_ in pops:
            cs_ = _callers.get(id(fi_.node), set())
            if fi_.qual not in allowed and fi_.name.startswith("_") and cs_ and cs_ <= allowed:
                allowed.add(fi_.qual)
                changed = True
    helpers_of_discard = {q for q in allowed if any(fi_.qual == q and (_callers.get(id(fi_.node), set()) & {Q_DISCARD}) for fi_, c_, nm_, r_ in pops)}
    for fi, c, nm, r in pops:
        ctx.ob("R2", f"{fi.qual}::{nm}", fi.qual in allowed,
               f"{fi.qual} removes from a protocol queue ({r}.{nm}()); only {sorted(allowed)} may", loc(fi, c))
        if nm != "pop":
            ctx.ob("R2", f"{fi.qual}::{nm}::via-pop", False,
                   f"{fi.qual} removes with {nm}() which bypasses AsyncPeekableQueue.pop (mark not cleared)", loc(fi, c))
            continue
        if fi.qual in allowed and fi.qual in (Q_WAIT, Q_CONSUME, Q_DISCARD):
            check_pop_site(ctx, repo, fi, c, discard=(fi.cls.short == UNHANDLED))
        elif fi.qual in allowed:
            ctx.note(f"{fi.qual}: removes on behalf of its caller(s) - the peek / accept / pop pairing of that path is decided by the interpreted consumer, wait and discard models")
    for fi, c, nm, r in marks:
        ctx.ob("R2", f"{fi.qual}::mark", fi.qual == Q_DISCARD,
               f"{fi.qual} marks the queue; only the discard consumer may", loc(fi, c))
    if not marks:
        ctx.note("no `<queue>.mark()` call site found (a bound method, a helper): the mark protocol is decided by the queue model (R3) and the discard-consumer model (R7) only")
    # queue internals
    for fi in repo.all_functions():
        if fi.cls is not None and fi.cls.short == QUEUE_CLS:
            continue
        for n in walk_no_nested(fi.node):
            if isinstance(n, ast.Attribute) and n.attr == "_queue" and _is_queue_recv(ast.unparse(n.value)):
                ctx.ob("R2", f"{fi.qual}::_queue", False, f"{fi.qual} touches the queue's internal deque", loc(fi, n))
    check_queue_class(ctx, repo)

    # positive control for the zero-count who-may-pop rule
    from ..fixtures import positive_control
    positive_control(ctx, "R2", "c07_rogue_pop.py", lambda r2: [
        (fi.qual, nm) for fi, c, nm, r in queue_sites(r2) if nm in REMOVERS and fi.qual not in allowed])

    # ---- R4 addressed ------------------------------------------------------
    fi = repo.method("GeckoAsyncSpa", "_async_on_packet")
    g = cfg_of(fi)
    rq = g.nodes_calling("datagram_received")
    ctx.floor("R4", "re-queue sites", len(rq), 1)
    for n, c in rq:
        facts = g.guard_atoms(n)
        ok = any(p and "==" in t and "parms" in t and "sendparms" in t for t, p in facts)
        ctx.ob("R4", f"{fi.qual}::requeue-guard", ok,
               f"{fi.qual}: packet content re-queued without the identifier-pair comparison (guards: {sorted(facts)})", loc(fi, c),
               sample={"rule": "R4", "site": loc(fi, c), "guards": sorted(map(str, facts))})
        a0 = ast.unparse(c.args[0]) if c.args else ""
        ctx.ob("R4", f"{fi.qual}::requeue-content", a0.endswith(".packet_content"),
               f"{fi.qual}: re-queues `{a0}` instead of the extracted packet content", loc(fi, c))
    packet_fields_fresh(ctx, repo, "R4")
    # any other caller of datagram_received inside the package?
    others = []
    for f2 in repo.all_functions():
        for n in walk_no_nested(f2.node):
            if isinstance(n, ast.Call) and call_name(n) == "datagram_received" and f2.qual != fi.qual:
                others.append(f2.qual)
    ctx.ob("R4", "datagram_received::who-may-call", not others, f"datagram_received also called from {others}")
    sp = repo.method("GeckoAsyncSpa", "sendparms")
    # by behaviour: the connection object built by its constructor (connection model) reports
    # (spa ip, spa port, spa identifier, client identifier) - a tuple, or a NamedTuple that is one
    from ..facts import ConnectionModel
    from .c04 import as_tuple as _as_tuple
    from ..absint import PyRaise as _PR4, Undecided as _UD4
    try:
        _cm4 = ConnectionModel(repo, connect=False)
        _sp = _as_tuple(_cm4.it.getattr(_cm4.spa, "sendparms"))
    except (_PR4, _UD4) as e:
        raise AnalysisError(f"GeckoAsyncSpa.sendparms on the connection model: {e}")
    ok = isinstance(_sp, tuple) and tuple(_sp) == ("10.0.0.5", 10022, b"SPA-ID", b"CLIENT-ID")
    ctx.ob("R4", "GeckoAsyncSpa.sendparms::orientation", ok,
           "sendparms is not (ip, port, spa identifier, client identifier) - the orientation GeckoPacketProtocolHandler.handle produces for packets from the spa", sp.loc)

    # ---- R5 consumers started ---------------------------------------------
    con = repo.method("GeckoAsyncSpa", "_connect")
    from ..facts import connection_tasks
    started = [t["handler"] for t in connection_tasks(repo) if t["kind"] == "consume" and t["handler"]]   # _connect interpreted on a model event loop
    ctx.floor("R5", "consumer tasks started in _connect", len(started), 5)
    # required by role: the discard consumer (class overriding consume) and every
    # handler class whose can_handle accepts traffic the spa sends unsolicited
    required = [UNHANDLED, "GeckoPacketProtocolHandler", "GeckoAsyncPartialStatusBlockProtocolHandler",
                "GeckoRFErrProtocolHandler", "GeckoWatercareErrorHandler"]
    for r in required:
        ctx.ob("R5", f"_connect::starts::{r}", r in started,
               f"GeckoAsyncSpa._connect does not start a consume task for {r} (started: {started})", con.loc)
    # the base consumer's loop by interpretation (C05's consume model): takes only what its handler accepts, one datagram
    # at a time, yields on every pass, goes on while not flagged for removal and ends once flagged
    from .c05 import consume_pairing
    consume_pairing(ctx, repo, "R5", rule_exit="R5")
    for qual in (Q_DISCARD,):
        f2 = repo.func(qual)
        g2 = cfg_of(f2)
        heads = {h for _, h in g2.back_edges}
        ctx.ob("R5", f"{qual}::is-loop", bool(heads), f"{qual} has no loop", f2.loc)
        for h in heads:
            body = g2.loop_body(h) | {h}
            # every cycle through h passes a suspension point: remove suspension nodes, h must not reach itself
            avoid = [x for x in body if x.suspends]
            cyc = h in g2.reach_from(h, avoid=avoid)
            ctx.ob("R5", f"{qual}::yields-every-iteration", not cyc,
                   f"{qual}: a loop iteration without any suspension point exists (busy loop starves every other consumer)", f2.loc)
        # exits
        for p, label in g2.pred[g2.exit]:
            facts = g2.guard_atoms(p)
            ok = any(p2 and t.endswith("should_remove_handler") for t, p2 in facts)
            if not ok:
                # loop-flag idiom: `keep = True ... while keep: ...; keep = not self.should_remove_handler`
                for t, p2 in facts:
                    if t.isidentifier():
                        defs = [n3.ast.value for n3 in g2.stmt_nodes() if isinstance(n3.ast, ast.Assign) and any(isinstance(x, ast.Name) and x.id == t for x in n3.ast.targets)]
                        consts = [d for d in defs if isinstance(d, ast.Constant)]
                        exprs = [d for d in defs if not isinstance(d, ast.Constant)]
                        if exprs and all(bool(cn.value) != p2 for cn in consts):
                            # the flag can only have polarity p2 through one of the expressions
                            from ..cfg import atoms as _atoms
                            if all(any(tt.endswith("should_remove_handler") and pp for tt, pp in _atoms(e, p2)) for e in exprs):
                                ok = True
            ctx.ob("R5", f"{qual}::exit-only-when-removed", ok,
                   f"{qual}: can terminate (L{p.lineno}) without should_remove_handler being set; guards {sorted(facts)}", loc(f2, p.ast) if p.ast else f2.loc)

    # ---- R6 wait_for_response outcomes -------------------------------------
    w = repo.method(BASE, "wait_for_response")
    from ..handlermodel import wait_model
    wait_model(ctx.borrowed("R6", "C06", key_contains="wait_for_response::"), repo, "R5", "R5")
    gw = cfg_of(w)
    pops_w = [n for n, c in gw.nodes_calling("pop")]
    if not pops_w:
        ctx.note(f"{w.qual}: no queue.pop() in the function itself (a helper claims the head) - its outcomes are decided by the interpreted scenarios only")
    for n in gw.stmt_nodes():
        if isinstance(n.ast, ast.Return):
            v = repo.try_fold(n.ast.value, default="?") if n.ast.value is not None else None
            if v is True and not pops_w:
                continue
            if v is True:
                ok = any(gw.dom_ps(p, n) for p in pops_w) and any(gw.dom_ps(hn, n) for hn, c in gw.nodes_calling("async_handle"))
                ctx.ob("R6", f"{w.qual}::true-only-after-pop", ok, f"{w.qual} returns True (L{n.lineno}) on a path that did not pop and handle a datagram", loc(w, n.ast))
            elif v is False or v is None:
                facts = gw.iter_guard_atoms(n)
                ok = any(p and t.endswith("has_timedout") for t, p in facts)
                ctx.ob("R6", f"{w.qual}::false-only-on-timeout", ok, f"{w.qual} reports failure (L{n.lineno}) without has_timedout; guards {sorted(facts)}", loc(w, n.ast))
            else:
                ctx.ob("R6", f"{w.qual}::bool-result", False, f"{w.qual} returns non-constant {ast.unparse(n.ast)}", loc(w, n.ast))
    ctx.assume("asyncio tasks interleave only at await (cooperative scheduling)")
    ctx.assume("asyncio.Queue delivers FIFO; put_nowait appends at the tail")


def who_may_remove(ctx, repo, rule):
    """only the consumers (wait_for_response, consume, the discard consumer) and their private helpers take datagrams off
    a protocol queue - anything else that pops (a request engine that flushes the shared queue when an attempt times out)
    throws away what OTHER consumers of the connection were about to handle.  Stand-alone form of R2's who-may-pop part."""
    sites = queue_sites(repo)
    pops = [(fi, c, nm, r) for fi, c, nm, r in sites if nm in REMOVERS]
    allowed = {repo.method(BASE, "wait_for_response").qual, repo.method(BASE, "consume").qual, repo.method(UNHANDLED, "consume").qual}
    from ..callgraph import callgraph as _cgf
    _cg = _cgf(repo)
    _callers = {}
    for f_ in _cg.funcs:
        for c_ in _cg.callees(f_):
            _callers.setdefault(id(c_.node), set()).add(f_.qual)
    changed = True
    while changed:
        changed = False
        for fi_, c_, nm_, r_ in pops:
            cs_ = _callers.get(id(fi_.node), set())
            if fi_.qual not in allowed and fi_.name.startswith("_") and cs_ and cs_ <= allowed:
                allowed.add(fi_.qual)
                changed = True
    for fi, c, nm, r in pops:
        ctx.ob(rule, f"{fi.qual}::{nm}", fi.qual in allowed,
               f"{fi.qual} removes from a protocol queue ({r}.{nm}()); only {sorted(allowed)} may", loc(fi, c))
    ctx.floor(rule, "sites that remove from a protocol queue", len(pops), 2)
