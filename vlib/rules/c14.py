"""C14 - temperature values, units, limits and heater operation are consistent.

R1 affine inverse pair (Affine domain, exact rationals): reader and both writers of
GeckoTempStructAccessor are interpreted with a SYMBOLIC raw word / temperature.
R2 unit consistency of symbol and limits.  R3 operation decision ladder (all
combinations of flag presence/state and the three orderings of the temperatures).
NOT decided: IEEE-754 exactness of the read-back for every word, the one-step bound.
"""
from __future__ import annotations

import ast
from fractions import Fraction

from ..absint import Affine, BoundMethod, Interp, Native, Obj, PyRaise, SuperRef, Undecided
from ..core import AnalysisError
from ..src import Repo

ACC = "GeckoTempStructAccessor"


def _make_accessor(repo, interp, cls, units):
    """A temperature accessor built by /repo's own constructor chain on a structure whose units item - a real
    GeckoEnumStructAccessor over real bytes, labelled as most shipped tables label it (F first) - reads `units`
    (a unit that is neither C nor F: a byte past the label list, which reads 'Unknown'), however it is asked for
    (.value, ._get_value(), .raw_value)."""
    from ..absint import ClassRef
    labels = ["F", "C"]
    blk = bytearray(16)
    blk[8] = labels.index(units) if units in labels else 3
    st = Obj(None, {"accessors": {}, "status_block": bytes(blk)})
    hook = interp.call_hook
    interp.call_hook = None
    try:
        u = interp.apply(ClassRef(repo.cls("GeckoEnumStructAccessor")), [st, "TempUnits", 8, 0, list(labels), None, 4, "ALL"], {})
        st.attrs["accessors"] = {"TempUnits": u}
        obj = interp.apply(ClassRef(cls), [st, "Temp", 0, "ALL"], {})
    finally:
        interp.call_hook = hook
    return obj


def _switch_units(obj, units):
    """the spa reports another unit: the byte behind the units item of _make_accessor's structure changes (no
    notification is delivered)"""
    st = obj.attrs["struct"]
    blk = bytearray(st.attrs["status_block"])
    blk[8] = ["F", "C"].index(units) if units in ("F", "C") else 3
    st.attrs["status_block"] = bytes(blk)


def unit_sources(repo, fi, depth=0):
    """Where does the value compared with 'C' in fi come from?  -> list of (kind, text)
    kind: 'live' (read from the TempUnits accessor's .value within the call),
          'cached' (a stored attribute), 'unknown'"""
    out = []
    cls = fi.cls

    def resolve(e, f, d):
        t = ast.unparse(e)
        if isinstance(e, ast.Name):
            defs = [n for n in ast.walk(f.node) if isinstance(n, ast.Assign) and any(isinstance(x, ast.Name) and x.id == e.id for x in n.targets)]
            if len(defs) == 1:
                return resolve(defs[0].value, f, d)
            return ("unknown", t)
        if isinstance(e, ast.Attribute) and e.attr == "value":
            b = ast.unparse(e.value)
            if "KEY_TEMP_UNITS" in b or b.endswith("_temperature_unit_accessor") or b.endswith("_unit_of_measurement_accessor"):
                return ("live", t)
            return ("unknown", t)
        if isinstance(e, ast.Attribute) and isinstance(e.value, ast.Name) and e.value.id == "self" and d < 3:
            for k in repo.mro(cls):
                if e.attr in k.methods and k.methods[e.attr].is_property:
                    prop = k.methods[e.attr]
                    rets = [n.value for n in ast.walk(prop.node) if isinstance(n, ast.Return) and n.value is not None]
                    kinds = [resolve(r, prop, d + 1) for r in rets]
                    if kinds and all(x[0] == "live" for x in kinds):
                        return ("live", t)
                    bad = [x for x in kinds if x[0] != "live"]
                    return bad[0] if bad else ("unknown", t)
            return ("cached", t)
        return ("unknown", t)

    for n in ast.walk(fi.node):
        if isinstance(n, ast.Compare) and len(n.ops) == 1 and isinstance(n.comparators[0], ast.Constant) and n.comparators[0].value == "C":
            out.append(resolve(n.left, fi, depth))
    return out


def run_reader(repo, units):
    interp = Interp(repo)
    cls = repo.cls(ACC)

    def hook(ip, node, callee, args, kwargs):
        if isinstance(callee, BoundMethod) and callee.fi.name == "_get_value" and getattr(callee.fi.cls, "short", None) != ACC and "Enum" not in getattr(getattr(callee.obj, "cls", None), "short", ""):
            return Affine.var()
        return NotImplemented

    interp.call_hook = hook
    obj = _make_accessor(repo, interp, cls, units)
    return interp.call(repo.own_method(ACC, "_get_value"), obj, [None])


def run_writer(repo, method, units):
    interp = Interp(repo)
    cls = repo.cls(ACC)
    got = []

    def hook(ip, node, callee, args, kwargs):
        if isinstance(callee, BoundMethod) and callee.fi.name == method and getattr(callee.fi.cls, "short", None) != ACC:
            got.append(args[0])
            return None
        return NotImplemented

    interp.call_hook = hook
    obj = _make_accessor(repo, interp, cls, units)
    st = obj.attrs.get("struct")
    if isinstance(st, Obj):   # a writer that hands the word to the structure itself instead of to the base class's writer
        for nm in ("set_value", "async_set_value"):
            st.attrs.setdefault(nm, Native(lambda a, k: got.append(a[2]) if len(a) > 2 else None, nm))
    interp.call(repo.own_method(ACC, method), obj, [Affine.var()])
    if len(got) != 1:
        raise Undecided(f"{method} delegated {len(got)} times")
    return got[0]


def build_heater(repo, interp, units="C", heating=None, cooling=None, current=20.0, target=21.0, real_target=20.0):
    """GeckoWaterHeater built by its own constructor on a model spa (vlib/facademodel.py); heating / cooling
    None = the pack has no such flag item"""
    from ..absint import ClassRef
    from ..facademodel import Rec, accessor as _acc, model_facade
    rec = Rec()
    gc = repo.cls("GeckoConstants")
    K = {k: repo.fold(gc.consts[k], gc.mod, gc) for k in ("KEY_TEMP_UNITS", "KEY_SETPOINT_G", "KEY_DISPLAYED_TEMP_G", "KEY_REAL_SETPOINT_G", "KEY_HEATING", "KEY_COOLINGDOWN")}
    accs = {K["KEY_TEMP_UNITS"]: _acc(rec, "TempUnits", units, "Enum", ["F", "C"]),
            K["KEY_SETPOINT_G"]: _acc(rec, K["KEY_SETPOINT_G"], target, "Word"),
            K["KEY_DISPLAYED_TEMP_G"]: _acc(rec, K["KEY_DISPLAYED_TEMP_G"], current, "Word"),
            K["KEY_REAL_SETPOINT_G"]: _acc(rec, K["KEY_REAL_SETPOINT_G"], real_target, "Word")}
    if heating is not None:
        accs[K["KEY_HEATING"]] = _acc(rec, K["KEY_HEATING"], heating, "Bool")
    if cooling is not None:
        accs[K["KEY_COOLINGDOWN"]] = _acc(rec, K["KEY_COOLINGDOWN"], cooling, "Bool")
    fac, _spa = model_facade(rec, accs)
    interp.steps = 0
    return interp.apply(ClassRef(repo.cls("GeckoWaterHeater")), [fac], {}), accs, rec


def check_heater_setters(ctx, repo):
    """R5: the heater's two setters hand the caller's value, unchanged, to the temperature accessor on
    every path (a skipped or altered write cannot read back exactly)"""
    from ..cfg import cfg_of
    n_ok = 0
    for name, want_attr in (("set_target_temperature", ("value", "set_value")), ("async_set_target_temperature", ("async_set_value",))):
        fi = repo.own_method("GeckoWaterHeater", name)
        params = [a.arg for a in fi.node.args.args if a.arg != "self"]
        if len(params) != 1:
            ctx.error(f"{fi.qual}: expected one value parameter, found {params}")
            continue
        par = params[0]
        g = cfg_of(fi)
        writes = []
        for n in g.stmt_nodes():
            st = n.ast
            if isinstance(st, ast.Assign) and len(st.targets) == 1 and isinstance(st.targets[0], ast.Attribute) and st.targets[0].attr == "value" \
                    and ast.unparse(st.targets[0].value).endswith(".accessor") and "value" in want_attr:
                writes.append((n, st.value))
            for c in n.calls():
                if isinstance(c.func, ast.Attribute) and c.func.attr in want_attr and c.func.attr != "value" and ast.unparse(c.func.value).endswith(".accessor") and len(c.args) == 1:
                    writes.append((n, c.args[0]))
        if not writes:
            # the write is spelled some other way (a local bound to the accessor, a helper): decided by interpretation -
            # the heater is built by its constructor on a model facade whose accessors record writes; for values equal
            # to, below and above the current target the setter hands exactly the caller's value, once, to the target item
            from ..absint import Interp as _I5, PyRaise as _PR5, Undecided as _UD5
            gc_ = repo.cls("GeckoConstants")
            target_key = repo.fold(gc_.consts["KEY_SETPOINT_G"], gc_.mod, gc_)
            bad = []
            for v_ in (38.0, 21.5, 40, 38.5):
                it5 = _I5(repo, max_depth=12)
                try:
                    heater, _accs5, rec5 = build_heater(repo, it5, units="C", target=38.0)
                    rec5.log.clear()
                    it5.call(fi, heater, [v_])
                    w_ = [x for x in rec5.log if x[0] == "write"]
                except _PR5 as e_:
                    w_ = [("raises", e_.what)]
                except _UD5 as e_:
                    raise AnalysisError(f"{fi.qual}({v_}) on the model heater: {e_}")
                if not (w_ == [("write", target_key, v_)] or (v_ == 38.0 and w_ == [])):
                    bad.append((v_, w_))
            n_ok += 1
            ctx.ob("R5", f"{fi.qual}::writes-the-callers-value", not bad,
                   f"{fi.qual} on a model heater (target 38.0): (requested, writes made) = {bad[:3]} - expected exactly one write of the caller's value to the target item {target_key!r}", fi.loc,
                   sample={"rule": "R5", "setter": fi.qual, "mode": "interpreted"})
            continue
        # rebinding of the parameter before the write = altered value
        rebound = [n for n in g.stmt_nodes() for t in ast.walk(n.ast) if isinstance(t, ast.Name) and t.id == par and isinstance(t.ctx, ast.Store)]
        unchanged = all(isinstance(v, ast.Name) and v.id == par for _, v in writes) and not rebound
        ctx.ob("R5", f"{fi.qual}::writes-the-callers-value", unchanged,
               f"{fi.qual}: the value handed to the accessor is `{'`, `'.join(ast.unparse(v) for _, v in writes)}`{' after the parameter is rebound' if rebound else ''}, not the caller's `{par}`; the accessor's own conversion is the only rounding the round-trip argument (R1) allows",
               fi.loc, sample={"rule": "R5", "setter": fi.qual, "written": [ast.unparse(v) for _, v in writes]})
        every = any(g.pdom(w, g.entry) for w, _ in writes)
        skip = ""
        if not every:
            w = writes[0][0]
            atoms = g.guard_atoms(w)
            skip = "; ".join(("" if p else "not ") + t for t, p in atoms)

            def exact_eq_skip(t, p):
                # `if new == current: return` - skipping a write of the value already held reads back the same
                try:
                    e = ast.parse(t, mode="eval").body
                except SyntaxError:
                    return False
                if not (isinstance(e, ast.Compare) and len(e.ops) == 1):
                    return False
                sides = [ast.unparse(e.left), ast.unparse(e.comparators[0])]
                return par in sides and ((isinstance(e.ops[0], ast.Eq) and not p) or (isinstance(e.ops[0], ast.NotEq) and p))
            if atoms and all(exact_eq_skip(t, p) for t, p in atoms):
                every = True
                ctx.note(f"{fi.qual}: write skipped only when the requested value equals a current reading ({skip}) - accepted")
        ctx.ob("R5", f"{fi.qual}::writes-on-every-path", every,
               f"{fi.qual}: the write to the accessor is skipped unless [{skip}]: a representable temperature for which the guard fails is never written, so it does not read back",
               fi.loc)
        n_ok += 1
    ctx.floor("R5", "heater setters analysed", n_ok, 2)


def presented_value_follows_the_block(ctx, repo, rule):
    """A GeckoSensor on a real temperature item (and one on a plain byte item) built by the constructors on a model
    structure; the block is then replaced the way the structure does it - new bytes, then status_block_changed on every
    item - for (a) a unit flip with the temperature word unchanged, (b) a word change, (c) a byte change.  What the sensor
    presents afterwards must be what the item decodes from the new block."""
    from ..absint import ClassRef, Native, Obj
    from ..facademodel import Rec, model_facade
    gc = repo.cls("GeckoConstants")
    KEY = repo.fold(gc.consts["KEY_TEMP_UNITS"], gc.mod, gc)

    def block(unit_bit, word, byte):
        b = bytearray(64)
        b[13] = 0x04 if unit_bit else 0
        b[15], b[16] = word >> 8, word & 0xFF
        b[20] = byte
        return bytes(b)
    n = 0
    for label, before, after in (("unit-flips-word-unchanged", block(0, 675, 7), block(1, 675, 7)), ("word-changes", block(0, 675, 7), block(0, 700, 7)),
                                 ("unit-flips-back", block(1, 675, 7), block(0, 675, 7)), ("byte-changes", block(0, 675, 7), block(0, 675, 9))):
        it = Interp(repo, max_depth=14)
        st = Obj(None, {"status_block": before, "accessors": {}}, name="struct")
        try:
            units = it.apply(ClassRef(repo.cls("GeckoEnumStructAccessor")), [st, KEY, 13, 2, ["C", "F"], None, 2, "ALL"], {})
            temp = it.apply(ClassRef(repo.cls(ACC)), [st, "SetpointG", 15, "ALL"], {})
            byte = it.apply(ClassRef(repo.cls("GeckoByteStructAccessor")), [st, "SomeByte", 20, "ALL"], {})
            accs = {KEY: units, "SetpointG": temp, "SomeByte": byte}
            st.attrs["accessors"] = accs
            fac, _spa = model_facade(Rec(), accs, struct=st)
            s_temp = it.apply(ClassRef(repo.cls("GeckoSensor")), [fac, "Target", temp, units], {})
            s_byte = it.apply(ClassRef(repo.cls("GeckoSensor")), [fac, "Some byte", byte], {})
            first = (it.getattr(s_temp, "state"), it.getattr(s_byte, "state"))
            st.attrs["status_block"] = after
            for a in (units, temp, byte):
                it.steps = 0
                it.call(repo.method("GeckoStructAccessor", "status_block_changed"), a, [0, 64, before])
            got = (it.getattr(s_temp, "state"), it.getattr(s_byte, "state"), it.getattr(s_temp, "unit_of_measurement"))
            want = (it.getattr(temp, "value"), it.getattr(byte, "value"), it.getattr(units, "value"))
        except PyRaise as e:
            got, want, first = f"raises {e.what}", None, None
        except Undecided as e:
            raise AnalysisError(f"GeckoSensor on real items ({label}): {e}")
        n += 1
        ctx.ob(rule, f"GeckoSensor::{label}::presents-what-the-item-decodes", got == want and want is not None,
               f"GeckoSensor after {label.replace('-', ' ')}: presents (temperature, byte, unit) = {got}, while the items decode {want} from the new block (before the change it showed {first}): "
               f"the value a client reads back after the spa's echo is not the spa's", repo.method("GeckoSensor", "state").loc,
               sample={"rule": rule, "case": label, "presented": str(got)})
    ctx.floor(rule, "sensor block updates interpreted", n, 4)


def flag_sensors_on_shipped_items(ctx, repo, rule):
    """The heating / cooling flags as the shipped tables define them (a Bool item on some platforms, a 2-bit enum whose
    three non-empty labels all say 'Heating' on others): a GeckoBinarySensor built by its constructor on the REAL item
    over real bytes, for every raw value of the field, reads is_on == (the decoded value is a non-empty label other than
    'OFF' / the flag is set)."""
    from ..absint import ClassRef, Obj
    from ..facademodel import Rec, model_facade
    from ..packs import tables
    T = tables(repo)
    gc = repo.cls("GeckoConstants")
    keys = [repo.fold(gc.consts[k], gc.mod, gc) for k in ("KEY_HEATING", "KEY_COOLINGDOWN")]
    shapes = {}
    for stem, m in sorted(T.modules.items()):
        for k in keys:
            it_ = m.item(k)
            if it_ is not None:
                shapes.setdefault((k, it_.ctor, repr(it_.args[1:])), (it_, stem))
    ctx.floor(rule, "distinct heating / cooling flag item shapes in the shipped tables", len(shapes), 2)
    n = 0
    for (k, ctor, _a), (item, stem) in sorted(shapes.items()):
        g = T.geometry(item)
        pos, ln = g["pos"], g["length"]
        width = (g["bitmask"].bit_length() if g.get("bitmask") else 8 * ln)
        shift = g.get("bitpos") or 0
        for raw in range(min(1 << width, 16)):
            it = Interp(repo, max_depth=12)
            blk = bytearray(1024)
            word = raw << shift
            for i in range(ln):
                blk[pos + ln - 1 - i] = (word >> (8 * i)) & 0xFF
            st = Obj(None, {"status_block": bytes(blk), "accessors": {}}, name="struct")
            try:
                acc = it.apply(ClassRef(repo.cls(ctor)), [st] + list(item.args), {})
                st.attrs["accessors"] = {k: acc}
                fac, _spa = model_facade(Rec(), {k: acc}, struct=st)
                sensor = it.apply(ClassRef(repo.cls("GeckoBinarySensor")), [fac, k, acc], {})
                decoded = it.getattr(acc, "value")
                got = it.getattr(sensor, "is_on")
            except PyRaise as e:
                decoded, got = "?", f"raises {e.what}"
            except Undecided as e:
                raise AnalysisError(f"GeckoBinarySensor on {stem}::{k} (raw {raw}): {e}")
            want = decoded if isinstance(decoded, bool) else (isinstance(decoded, str) and decoded not in ("", "OFF", "Unknown"))
            n += 1
            ctx.ob(rule, f"GeckoBinarySensor.is_on::{k}::{ctor}::raw={raw}", got is want or got == want,
                   f"GeckoBinarySensor on {k} as {stem} defines it ({ctor}, labels {g.get('items')}): raw value {raw} decodes to {decoded!r} but is_on reads {got!r} - the heater's operation "
                   f"would contradict a raised {k} flag", repo.method("GeckoBinarySensor", "is_on").loc, sample={"rule": rule, "item": f"{stem}::{k}", "raw": raw, "decoded": str(decoded), "is_on": str(got)} if raw == 2 else None)
    ctx.floor(rule, "flag raw values interpreted", n, 6)


def exact_read_back(ctx, repo, rule, readers=None, writers=None):
    """writer(reader(raw)) == raw for every 16-bit word, both units, both writers - on the float programs the interpreter
    extracted from the reader and the writers (same operations, order and constants)"""
    if readers is None or writers is None:
        readers, writers = {}, {}
        for u in ("C", "F"):
            try:
                readers[u] = run_reader(repo, u)
                for method in ("_set_value", "async_set_value"):
                    writers[(method, u)] = run_writer(repo, method, u)
            except (PyRaise, Undecided) as e:
                raise AnalysisError(f"{ACC} float programs ({u}): {e}")
    n_rb = 0
    for method in ("_set_value", "async_set_value"):
        for u in ("C", "F"):
            w, rd = writers.get((method, u)), readers.get(u)
            if not (isinstance(w, Affine) and isinstance(rd, Affine)) or w.fn is None or rd.fn is None:
                ctx.error(f"{ACC}.{method} ({u}): float program not available (value did not flow from the symbolic input)")
                continue
            bad = []
            for raw in range(65536):
                try:
                    back = w.fn(rd.fn(raw))
                except Exception as ex:  # noqa: BLE001
                    back = f"raises {ex}"
                if back != raw:
                    bad.append((raw, back))
            n_rb += 65536
            inrange = [x for x in bad if 270 <= x[0] <= 720]
            ctx.ob(rule, f"{method}::{u}::exact-read-back", not bad,
                   f"{ACC}.{method} in unit {u}: {len(bad)} of the 65 536 representable words do not read back exactly in IEEE doubles "
                   f"({len(inrange)} inside the heater range), e.g. word {bad[0][0] if bad else ''} is presented as {rd.fn(bad[0][0]) if bad else ''} and written back as {bad[0][1] if bad else ''}",
                   repo.own_method(ACC, method).loc, sample={"rule": rule, "writer": method, "unit": u, "words": 65536, "mismatches": len(bad)})
    ctx.floor(rule, "word round trips evaluated", n_rb, 4 * 65536)


def temperature_on_real_bytes(ctx, repo, rule):
    """unit item and temperature item built by their constructors on a model structure; nine words across the 16-bit
    range x both units: presented value and write-back (see R8)"""
    from ..absint import ClassRef as _CR8, Native as _N8, Obj as _O8
    gc8 = repo.cls("GeckoConstants")
    KEY8 = repo.fold(gc8.consts["KEY_TEMP_UNITS"], gc8.mod, gc8)
    n8 = 0
    # the units item in every shape the shipped tables give it (a whole byte labelled F, C on most platforms; two bits
    # at bit 2 labelled C, F on inXM): which raw value means Celsius differs between them
    from ..packs import tables as _tables8
    T8 = _tables8(repo)
    shapes8 = {}
    for stem8, m8 in sorted(T8.modules.items()):
        i8 = m8.item(KEY8)
        if i8 is not None:
            shapes8.setdefault(repr(i8.args[2:]), list(i8.args[2:]))
    ctx.floor(rule, "shapes of the units item in the shipped tables", len(shapes8), 2)
    for shape8 in [s_ for _k, s_ in sorted(shapes8.items())]:
      bitpos8, labels8 = shape8[0], list(shape8[1])
      sk8 = "".join(labels8) + (f"@bit{bitpos8}" if bitpos8 is not None else "")
      for unit in ("C", "F"):
        for raw in (0, 1, 670, 671, 719, 32767, 32768, 40000, 65535):
            blk = bytearray(64)
            blk[13] = labels8.index(unit) << (bitpos8 or 0)
            blk[15], blk[16] = raw >> 8, raw & 0xFF
            it8 = Interp(repo, max_depth=12)
            writes = []
            st8 = _O8(None, {"status_block": bytes(blk), "accessors": {}}, name="struct")
            st8.attrs["set_value"] = _N8(lambda a, k, w=writes: w.append(tuple(a)), "set_value")
            st8.attrs["async_set_value"] = _N8(lambda a, k, w=writes: w.append(tuple(a)), "async_set_value")
            want = raw / 18.0 if unit == "C" else (raw + 320) / 10.0
            try:
                units8 = it8.apply(_CR8(repo.cls("GeckoEnumStructAccessor")), [st8, KEY8, 13] + [list(x_) if isinstance(x_, list) else x_ for x_ in shape8], {})
                temp8 = it8.apply(_CR8(repo.cls(ACC)), [st8, "SetpointG", 15, "ALL"], {})
                st8.attrs["accessors"] = {KEY8: units8, "SetpointG": temp8}
                it8.steps = 0
                shown = it8.getattr(temp8, "value")
                for wname in ("_set_value", "async_set_value"):
                    it8.steps = 0
                    it8.call(repo.method(ACC, wname), temp8, [want])
            except PyRaise as e:
                shown = f"raises {e.what}"
            except Undecided as e:
                raise AnalysisError(f"{ACC} on real bytes (raw {raw}, unit {unit}): {e}")
            n8 += 1
            import math as _m
            # the statement's formula over the reals: a last-place difference (x * 0.1 for x / 10) is not a different temperature
            ctx.ob(rule, f"{ACC}::presents::{sk8}::{unit}::raw={raw}", isinstance(shown, float) and _m.isclose(shown, want, rel_tol=1e-12, abs_tol=1e-12),
                   f"{ACC} presents the stored word {raw} (unit {unit}) as {shown!r}, expected {want!r} = {'raw/18' if unit == 'C' else '(raw+320)/10'}", repo.own_method(ACC, "_get_value").loc,
                   sample={"rule": rule, "raw": raw, "unit": unit, "presented": str(shown)} if raw in (670, 40000) else None)
            ctx.ob(rule, f"{ACC}::writes-back::{sk8}::{unit}::raw={raw}", [w[-1] for w in writes] == [raw, raw] and all(w[:2] == (15, 2) for w in writes),
                   f"writing {want!r} (unit {unit}, units item labelled {labels8}) through both writers hands {writes} to the device write, expected (15, 2, {raw}) twice", repo.own_method(ACC, "_set_value").loc)
    ctx.floor(rule, "temperature words on real bytes", n8, 36)


def check(ctx):
    repo = Repo()
    ctx.rule("R5", "heater setters are pass-through: set_target_temperature / async_set_target_temperature hand the caller's value unchanged to the accessor's setter on every path from entry")
    ctx.rule("R1", "affine inverse pair: reader is raw/18 (C) and (raw+320)/10 (F); each writer is its exact inverse over the rationals (writer(reader(x)) == x), slopes positive (order preserved), truncation to int is the only rounding; sync and async writers identical")
    ctx.rule("R2", "unit consistency: temperature_unit, min_temp and max_temp branch on the same unit value; Celsius constants on the 'C' arm, Fahrenheit otherwise; limits of the two units denote the same temperatures")
    ctx.rule("R4", "live unit: reader, both writers, symbol and limits each read the unit from the TempUnits item within the call (no cached copy), so they agree at every instant incl. inside change notifications")
    ctx.rule("R3", "operation ladder: truth table of current_operation over (heating flag absent/on/off) x (cooling flag absent/on/off) x (current <,=,> real target) equals the statement's decision")
    want_reader = {"C": (Fraction(1, 18), Fraction(0)), "F": (Fraction(1, 10), Fraction(32))}
    readers = {}
    for u in ("C", "F"):
        try:
            r = run_reader(repo, u)
        except (PyRaise, Undecided) as e:
            raise AnalysisError(f"{ACC}._get_value ({u}): {e}")
        ok = isinstance(r, Affine) and (r.a, r.b) == want_reader[u] and not r.truncated
        readers[u] = r
        ctx.ob("R1", f"reader::{u}", ok,
               f"{ACC}._get_value in unit {u} computes {r!r} of the raw word, expected {'raw/18' if u == 'C' else '(raw+320)/10'}",
               repo.own_method(ACC, "_get_value").loc, sample={"rule": "R1", "unit": u, "reader": repr(r)})
    # any other unit value behaves as Fahrenheit (the 'else' arm)
    try:
        r = run_reader(repo, "Unknown")
        ctx.ob("R1", "reader::other-unit-is-F", isinstance(r, Affine) and (r.a, r.b) == want_reader["F"], f"non-'C' unit values are not treated as Fahrenheit: {r!r}")
    except (PyRaise, Undecided) as e:
        raise AnalysisError(str(e))
    writers = {}
    for method in ("_set_value", "async_set_value"):
        for u in ("C", "F"):
            try:
                w = run_writer(repo, method, u)
            except (PyRaise, Undecided) as e:
                raise AnalysisError(f"{ACC}.{method} ({u}): {e}")
            writers[(method, u)] = w
            fi = repo.own_method(ACC, method)
            if not isinstance(w, Affine) or not isinstance(readers[u], Affine):
                ctx.ob("R1", f"{method}::{u}::affine", False, f"{ACC}.{method} ({u}) is not affine in the temperature: {w!r}", fi.loc)
                continue
            rd = readers[u]
            comp_a = w.a * rd.a
            comp_b = w.a * rd.b + w.b
            ctx.ob("R1", f"{method}::{u}::inverse-of-reader", comp_a == 1 and comp_b == 0,
                   f"{ACC}.{method} in unit {u} writes {w!r}; composed with the reader {rd!r} gives {comp_a}*x+{comp_b}, not x: a written temperature does not read back",
                   fi.loc, sample={"rule": "R1", "unit": u, "writer": method, "map": repr(w), "composition": f"{comp_a}*x+{comp_b}"})
            ctx.ob("R1", f"{method}::{u}::monotone", w.a > 0, f"{ACC}.{method} ({u}) has slope {w.a}: ordering of temperatures is not preserved", fi.loc)
            ctx.ob("R1", f"{method}::{u}::integer-word", w.truncated, f"{ACC}.{method} ({u}) does not convert the word to int before writing", fi.loc)
    for u in ("C", "F"):
        a, b = writers.get(("_set_value", u)), writers.get(("async_set_value", u))
        if isinstance(a, Affine) and isinstance(b, Affine):
            ctx.ob("R1", f"writers-agree::{u}", (a.a, a.b, a.truncated) == (b.a, b.b, b.truncated), f"blocking and awaitable temperature writers differ in unit {u}: {a!r} vs {b!r}")
    # R6 exact read-back in IEEE doubles, exhaustive: reader and writers were evaluated on a symbolic word / value; the
    # float program each of them performs (same operations, same order, same constants) is now run on every one of the
    # 65 536 raw words:  writer(reader(raw)) == raw
    ctx.rule("R6", "exact read-back in floating point: for every raw word 0..65535, both units and both writers, writing the value the reader presents for that word yields the same word again (the readers'/writers' own float programs, extracted by the interpreter, evaluated exhaustively)")
    exact_read_back(ctx, repo, "R6", readers, writers)

    # ---- R8 the temperature item on real bytes -------------------------------------------------------------
    ctx.rule("R8", "the temperature item end to end on real bytes: unit item and temperature item built by their constructors on a model structure - for words across the whole 16-bit range (incl. >= 32768) and both units the item presents exactly raw/18 or (raw+320)/10, and writing that value through either writer hands the same word to the device write")
    temperature_on_real_bytes(ctx, repo, "R8")

    ctx.rule("R10", "the flags as shipped: for every shape the Heating / CoolingDown items have in any shipped table (Bool, or a 2-bit enum with three 'Heating' labels) and every raw value of the field, a GeckoBinarySensor on the real item reads on exactly when the decoded value says so")
    flag_sensors_on_shipped_items(ctx, repo, "R10")
    ctx.rule("R9", "what is presented follows the block: a sensor on a temperature item (with its unit item) and one on a byte item, after the block is replaced and every item notified the way the structure does it - unit flip with the word unchanged, word change, byte change - present exactly what the items decode from the new block")
    presented_value_follows_the_block(ctx, repo, "R9")
    # ---- R7 presentation is pass-through -----------------------------------------------------------
    ctx.rule("R11", "the unit setting consulted is THIS spa's: a temperature item finds its unit through the structure's item dictionary on every read and write, so that dictionary must be the structure's own - no driver class keeps a class-level container that its methods fill through `self` (one object for every structure in the process: spa A's temperatures would be converted with spa B's unit) (C10.R8 borrowed)")
    from .c10 import shared_class_state as _scs14
    _scs14(ctx.borrowed("R11", "C10"), repo, "R8", only_under="/driver/")
    ctx.rule("R12", "the items the heater consults exist under the names it uses: no item-key constant of the constants class (KEY_*) differs from the key of a published item only in the case of its letters (keys are matched letter for letter; a constant no table knows at all is an optional item) - a case slip makes the library treat the item as absent on EVERY pack: the cool-down flag is never consulted and the operation falls back to temperatures")
    from ..packs import tables as _tables14
    _T14 = _tables14(repo)
    _all14 = set()
    for _stem, _m in _T14.modules.items():
        _all14 |= set(_m.keys())
    _gc14 = repo.cls("GeckoConstants")
    _n14 = 0
    for _k, _v in _gc14.consts.items():
        if not _k.startswith("KEY_"):
            continue
        _val = repo.try_fold(_v, _gc14.mod, _gc14)
        if not isinstance(_val, str):
            continue
        _n14 += 1
        _near = sorted(x for x in _all14 if x.lower() == _val.lower())
        # a key no table publishes at all is an item this release's tables do not have (an optional device); a key that
        # differs from a published one only in the case of its letters is that item, misspelt: lookups are case-sensitive
        ctx.ob("R12", f"GeckoConstants.{_k}::names-a-published-item", _val in _all14 or not _near,
               f"GeckoConstants.{_k} = {_val!r} is the key of no item in any shipped table (nearest: {sorted(x for x in _all14 if x.lower() == _val.lower())[:2]}): `{_val!r} in accessors` is false on every pack, the item is never consulted",
               _gc14.loc if hasattr(_gc14, "loc") else None)
    ctx.floor("R12", "item-key constants compared with the shipped tables", _n14, 20)
    ctx.rule("R7", "what the heater presents is the converted reading itself: current / target / real target temperature of a GeckoWaterHeater built by its own constructor equal, bit for bit, the value its temperature item decodes (raw/18 is not a whole tenth for 17 words out of 18: any rounding on the way makes write-what-you-read land on another word)")
    interp = Interp(repo)
    n_pt = 0
    for raw in (670, 671, 677, 1, 65535):
        v = raw / 18
        obj, _accs, _rec = build_heater(repo, interp, units="C", current=v, target=v, real_target=v)
        for member in ("current_temperature", "target_temperature", "real_target_temperature"):
            try:
                interp.steps = 0
                got = interp.getattr(obj, member)
            except PyRaise as e:
                got = f"raises {e.what}"
            except Undecided as e:
                raise AnalysisError(f"GeckoWaterHeater.{member}: {e}")
            n_pt += 1
            ctx.ob("R7", f"GeckoWaterHeater.{member}::presents-the-reading", isinstance(got, float) and got == v,
                   f"GeckoWaterHeater.{member} presents {got!r} while its item decodes word {raw} as {v!r} (Celsius): the presented value is not raw/18, and writing it back gives word "
                   f"{int(got * 18) if isinstance(got, float) else '?'} instead of {raw}", repo.own_method("GeckoWaterHeater", member).loc,
                   sample={"rule": "R7", "word": raw, "member": member, "presented": repr(got)} if raw == 671 else None)
    ctx.floor("R7", "presented temperatures compared", n_pt, 15)

    # ---- R2 -------------------------------------------------------------------------------
    interp = Interp(repo)
    hc = repo.cls("GeckoWaterHeater")
    consts = {k: repo.try_fold(v, hc.mod, hc) for k, v in hc.consts.items()}
    vals = {}
    for u in ("C", "F", "Unknown"):
        obj, _accs, _rec = build_heater(repo, interp, units=u)
        for member in ("temperature_unit", "min_temp", "max_temp"):
            try:
                interp.steps = 0
                vals[(u, member)] = interp.getattr(obj, member)
            except PyRaise as e:
                vals[(u, member)] = f"raises {e.what}"
            except Undecided as e:
                raise AnalysisError(f"GeckoWaterHeater.{member}: {e}")
    exp = {"C": ("TEMP_CELCIUS", "MIN_TEMP_C", "MAX_TEMP_C"), "F": ("TEMP_FARENHEIGHT", "MIN_TEMP_F", "MAX_TEMP_F"), "Unknown": ("TEMP_FARENHEIGHT", "MIN_TEMP_F", "MAX_TEMP_F")}
    for u in ("C", "F", "Unknown"):
        for member, cname in zip(("temperature_unit", "min_temp", "max_temp"), exp[u]):
            ctx.ob("R2", f"{member}::{u}", vals[(u, member)] == consts.get(cname),
                   f"GeckoWaterHeater.{member} with unit {u!r} gives {vals[(u, member)]!r}, expected {cname}={consts.get(cname)!r}: symbol/limits do not follow the unit setting",
                   repo.own_method("GeckoWaterHeater", member).loc, sample={"rule": "R2", "unit": u, "member": member, "value": vals[(u, member)]})
    ok = isinstance(consts.get("MIN_TEMP_C"), int) and Fraction(consts["MIN_TEMP_C"]) * Fraction(9, 5) + 32 == consts.get("MIN_TEMP_F") and \
        Fraction(consts["MAX_TEMP_C"]) * Fraction(9, 5) + 32 == consts.get("MAX_TEMP_F")
    ctx.ob("R2", "limits::same-temperatures", ok, f"Celsius and Fahrenheit limits denote different temperatures: {consts}")
    ctx.ob("R2", "symbols", "C" in str(consts.get("TEMP_CELCIUS")) and "F" in str(consts.get("TEMP_FARENHEIGHT")), "unit symbols swapped")

    # ---- R4 live unit: by interpretation ------------------------------------------------------------
    # the object is built once (real constructors) with the unit item reading 'C'; the item is then switched to
    # 'F' WITHOUT any notification having been delivered - exactly the situation inside a change callback that
    # runs before the object's own.  Every unit-dependent result must already follow the new unit.
    from ..absint import ClassRef
    n_live = 0
    acls = repo.cls(ACC)
    for method in ("_get_value", "_set_value", "async_set_value"):
        interp = Interp(repo)
        got = []

        def hook(ip, node, callee, args, kwargs, method=method):
            if isinstance(callee, BoundMethod) and getattr(callee.fi.cls, "short", None) != ACC and "Enum" not in getattr(getattr(callee.obj, "cls", None), "short", ""):
                if callee.fi.name == "_get_value":
                    return Affine.var()
                if callee.fi.name == method:
                    got.append(args[0])
                    return None
            return NotImplemented
        interp.call_hook = hook
        try:
            obj = _make_accessor(repo, interp, acls, "C")
            if isinstance(obj.attrs.get("struct"), Obj):
                for nm_ in ("set_value", "async_set_value"):
                    obj.attrs["struct"].attrs.setdefault(nm_, Native(lambda a, k, got=got: got.append(a[2]) if len(a) > 2 else None, nm_))
            units_item = obj.attrs["struct"].attrs["accessors"]["TempUnits"] if "struct" in obj.attrs else None
            res = []
            for u in ("C", "F"):
                if units_item is None:
                    raise Undecided("temperature accessor does not keep its structure")
                _switch_units(obj, u)
                got.clear()
                interp.steps = 0
                r = interp.call(repo.own_method(ACC, method), obj, [None] if method == "_get_value" else [Affine.var()])
                res.append(r if method == "_get_value" else (got[0] if got else None))
        except (PyRaise, Undecided) as e:
            raise AnalysisError(f"{ACC}.{method} (live unit): {e}")
        want = [readers["C"], readers["F"]] if method == "_get_value" else [writers.get((method, "C")), writers.get((method, "F"))]
        same = all(isinstance(x, Affine) and isinstance(y, Affine) and (x.a, x.b) == (y.a, y.b) for x, y in zip(res, want))
        n_live += 1
        ctx.ob("R4", f"{ACC}.{method}::unit-read-live", same,
               f"{ACC}.{method}: after the unit item switches from C to F (before any change notification reaches this object) it still converts with {res[1]!r}, expected {want[1]!r}: "
               f"the unit is taken from a stored copy, so values, symbol and limits disagree while the setting changes", repo.own_method(ACC, method).loc,
               sample={"rule": "R4", "member": f"{ACC}.{method}", "after_switch": repr(res[1])})
    from ..facademodel import Rec, accessor as _acc, model_facade
    rec = Rec()
    gc = repo.cls("GeckoConstants")
    K = {k: repo.fold(gc.consts[k], gc.mod, gc) for k in ("KEY_TEMP_UNITS", "KEY_SETPOINT_G", "KEY_DISPLAYED_TEMP_G", "KEY_REAL_SETPOINT_G")}
    accs = {K["KEY_TEMP_UNITS"]: _acc(rec, "TempUnits", "C", "Enum", ["F", "C"])}
    for kk in ("KEY_SETPOINT_G", "KEY_DISPLAYED_TEMP_G", "KEY_REAL_SETPOINT_G"):
        accs[K[kk]] = _acc(rec, K[kk], 20.0, "Word")
    fac, _spa = model_facade(rec, accs)
    interp = Interp(repo, max_depth=12)
    try:
        heater = interp.apply(ClassRef(hc), [fac], {})
        seen = {}
        for u in ("C", "F"):
            accs[K["KEY_TEMP_UNITS"]].attrs["value"] = u
            seen[u] = tuple(interp.getattr(heater, m) for m in ("temperature_unit", "min_temp", "max_temp"))
    except (PyRaise, Undecided) as e:
        raise AnalysisError(f"GeckoWaterHeater (live unit): {e}")
    wantF = tuple(consts.get(c_) for c_ in exp["F"])
    n_live += 1
    ctx.ob("R4", "GeckoWaterHeater::unit-read-live", seen["F"] == wantF and seen["C"] == tuple(consts.get(c_) for c_ in exp["C"]),
           f"GeckoWaterHeater built while the unit was C reports (symbol, min, max) = {seen['F']} after the unit item switched to F, expected {wantF}: symbol/limits come from a stored copy of the unit",
           repo.own_method("GeckoWaterHeater", "temperature_unit").loc, sample={"rule": "R4", "member": "GeckoWaterHeater", "C": list(map(str, seen["C"])), "F": list(map(str, seen["F"]))})
    ctx.floor("R4", "live-unit members", n_live, 4)

    # ---- R3 -------------------------------------------------------------------------------
    co = repo.own_method("GeckoWaterHeater", "current_operation")
    c = repo.cls("GeckoConstants")
    H, C, I = (repo.fold(c.consts[k], c.mod, c) for k in ("WATER_HEATER_HEATING", "WATER_HEATER_COOLING", "WATER_HEATER_IDLE"))

    def spec(h, cl, sign):
        if h is not None and cl is not None:
            return H if h else (C if cl else I)
        if h:
            return H
        if cl:
            return C
        return H if sign < 0 else (C if sign > 0 else I)

    n = 0
    for h in (None, True, False):
        for cl in (None, True, False):
            for sign in (-1, 0, 1):
                try:
                    obj, _accs, _rec = build_heater(repo, interp, units="C", heating=h, cooling=cl, current=20.0 + sign, real_target=20.0)
                    interp.steps = 0
                    got = interp.getattr(obj, "current_operation")
                except PyRaise as e:
                    got = f"raises {e.what}"     # an operation that cannot be read is not the operation the statement names
                except Undecided as e:
                    raise AnalysisError(f"current_operation: {e}")
                n += 1
                want = spec(h, cl, sign)
                ctx.ob("R3", f"ladder::heat={h}::cool={cl}::cur{'<=>'[sign + 1]}target", got == want,
                       f"current_operation with heating flag {h}, cooling flag {cl}, current {'<=>'[sign + 1]} target reports {got!r}, expected {want!r}", co.loc,
                       sample={"rule": "R3", "heating": h, "cooling": cl, "order": "<=>"[sign + 1], "operation": got} if n % 9 == 1 else None)
    ctx.count("R3:ladder_cases", n)
    check_heater_setters(ctx, repo)
    ctx.exhaustive = False
    ctx.assume("int() truncation and float arithmetic are monotone; floats in the source are read as exact decimals")
    ctx.note("NOT decided: 'within one device step' for values the device cannot represent (numerical).")
    ctx.rule("R13", "a temperature written is a temperature sent, every time: the structures hand every (position, length, word) of an accessor write to the device callback on every path - a short-cut that skips a request equal to the LAST one never learns that the set point was changed at the spa's keypad meanwhile: writing the same temperature again is dropped silently and the item keeps reading the device-side value (C02.R8 write-through borrowed)")
    from .c02 import write_through as _wt14
    _wt14(ctx.borrowed("R13", "C02"), repo, "R8")
    ctx.rule("R14", "the word written is the word on the wire, for every temperature: the set-value builder every accessor write ends in puts a 2-byte value into the message as two bytes big-endian whatever the value (interpreted on a symbolic word) - a builder that takes the width from the VALUE writes a set point below 14.2 C (word < 256) as ONE byte, which the pack stores in the high byte: 14.0 C reads back as 3584 C (C02.R3 borrowed)")
    from .c02 import set_value_encoding as _sve14
    _sve14(ctx.borrowed("R14", "C02"), repo, "R3")
    ctx.rule("R15", "the echo arrives whole: the temperature word the spa reports after a write travels as the LAST bytes of a framed partial update, and a word's low byte can be any value - the frame round trip hands the payload on byte for byte, also when it ends (or begins) in ASCII white space: a packet parser that strips its three parts tears the word (high byte installed, old low byte kept): 29.0 C reads back as 28.9 (C04.R4's frame round trip of the payload borrowed)")
    from .c04 import framing as _framing14
    _framing14(ctx.borrowed("R15", "C04", only=("R4",), key_contains="frame-round-trip::payload"), repo)
