"""C02 - pack-table items: write-then-read returns the value, no other bit changes.

Deciding method: bit-provenance abstract interpretation (vlib.absint BV domain) of
/repo's own writer and reader code, once per geometry shape occurring in the shipped
tables, with *symbolic* field contents (old[..]) and *symbolic* new value (new[..]) -
one evaluation covers every block content and every value.
"""
from __future__ import annotations

import ast

from ..absint import BV, Bit, Interp, Native, Obj, Opaque, PyRaise, Undecided, WIDTH
from ..cfg import cfg_of
from ..core import AnalysisError
from ..facts import loc
from ..packs import mask_width, tables
from ..pathrules import calls_named
from ..src import Repo, strip_doc_and_logging
from ..symbytes import SByte, SymBytes

WRITERS = (("sync", "_set_value", "set_value"), ("async", "async_set_value", "async_set_value"))


class LabelSym:
    """An arbitrary enumeration label (its index is new[0..7])."""


class LabelList:
    def __init__(self, items):
        self.items = items

    def interp_getattr(self, attr):
        if attr == "index":
            def index(args, kwargs):
                if args and isinstance(args[0], LabelSym):
                    return BV.symbols("new", 8)
                try:
                    return self.items.index(*args)
                except ValueError as e:
                    raise PyRaise(f"ValueError: {e}")
            return Native(index)
        raise Undecided(f"items.{attr}")

    def __getitem__(self, i):
        return Opaque("label")

    def __len__(self):
        return len(self.items)


class OldBlock:
    """The status block before the write: every byte is 8 fresh provenance symbols."""

    def __getitem__(self, idx):
        if not isinstance(idx, slice) or not isinstance(idx.start, int) or not isinstance(idx.stop, int):
            raise Undecided("status block indexed with a non-constant range")
        return SymBytes([SByte([Bit.sym(f"old[{o}].{b}") for b in range(8)]) for o in range(idx.start, idx.stop)])


class NewBlock:
    """The block after the device applied write (pos, length, W) big-endian."""

    def __init__(self, pos, length, W):
        self.pos, self.length, self.W = pos, length, W

    def __getitem__(self, idx):
        if not isinstance(idx, slice) or (idx.start, idx.stop) != (self.pos, self.pos + self.length):
            raise Undecided(f"read-back slices {idx} instead of the written field")
        return SymBytes.pack(">B" if self.length == 1 else ">H", [self.W])


def shape_of(g):
    return (g["cls"], g["type"], g["length"], g["format"], g["bitpos"], g["bitmask"], g["read_write"] is not None)


def new_value_for(g):
    t = g["type"]
    if g["cls"] == "GeckoTempStructAccessor":
        return Opaque("temperature"), None
    if t == "Enum":
        return LabelSym(), 8
    if t == "Bool":
        return BV.symbols("new", 1), 1
    if t == "Byte":
        return BV.symbols("new", 8), 8
    if t == "Word":
        return BV.symbols("new", 16), 16
    if t == "Time":
        return Opaque("time"), None
    raise AnalysisError(f"unknown accessor type {t}")


def build_accessor(repo, interp, item, struct_obj):
    cls = repo.cls(item.ctor)
    init = repo.method(item.ctor, "__init__")
    obj = Obj(cls)
    interp.steps = 0
    interp.call(init, obj, [struct_obj] + list(item.args))
    if isinstance(obj.attrs.get("items"), list):
        obj.attrs["items"] = LabelList(obj.attrs["items"])
    return obj


def run_writer(repo, interp, item, g, method, newvalue, units="C"):
    """-> ("raise", what) | ("write", pos, length, W)"""
    captured = []

    def cap(args, kwargs):
        captured.append(tuple(args))
        return None

    struct_obj = Obj(None, {
        "status_block": OldBlock(),
        "set_value": Native(cap),
        "async_set_value": Native(cap),
        "accessors": {"TempUnits": Obj(None, {"value": units, "watch": Native(lambda a, k: None), "unwatch": Native(lambda a, k: None)})},
    }, name="struct")
    acc = build_accessor(repo, interp, item, struct_obj)
    fi = repo.method(item.ctor, method)
    interp.steps = 0
    try:
        interp.call(fi, acc, [newvalue])
    except PyRaise as e:
        if captured:
            return ("write-then-raise", e.what)
        return ("raise", e.what)
    if len(captured) != 1:
        return ("nwrites", len(captured))
    return ("write",) + captured[0] + (acc,)


def expect_old(pos, length, i):
    """provenance symbol of word bit i of the big-endian field at pos"""
    byte = pos + (length - 1 - i // 8)
    return f"old[{byte}].{i % 8}"


def check_word(g, pos, length, W, nbits_new, const_new=None):
    """-> list of (obligation, ok, message)"""
    out = []
    bp, mask = g["bitpos"], g["bitmask"]
    if isinstance(W, Opaque):
        out.append(("opaque-value-passes-through", bp is None, "value-level arithmetic (time/temperature) must not be merged with a bit field"))
        return out
    if isinstance(W, bool):
        W = int(W)
    if isinstance(W, int):
        W = BV.of_int(W)
    if not isinstance(W, BV):
        out.append(("word-is-bits", False, f"written word is {type(W).__name__}"))
        return out
    if bp is None:
        for i in range(WIDTH):
            if const_new is not None:
                want = Bit.const((const_new >> i) & 1)
            else:
                want = Bit.sym(f"new[{i}]") if i < nbits_new else Bit.const(0)
            if W.bits[i] != want:
                out.append((f"value-bit-{i}", False, f"written bit {i} is {W.bits[i].describe()}, expected {want.describe()}"))
                return out
        out.append(("value-passes-through", True, ""))
        out.append(("fits-field", nbits_new <= 8 * length, f"{nbits_new}-bit value into {length}-byte field"))
        return out
    width = mask_width(mask)
    if width is None:
        out.append(("mask-contiguous", False, f"mask {mask!r} is not contiguous ones"))
        return out
    bad_iso = bad_place = bad_hi = None
    for i in range(WIDTH):
        b = W.bits[i]
        if i >= 8 * length:
            if not b.is_const(0) and bad_hi is None:
                bad_hi = (i, b.describe())
        elif bp <= i < bp + width:
            k = i - bp
            if const_new is not None:
                ok = b.is_const((const_new >> k) & 1)
                want = str((const_new >> k) & 1)
            else:
                ok = b.is_sym(f"new[{k}]") if k < nbits_new else b.is_const(0)
                want = f"new[{k}]" if k < nbits_new else "0"
            if not ok and bad_place is None:
                bad_place = (i, b.describe(), want)
        else:
            want = expect_old(pos, length, i)
            if not b.is_sym(want) and bad_iso is None:
                bad_iso = (i, b.describe(), want)
    out.append(("O1-isolation", bad_iso is None,
                "" if bad_iso is None else f"word bit {bad_iso[0]} (outside the field [{bp},{bp + width})) becomes {bad_iso[1]} instead of keeping {bad_iso[2]}: a neighbouring item changes"))
    out.append(("O2-placement", bad_place is None,
                "" if bad_place is None else f"word bit {bad_place[0]} (inside the field) is {bad_place[1]}, expected {bad_place[2]}"))
    out.append(("O3-no-overflow", bad_hi is None,
                "" if bad_hi is None else f"bit {bad_hi[0]} beyond the {length}-byte field is {bad_hi[1]} (pack would overflow)"))
    return out


def readback(repo, interp, item, g, acc, pos, length, W, nbits_new):
    fi = repo.method(item.ctor, "_get_raw_value")
    # use the base implementation even for Temp (raw value)
    interp.steps = 0
    R = interp.call(fi, acc, [NewBlock(pos, length, W)])
    bp, mask = g["bitpos"], g["bitmask"]
    if not isinstance(R, BV):
        return False, f"read-back is {type(R).__name__}"
    width = mask_width(mask) if bp is not None else 8 * length
    for k in range(WIDTH):
        want = Bit.sym(f"new[{k}]") if k < min(width, nbits_new) else Bit.const(0)
        if R.bits[k] != want:
            return False, f"read-back bit {k} is {R.bits[k].describe()}, expected {want.describe()}"
    return True, ""


def shape_obligations(repo, interp, it, g, k):
    """All C02 obligations of one geometry shape -> list of (rule, key, ok, message, where, sample)"""
    out = []

    def ob(rule, key, ok, msg, where, sample=None):
        out.append((rule, key, bool(ok), msg, where, sample))
        return bool(ok)

    sk = f"{g['cls']}/{g['type']}/len{g['length']}/bit{g['bitpos']}/mask{g['bitmask']}/{'rw' if k[6] else 'ro'}"
    where = f"{it.module.path}:{it.lineno} (e.g. {it.module.stem}::{it.key})"
    newv, nbits = new_value_for(g)
    results = {}
    for wname, method, _deleg in WRITERS:
        units_list = ("C", "F") if g["cls"] == "GeckoTempStructAccessor" else ("C",)
        for units in units_list:
            try:
                res = run_writer(repo, interp, it, g, method, newv, units)
            except Undecided as e:
                if g["type"] == "Time":
                    continue      # the text -> word conversion is decided on concrete "HH:MM" texts (R14), not on an opaque text
                raise AnalysisError(f"{sk} {method}: cannot interpret the writer: {e}")
            results[(wname, units)] = res
            key = f"{sk}::{wname}" + (f"::{units}" if len(units_list) > 1 else "")
            if not k[6]:
                ob("R4", key + "::refuses", res[0] == "raise", f"{method} on a read-only item ({where}) does not refuse the write ({res[:2]})", where)
                continue
            if res[0] != "write":
                ob("R1", key + "::writes-once", False, f"{method} on shape {sk}: {res[:2]} ({where})", where)
                continue
            _, pos, length, W, acc = res
            ob("R1", key + "::O4-address", (pos, length) == (it.pos, g["length"]),
               f"{method} writes (pos={pos}, len={length}) for an item at pos={it.pos} len={g['length']} ({where})", where)
            for name, ok, msg in check_word(g, pos, length, W, nbits or 0):
                ob("R1", f"{key}::{name}", ok, f"{method}, shape {sk}: {msg} ({where})", where,
                   {"rule": "R1", "shape": sk, "writer": method, "obligation": name,
                    "word_bits_lsb_first": W.describe(8 * length) if isinstance(W, BV) else repr(W)} if name == "O1-isolation" and wname == "sync" else None)
            if isinstance(W, BV) and nbits:
                try:
                    ok, msg = readback(repo, interp, it, g, acc, pos, length, W, nbits)
                except PyRaise as e:
                    ok, msg = False, f"read-back raises {e.what}"
                except Undecided as e:
                    raise AnalysisError(f"{sk}: cannot interpret the reader: {e}")
                ob("R2", key + "::read-back", ok, f"shape {sk}: after {method}, {msg} ({where})", where)
    for units in ("C", "F"):
        a, b = results.get(("sync", units)), results.get(("async", units))
        if a is None or b is None:
            continue
        same = a[0] == b[0]
        if same and a[0] == "write":
            same = a[1:3] == b[1:3] and _same_word(a[3], b[3])
        ob("R5", f"{sk}::agree" + (f"::{units}" if g["cls"] == "GeckoTempStructAccessor" else ""), same,
           f"shape {sk}: blocking and awaitable writers emit different device writes ({_short(a)} vs {_short(b)}) ({where})", where)
    if k[6] and g["type"] in ("Byte", "Word", "Bool") and g["cls"] != "GeckoTempStructAccessor":
        forms = [("17", 17)] if g["type"] != "Bool" else [("true", 1), ("True", 1), ("false", 0)]
        for text, val in forms:
            for wname, method, _ in WRITERS:
                try:
                    res = run_writer(repo, interp, it, g, method, text)
                except Undecided as e:
                    res = ("undecided", str(e))
                okf = res[0] == "write"
                msg = str(res[:2])
                if okf:
                    for name, ok, m2 in check_word(g, res[1], res[2], res[3], 0, const_new=val):
                        if not ok:
                            okf, msg = False, m2
                ob("R6", f"{sk}::{wname}::str-{text}", okf, f"{method}('{text}') on shape {sk}: {msg} ({where})", where)
    return out


def field_overlaps(ctx, repo, T, rule):
    """Two items of one table whose bit fields share a bit: a write to one changes the other.  The tables as published
    (baseline/pack_layout.json.gz, the commit the properties were written against) contain such pairs by design of the
    pack definitions (aliases and overlaid fields); every pair involving a writable item that is NOT in the published
    layout is a new way for a write to change another item."""
    import gzip
    import json
    from ..core import VERIF
    from ..packs import Item
    bp = VERIF / "baseline" / "pack_layout.json.gz"
    if not bp.exists():
        raise AnalysisError("baseline/pack_layout.json.gz missing")
    base = json.loads(gzip.open(bp).read())["modules"]

    def bits_of(it):
        try:
            g = T.geometry(it)
        except Exception:  # noqa: BLE001 - malformed items are C18's findings
            return None
        pos, ln = g.get("pos"), g.get("length")
        if not isinstance(pos, int) or not isinstance(ln, int) or ln <= 0:
            return None
        if g.get("bitpos") is not None and g.get("bitmask") is not None:
            mask = g["bitmask"] << g["bitpos"]
        else:
            mask = (1 << (8 * ln)) - 1
        out = set()
        for b in range(8 * ln):
            if mask >> b & 1:
                out.add((pos + ln - 1 - b // 8) * 8 + b % 8)   # big-endian word: bit b lives in byte pos+ln-1-b//8
        return frozenset(out), g.get("read_write") is not None

    def pairs(items):
        by_byte = {}
        fields = []
        for it in items:
            r = bits_of(it)
            if r is None or not r[0]:
                continue
            idx = len(fields)
            fields.append((it.key, r[0], r[1]))
            for byte in {b // 8 for b in r[0]}:
                by_byte.setdefault(byte, []).append(idx)
        out = set()
        for lst in by_byte.values():
            for i in range(len(lst)):
                for j in range(i + 1, len(lst)):
                    a, b = fields[lst[i]], fields[lst[j]]
                    if a[0] != b[0] and (a[2] or b[2]) and a[1] & b[1]:
                        out.add(tuple(sorted((a[0], b[0]))))
        return out
    n_mod = n_pairs = n_base = 0
    for stem, m in sorted(T.modules.items()):
        bm = base.get(stem)
        if bm is None:
            continue   # a table published after the pin: its own overlaps are its published layout (C18 covers well-formedness)
        n_mod += 1
        cur = pairs(m.items)
        was = pairs([Item(m, k, ctor, args, 0) for k, (ctor, args) in bm["items"].items()])
        n_pairs += len(cur)
        n_base += len(was)
        for a, b in sorted(cur - was)[:6]:
            ia, ib = m.item(a), m.item(b)
            ctx.ob(rule, f"{stem}::{a}~{b}::fields-disjoint", False,
                   f"{stem}: the fields of {a} and {b} now share at least one bit (they were disjoint in the published layout): writing one of them changes the value the other reads",
                   f"{m.path}:{(ia or ib).lineno}", sample={"rule": rule, "module": stem, "items": [a, b]})
    ctx.ob(rule, "no-new-field-overlap", True, "")
    ctx.count(f"{rule}:modules compared with the published layout", n_mod)
    ctx.count(f"{rule}:overlapping writable pairs (all published)", n_pairs)
    ctx.floor(rule, "pinned modules compared for field overlap", n_mod, 100)


def time_items_round_trip(ctx, repo, rule):
    """a Time item is a 2-byte field: hours byte, minutes byte, each 0..255 (durations of 24:00, a raw 0xFFFF).  A
    GeckoTimeStructAccessor built by its constructor on a model structure: for texts "HH:MM" over a grid of hours and
    minutes (clock values, 24:00, 00:60, 99:99, 255:255) both writers hand the word h*256 + m to the device write, and a
    block holding that word reads back as the same text."""
    from ..absint import ClassRef, Interp, Native, Obj, PyRaise, Undecided
    T = "GeckoTimeStructAccessor"
    if repo.cls(T, required=False) is None:
        ctx.note(f"{T} not found - Time items are not decided by R14")
        return
    grid = (0, 1, 9, 23, 24, 25, 59, 60, 61, 99, 128, 255)
    bad, n = None, 0
    for h in grid:
        for m in grid:
            word = h * 256 + m
            text = f"{h:02}:{m:02}"
            it = Interp(repo, max_depth=12)
            writes = []
            blk = bytearray(64)
            blk[6], blk[7] = h, m
            st = Obj(None, {"status_block": bytes(64), "accessors": {}}, name="struct")
            st.attrs["set_value"] = Native(lambda a, k, w=writes: w.append(tuple(a)), "set_value")
            st.attrs["async_set_value"] = Native(lambda a, k, w=writes: w.append(tuple(a)), "async_set_value")
            try:
                acc = it.apply(ClassRef(repo.cls(T)), [st, "FiltDur", 6, "ALL"], {})
                for wname in ("_set_value", "async_set_value"):
                    it.steps = 0
                    it.call(repo.method(T, wname), acc, [text])
                st.attrs["status_block"] = bytes(blk)
                shown = it.getattr(acc, "value")
            except PyRaise as e:
                shown = f"raises {e.what}"
            except Undecided as e:
                raise AnalysisError(f"{T} with the text {text!r}: {e}")
            n += 1
            okw = [w[-1] for w in writes] == [word, word] and all(tuple(w[:2]) == (6, 2) for w in writes)
            if not (okw and shown == text) and bad is None:
                bad = (text, word, writes, shown)
    ctx.ob(rule, f"{T}::text-to-word-and-back", bad is None,
           f"{T}: writing {bad[0] if bad else ''!r} hands {bad[2] if bad else ''} to the device write (expected (6, 2, {bad[1] if bad else ''}) from both writers) and a block holding that word reads {bad[3] if bad else ''!r}: "
           f"the item does not read back what was written (hours and minutes are bytes: 24:00 and beyond are values of the field)", repo.method(T, "_set_value").loc,
           sample={"rule": rule, "texts": n})
    ctx.floor(rule, "Time texts written and read back", n, 100)


def odd_labels_writable(ctx, repo, T, rule):
    """every label of a writable Enum item is a value of its domain - also the ones a text clean-up would alter: labels
    that are, begin or end with white space, or are empty (a quiet-pause demand labelled " " / "QUIET").  For every such
    shipped item, built by its constructor on a model structure, writing each of its (unambiguous) labels through the
    public setter (`item.value = label`, the blocking path) and through async_set_value hands the device the same single
    write: the label's position in the list, in the item's field."""
    from ..absint import ClassRef, Interp, Native, Obj, PyRaise, Undecided
    shapes = {}
    for stem, m in sorted(T.modules.items()):
        for it_ in m.items:
            try:
                g = T.geometry(it_)
            except Exception:  # noqa: BLE001 - malformed items are C18's findings
                continue
            labs = g.get("items")
            if g.get("type") != "Enum" or g.get("read_write") is None or not isinstance(labs, list):
                continue
            odd = [l_ for l_ in labs if isinstance(l_, str) and (l_ != l_.strip() or l_ == "") and labs.count(l_) == 1]
            if odd:
                shapes.setdefault((it_.ctor, repr(it_.args[1:])), (it_, stem, g, odd))
    n = 0
    for (_c, _a), (item, stem, g, odd) in sorted(shapes.items()):
        labs = g["items"]
        for label in odd:
            res = {}
            for path in ("value =", "async_set_value"):
                it = Interp(repo, max_depth=12)
                writes = []
                st = Obj(None, {"status_block": bytes(1024), "accessors": {}}, name="struct")
                st.attrs["set_value"] = Native(lambda a, k, w=writes: w.append(tuple(a)), "set_value")
                st.attrs["async_set_value"] = Native(lambda a, k, w=writes: w.append(tuple(a)), "async_set_value")
                try:
                    acc = it.apply(ClassRef(repo.cls(item.ctor)), [st] + list(item.args), {})
                    it.steps = 0
                    if path == "value =":
                        it.setattr(acc, "value", label)
                    else:
                        it.call(repo.method(item.ctor, "async_set_value"), acc, [label])
                    res[path] = list(writes)
                except PyRaise as e:
                    res[path] = f"raises {e.what}"
                except Undecided as e:
                    raise AnalysisError(f"{stem}::{item.key}: writing the label {label!r}: {e}")
            n += 1
            want_idx = labs.index(label)
            ok = isinstance(res["value ="], list) and res["value ="] == res["async_set_value"] and len(res["value ="]) == 1
            if ok:
                w = res["value ="][0]
                word = w[-1]
                shift = g.get("bitpos") or 0
                mask = g.get("bitmask") or ((1 << (8 * g["length"])) - 1)
                ok = tuple(w[:2]) == (g["pos"], g["length"]) and isinstance(word, int) and (word >> shift) & mask == want_idx
            ctx.ob(rule, f"{stem}::{item.key}::label-{labs.index(label)}::both-paths-write-it", ok,
                   f"{stem}::{item.key} (labels {labs}): writing the label {label!r} gives {res} - expected one write of index {want_idx} into the field at ({g['pos']}, {g['length']}) from BOTH paths: "
                   f"a setter that tidies its text input turns a label that is white space into one the item does not have", repo.method(item.ctor, "_set_value").loc,
                   sample={"rule": rule, "item": f"{stem}::{item.key}", "label": label})
    ctx.count(f"{rule}:labels a text clean-up would alter", n)
    ctx.floor(rule, "labels a text clean-up would alter, written through both paths", n, 1)


def set_value_encoding(ctx, repo, rule, interp=None):
    """the SPACK set-value builder, interpreted on a symbolic value: a 1-byte value is the last byte, a 2-byte value the
    last two bytes big-endian - for EVERY value (a width taken from the value, not from the declared length, writes a
    word below 256 as one byte: the pack stores it in the HIGH byte) - with the position as the big-endian word before
    it; other lengths are rejected"""
    interp = interp or Interp(repo, max_depth=8)
    b = repo.method("GeckoPackCommandProtocolHandler", "set_value")
    for ln, nb in ((1, 8), (2, 16)):
        interp.steps = 0
        try:
            msg = interp.call(b, None, [1, 2, 3, 4, 0x0155, ln, BV.symbols("new", nb)])
            content = msg.attrs.get("_content")
            tail = content.cells[-ln:]
            want = SymBytes.pack(">B" if ln == 1 else ">H", [BV.symbols("new", nb)]).cells
            ok = tail == want
            # position big-endian just before
            posb = content.cells[-ln - 2:-ln]
            ok_pos = posb == [0x01, 0x55]
        except PyRaise as e:
            ok, ok_pos = False, False
        except (Undecided, TypeError) as e:
            # the builder looks at the VALUE (a comparison, a bit length): decided on concrete values across the field instead
            import struct as _st
            tail = None
            ok = ok_pos = True
            for v_ in ((0, 1, 0x7F, 0x80, 0xFF) if ln == 1 else (0, 1, 0xFC, 0xFF, 0x100, 0x0155, 0x7FFF, 0x8000, 0xBEEF, 0xFFFF)):
                try:
                    interp.steps = 0
                    msg = interp.call(b, None, [1, 2, 3, 4, 0x0155, ln, v_])
                    raw = SymBytes.of(msg.attrs.get("_content")).concrete()
                except (PyRaise, Undecided, TypeError, AttributeError) as e2:
                    raw = None
                if not isinstance(raw, (bytes, bytearray)) or bytes(raw[-ln:]) != _st.pack(">B" if ln == 1 else ">H", v_):
                    ok = False
                if not isinstance(raw, (bytes, bytearray)) or bytes(raw[-ln - 2:-ln]) != b"\x01\x55":
                    ok_pos = False
        ctx.ob(rule, f"{b.qual}::len{ln}-big-endian", ok, f"{b.qual}: a {ln}-byte value is not encoded big-endian at the end of the SPACK message", b.loc,
               sample={"rule": rule, "builder": b.qual, "length": ln, "tail_cells": repr(tail) if ok else None})
        ctx.ob(rule, f"{b.qual}::len{ln}-position", ok_pos, f"{b.qual}: the position is not the big-endian word before the data", b.loc)
    try:
        interp.steps = 0
        interp.call(b, None, [1, 2, 3, 4, 5, 3, 7])
        ctx.ob(rule, f"{b.qual}::rejects-other-lengths", False, f"{b.qual} accepts length 3", b.loc)
    except PyRaise:
        ctx.ob(rule, f"{b.qual}::rejects-other-lengths", True, "")


def write_through(ctx, repo, rule):
    """the structures' set_value / async_set_value hand (pos, length, newvalue) unchanged to the device-write callback on
    every path: no write is dropped (a "same as the last request" short-cut never learns that the block changed
    meanwhile), altered or delayed between the accessor and the connection"""
    from ..cfg import cfg_of
    from ..pathrules import pass_through
    n_wt = 0
    for cname, mname in (("GeckoStructure", "set_value"), ("GeckoAsyncStructure", "set_value"), ("GeckoAsyncStructure", "async_set_value")):
        wfi = repo.method(cname, mname, required=False)
        if wfi is None:
            ctx.error(f"write-through anchor {cname}.{mname} vanished")
            continue
        verdict, detail = pass_through(cfg_of(wfi), wfi, 3)
        if verdict is None:
            ctx.error(f"{cname}.{mname}: {detail} - idiom not supported by the write-through rule")
            continue
        n_wt += 1
        ctx.ob(rule, f"{cname}.{mname}::write-through", verdict,
               f"{cname}.{mname} does not always deliver the write to the device callback: {detail}; an accessor write that is dropped here produces no device write, so the item does not read back the written value",
               wfi.loc, sample={"rule": rule, "setter": f"{cname}.{mname}", "delegate": detail})
    ctx.floor(rule, "structure setters analysed", n_wt, 3)


def check(ctx):
    repo = Repo()
    T = tables(repo)
    interp = Interp(repo, max_depth=8)
    ctx.exhaustive = True
    ctx.rule("R1", "bit-provenance of the written word, per geometry shape x writer (sync/async): O1 bits outside the field keep their old provenance, O2 field bits carry the new value, O3 nothing beyond the field, O4 (pos,length) arguments are the item's own")
    ctx.rule("R2", "read-back: _get_raw_value on the block after the big-endian device write returns exactly the new value's bits")
    ctx.rule("R3", "device-write encoding: pack-command builder and simulator write length 1 as one byte, length 2 big-endian, reject other lengths")
    ctx.rule("R4", "permission: items without write permission raise before any device write; dominance of the read_write test over the delegate call in both writers")
    ctx.rule("R5", "sync/async agreement: both writers produce identical (pos, length, word) for every shape")
    ctx.rule("R6", "string forms: '17' for Byte/Word and 'true'/'True'/'false' for Bool are converted before the merge")
    ctx.rule("R7", "every table item is mapped to a proven shape (exhaustive over all items)")
    ctx.rule("R8", "write-through: the structures' set_value / async_set_value hand (pos, length, newvalue) unchanged to the device-write callback on every path (no write is dropped or altered between the accessor and the connection)")
    ctx.rule("R9", "identical device writes on both paths: the blocking and the awaitable set-value callback, interpreted on a model connection with pairwise distinct pack type / config version / log version, each emit exactly one datagram, byte-identical to each other and to the command builder called with every field by parameter name")
    from ..writemodel import device_writes, overlapping_writes
    device_writes(ctx, repo, "R9")
    overlapping_writes(ctx, repo, "R9")
    ctx.rule("R11", "temperature items read back what was written: for every 16-bit word, both units and both writers, writing the value the item presents for that word hands the same word to the device write (C14's exhaustive float read-back on the reader's / writers' own float programs, borrowed)")
    from .c14 import exact_read_back
    exact_read_back(ctx.borrowed("R11", "C14"), repo, "R6")
    ctx.rule("R18", "an item writes into ITS structure: the accessor objects a structure builds are bound to that structure - no driver class keeps them (or any per-structure data) in a class-level container that its methods fill through `self`: a table cache keyed by the pair of table classes hands the second connection of a process accessors bound to the FIRST connection's block and callbacks - its writes merge with a stale block and are emitted on a connection that is gone (C10.R8 borrowed)")
    from .c10 import shared_class_state as _scs2
    _scs2(ctx.borrowed("R18", "C10"), repo, "R8", only_under="/driver/")
    ctx.rule("R17", "every label is a value, also the odd ones: for every shipped writable Enum item with a label that is, begins or ends with white space (inXM log 2 labels quiet-pause off as \" \"), built by its constructor, writing that label through the public setter and through async_set_value gives the same single write of the label's index - a setter that strips its text input raises ValueError on the blocking path while the awaitable path still writes")
    odd_labels_writable(ctx, repo, T, "R17")
    ctx.rule("R16", "a temperature write depends on ANOTHER item - the units item - and the tables label that item in two ways (a whole byte labelled F, C on most platforms; two bits labelled C, F on inXM): unit item and temperature item built by their constructors on real bytes, for every shipped shape of the units item x both units x nine words across the range, both writers hand the device the word that reads back as the value written - a writer that tells Celsius by the raw index instead of the label converts with the other unit's formula on the eight inXM tables (C14.R8 borrowed)")
    from .c14 import temperature_on_real_bytes as _torb2
    _torb2(ctx.borrowed("R16", "C14", key_contains="::writes-back::"), repo, "R8")
    ctx.rule("R10", "no other item changes: within one table, two items whose bit fields share a bit and of which one is writable exist only where the published layout (baseline pin of the audited commit) already has them - a table edit that widens a field into its neighbour, or moves an item onto another, makes a write change another item although every merge stays inside its own mask")
    field_overlaps(ctx, repo, T, "R10")
    write_through(ctx, repo, "R8")

    shapes = {}
    per_item = []
    for stem, m in sorted(T.modules.items()):
        for it in m.items:
            g = T.geometry(it)
            k = shape_of(g)
            if k not in shapes:
                shapes[k] = (it, g)
            per_item.append((it, k))
    # R12: the domain fits the field (the mask is what the accessor constructor computes from MaxItems - a ladder that
    # stops early leaves labels that cannot be stored)
    ctx.rule("R12", "the item's domain fits its field: every writable bit-field Enum item has no more labels than its mask can hold (mask as computed by the interpreted accessor constructor) - a label whose index exceeds the mask is written as index & mask and reads back as another label")
    n12 = 0
    for stem, m in sorted(T.modules.items()):
        for it in m.items:
            g = T.geometry(it)
            if g["type"] != "Enum" or g["bitpos"] is None or g["read_write"] is None or not isinstance(g["items"], list):
                continue
            n12 += 1
            mask = g["bitmask"]
            fits = isinstance(mask, int) and len(g["items"]) <= mask + 1
            if not fits:
                ctx.ob("R12", f"{stem}::{it.tag}", False,
                       f"{stem}: writable Enum item {it.tag} has {len(g['items'])} labels in a field of mask {mask} (bit {g['bitpos']}, MaxItems {g.get('maxitems')}): "
                       f"writing label index {(mask or 0) + 1} stores index & {mask}, the item reads back another label", repo.method(it.ctor, "__init__").loc,
                       sample={"rule": "R12", "module": stem, "item": it.tag, "labels": len(g["items"]), "mask": mask})
    ctx.ob("R12", "writable-bit-field-enums::examined", n12 > 0, "no writable bit-field Enum item found")
    # R13: the blocking path puts queued writes on the wire in the order they were made (the awaitable path sends from the
    # caller, in call order): the blocking engine's send queue is first-in first-out (C20's engine model)
    ctx.rule("R14", "Time items over their whole field: for \"HH:MM\" texts on a grid of hours and minutes 0..255 (24:00, 00:60, 255:255 included) both writers of a GeckoTimeStructAccessor built by its constructor emit the word h*256+m, and a block holding that word reads back as the same text")
    time_items_round_trip(ctx, repo, "R14")
    ctx.rule("R15", "every write can be numbered, on both paths alike: a device write carries a command sequence number in ONE byte, so the counter each path draws it from must issue 192..255 and wrap there - a counter that runs on to 256 makes the 65th awaitable write of a connection unbuildable (struct.error inside the set-value task: the write is lost silently) while the blocking path still emits it; and both counters must issue the same numbers for the same draws or the two paths' datagrams differ (C16.R1/R2 fixpoint on both implementations and C16.R5 sibling agreement borrowed)")
    from . import c16 as _c16
    _res15 = []
    for impl in _c16.IMPLS:
        _res15.append(_c16.fixpoint(ctx.borrowed("R15", "C16", only=("R1", "R2")), repo, impl, ctx.tier))
    _c16.sibling(ctx.borrowed("R15", "C16", only=("R5",)), repo, _res15)
    ctx.rule("R13", "writes reach the device in the order they were made, on both paths: the blocking engine's send queue, interpreted with several requests queued before the worker drains them, transmits them first-in first-out - a reversed queue leaves the FIRST value written in force and the two paths no longer emit identical device writes (C20.R1's engine model borrowed)")
    from ..enginemodel import engine_obligations as _eo
    _eo(ctx.borrowed("R13", "C20", only=("R1",), key_prefix="send-queue::fifo"), repo, "R1", "R2", "R3", "R4")
    ctx.count("R12:writable bit-field Enum items", n12)
    ctx.floor("R12", "writable bit-field Enum items", n12, 800)
    ctx.count("distinct_shapes", len(shapes))
    ctx.count("items", len(per_item))
    ctx.floor("R1", "geometry shapes", len(shapes), 40)

    proven = {}
    for k, (it, g) in sorted(shapes.items(), key=lambda kv: str(kv[0])):
        ok_all = True
        for rule, key, ok, msg, where, sample in shape_obligations(repo, interp, it, g, k):
            ok_all &= ctx.ob(rule, key, ok, msg, where, sample=sample)
        proven[k] = ok_all

    # R7 all items
    n_ok = 0
    for it, k in per_item:
        if proven.get(k):
            n_ok += 1
    ctx.ob("R7", "all-items-map-to-proven-shapes", n_ok == len(per_item) or any(not v for v in proven.values()),
           f"{len(per_item) - n_ok} items map to unproven shapes")
    ctx.count("items_covered_by_proven_shapes", n_ok)
    if ctx.tier == "thorough":
        for it, k in per_item:
            ctx.ob("R7", f"{it.module.stem}::{it.key}", bool(proven.get(k)), f"item {it.module.stem}::{it.key} has unproven shape {k}", f"{it.module.path}:{it.lineno}")

    # ---- R4 structural dominance ----------------------------------------------
    for cname in ("GeckoStructAccessor",):
        for wname, method, deleg in WRITERS:
            fi = repo.own_method(cname, method)
            g2 = cfg_of(fi)
            dn = [(n, c) for n, c in calls_named(g2, deleg) if "struct" in ast.unparse(c.func)]
            ctx.ob("R4", f"{fi.qual}::delegate-site", len(dn) == 1, f"{fi.qual}: expected one delegate call struct.{deleg}", fi.loc)
            for n, c in dn:
                facts = g2.guard_atoms(n)
                ctx.ob("R4", f"{fi.qual}::permission-dominates-write", ("self.read_write is None", False) in facts,
                       f"{fi.qual}: the device write is not dominated by the read_write test; guards {sorted(facts)}", loc(fi, n.ast))

    # ---- R3 device-write encoding ----------------------------------------------
    set_value_encoding(ctx, repo, "R3", interp)
    sim = repo.method("GeckoSimulator", "_on_set_value")
    for ln, nb in ((1, 8), (2, 16)):
        cap = []
        simobj = Obj(repo.cls("GeckoSimulator"), {
            "structure": Obj(None, {"replace_status_block_segment": Native(lambda a, k: cap.append(a))}),
            "_send_structure_change": False, "_clients": [],
        })
        interp.steps = 0
        try:
            interp.call(sim, simobj, [77, ln, BV.symbols("new", nb)])
        except (PyRaise, Undecided) as e:
            raise AnalysisError(f"{sim.qual}: {e}")
        ok = len(cap) == 1 and cap[0][0] == 77 and isinstance(cap[0][1], SymBytes) and \
            cap[0][1].cells == SymBytes.pack(">B" if ln == 1 else ">H", [BV.symbols("new", nb)]).cells
        ctx.ob("R3", f"{sim.qual}::len{ln}-big-endian", ok, f"{sim.qual}: applies a {ln}-byte write other than big-endian at its position", sim.loc)
    ctx.assume("the spa applies a SPACK set-value big-endian at the given position (protocol assumption); label counts fit the field (C18.R3)")
    ctx.note("Not decided: Time strings and temperature floats round-trip as *values* (arithmetic on opaque values; C14 covers the affine part).")
    ctx.trusted.append("vlib.absint bit-provenance domain (truth tables over <= 3 symbols per bit, 48-bit two's complement)")


def _same_word(a, b):
    if isinstance(a, BV) and isinstance(b, BV):
        return a.bits == b.bits
    if isinstance(a, Opaque) and isinstance(b, Opaque):
        return True
    return a == b if not isinstance(a, (BV, Opaque)) and not isinstance(b, (BV, Opaque)) else False


def _short(r):
    if r is None:
        return None
    return str(r[:3]) if r[0] == "write" else str(r[:2])
