"""C16 - sequence numbers: requests cycle 1..191, commands 192..255, never 0.

R1/R2  value-set fixpoint: every reachable counter state of both implementations is
       enumerated by interpreting get_and_increment_sequence_counter (vlib.absint on
       concrete ints, finite state space => exhaustive) and the range / successor laws
       are checked on every transition, for every interleaving of the two kinds.
R3     counters are per-instance; in the threaded socket every access is under the lock.
R4     kind per call site: pack commands draw from the command counter, everything else
       from the protocol counter; no literal sequence numbers.
R5     the two implementations agree modulo the lock.
"""
from __future__ import annotations

import ast
from collections import deque

from ..absint import Interp, Obj, PyRaise, Undecided
from ..core import AnalysisError
from ..facts import loc
from ..src import Repo, Unfoldable, call_name, walk_no_nested

FN = "get_and_increment_sequence_counter"
IMPLS = ("GeckoAsyncUdpProtocol", "GeckoUdpSocket")
PROTO = set(range(1, 192))
CMD = set(range(192, 256))
COMMAND_BUILDER_CLASS = "GeckoPackCommandProtocolHandler"


def counter_attrs(fi):
    """self attributes the counter function reads or writes (role: the counter state); the
    context expressions of `with` (the lock) and called methods are not state."""
    skip = set()
    for n in walk_no_nested(fi.node):
        if isinstance(n, (ast.With, ast.AsyncWith)):
            for it in n.items:
                for a in ast.walk(it.context_expr):
                    if isinstance(a, ast.Attribute):
                        skip.add(id(a))
        if isinstance(n, ast.Call) and isinstance(n.func, ast.Attribute):
            skip.add(id(n.func))
    out = []
    for n in walk_no_nested(fi.node):
        if isinstance(n, ast.Attribute) and isinstance(n.value, ast.Name) and n.value.id == "self" and id(n) not in skip:
            if n.attr not in out:
                out.append(n.attr)
    return out


def _fresh(repo, init, e):
    """does evaluating `e` in __init__ give this instance its own object?  True for immutable
    constants and for displays / copies; False for a bare reference to a module- or class-level
    mutable object (every instance would share it); None if not recognised"""
    if isinstance(e, ast.Constant):
        return True
    if isinstance(e, (ast.Dict, ast.List, ast.DictComp, ast.ListComp, ast.Tuple)):
        return True
    if isinstance(e, ast.Call):
        f = ast.unparse(e.func)
        if f in ("dict", "list", "copy.copy", "copy.deepcopy", "deepcopy") or f.endswith(".copy"):
            return True
        return None
    if isinstance(e, (ast.Name, ast.Attribute)):
        try:
            v = repo.fold(e, init.mod, init.cls)
        except Unfoldable:
            return None
        return not isinstance(v, (dict, list, set))
    if isinstance(e, (ast.BinOp, ast.UnaryOp)):
        try:
            v = repo.fold(e, init.mod, init.cls)
        except Unfoldable:
            return None
        return not isinstance(v, (dict, list, set))
    return None


def init_consts(ctx, repo, cname, attrs):
    init = repo.own_method(cname, "__init__")
    vals = {}
    for n in walk_no_nested(init.node):
        if isinstance(n, (ast.Assign, ast.AnnAssign)) and getattr(n, "value", None) is not None:
            for t in (n.targets if isinstance(n, ast.Assign) else [n.target]):
                if isinstance(t, ast.Attribute) and isinstance(t.value, ast.Name) and t.value.id == "self" and t.attr in attrs:
                    e = n.value
                    if isinstance(e, ast.Call) and e.args and (ast.unparse(e.func) in ("dict", "list", "copy.copy", "copy.deepcopy", "deepcopy")):
                        src = e.args[0]
                    elif isinstance(e, ast.Call) and isinstance(e.func, ast.Attribute) and e.func.attr == "copy" and not e.args:
                        src = e.func.value
                    else:
                        src = e
                    try:
                        vals[t.attr] = repo.fold(src, init.mod, init.cls)
                    except Unfoldable:
                        # computed from module/class constants (comprehension over a range table, ...)
                        try:
                            v = Interp(repo).eval(src, {"__mod__": init.mod, "__class__": init.cls})
                        except (PyRaise, Undecided) as ex:
                            raise AnalysisError(f"{cname}.__init__: initial value of {t.attr} is not a constant ({ex})")
                        if not isinstance(v, (int, dict, list, tuple)):
                            raise AnalysisError(f"{cname}.__init__: initial value of {t.attr} is not a constant")
                        vals[t.attr] = v
                    fr = _fresh(repo, init, e)
                    if fr is None:
                        raise AnalysisError(f"{cname}.__init__: cannot tell whether `self.{t.attr} = {ast.unparse(e)}` gives the instance its own object - idiom not supported by C16.R3")
                    ctx.ob("R3", f"{cname}::{t.attr}::own-object", fr,
                           f"{cname}.__init__: `self.{t.attr} = {ast.unparse(e)}` binds a module/class-level mutable object without copying it: every connection shares (and advances) the same counters, so sequences are not independent per connection",
                           loc(init, n))
    return vals, init


def succ_law(prev, cur, rng):
    lo, hi = min(rng), max(rng)
    return cur == (prev + 1 if prev < hi else lo)


def _freeze(v):
    if isinstance(v, dict):
        return ("dict", tuple(sorted(v.items(), key=repr)))
    if isinstance(v, list):
        return ("list", tuple(v))
    return v


def _thaw(v):
    if isinstance(v, tuple) and v and v[0] == "dict":
        return dict(v[1])
    if isinstance(v, tuple) and v and v[0] == "list":
        return list(v[1])
    return v


class _Skip:
    """marker for attribute values that are not counter state (locks, sockets, callbacks ...)"""


def _deep_freeze(v, depth=0):
    if depth > 6:
        return _Skip
    if v is None or isinstance(v, (bool, int, str, bytes, float)):
        return v
    if isinstance(v, tuple):
        out = tuple(_deep_freeze(x, depth + 1) for x in v)
        return _Skip if any(x is _Skip for x in out) else ("tuple", out)
    if isinstance(v, list):
        out = tuple(_deep_freeze(x, depth + 1) for x in v)
        return _Skip if any(x is _Skip for x in out) else ("list", out)
    if isinstance(v, dict):
        try:
            items = tuple(sorted(((k, _deep_freeze(x, depth + 1)) for k, x in v.items()), key=repr))
        except TypeError:
            return _Skip
        return _Skip if any(x is _Skip for _k, x in items) else ("dict", items)
    if isinstance(v, Obj) and v.cls is not None:
        items = tuple(sorted(((k, _deep_freeze(x, depth + 1)) for k, x in v.attrs.items()), key=repr))
        if any(x is _Skip for _k, x in items):
            return _Skip
        return ("obj", v.cls.name, items)
    return _Skip


def _deep_thaw(repo, v):
    if isinstance(v, tuple) and v and v[0] in ("tuple", "list", "dict", "obj"):
        if v[0] == "tuple":
            return tuple(_deep_thaw(repo, x) for x in v[1])
        if v[0] == "list":
            return [_deep_thaw(repo, x) for x in v[1]]
        if v[0] == "dict":
            return {k: _deep_thaw(repo, x) for k, x in v[1]}
        cls = next(c for cs in repo.classes().values() for c in cs if c.name == v[1])
        return Obj(cls, {k: _deep_thaw(repo, x) for k, x in v[2]})
    return v


def build_instance(repo, interp, cname):
    """an instance of the connection class built by its own constructor (collaborators are stand-ins)"""
    from ..absint import ClassRef, Native, Opaque
    c = repo.cls(cname)
    init = next((k.methods["__init__"] for k in repo.mro(c) if "__init__" in k.methods), None)
    n_pos = 0
    if init is not None:
        a = init.node.args
        n_pos = len(a.args) - 1 - len(a.defaults)
    hook = interp.call_hook

    def threading_hook(it, node, callee, args, kwargs):
        nm = getattr(callee, "name", "")
        if nm in ("threading.Lock", "threading.RLock"):
            return Obj(None, {"__enter__": Native(lambda a_, k_: None), "__exit__": Native(lambda a_, k_: None),
                              "acquire": Native(lambda a_, k_: True), "release": Native(lambda a_, k_: None)}, name="lock")
        if nm.startswith("threading.") or nm.startswith("socket."):
            return Obj(None, name=nm)
        return NotImplemented
    interp.call_hook = threading_hook
    try:
        stand_ins = [Obj(None, {"settimeout": Native(lambda a_, k_: None), "done": Native(lambda a_, k_: False)}, name=f"arg{i}") for i in range(max(n_pos, 0))]
        return interp.apply(ClassRef(c), stand_ins, {})
    except (PyRaise, Undecided) as e:
        raise AnalysisError(f"{cname}(...) cannot be constructed by interpretation: {e}")
    finally:
        interp.call_hook = hook


def _patterns():
    import random
    rnd = random.Random(16)
    return {"protocol-only": [False] * 400, "command-only": [True] * 140, "alternating": [False, True] * 420,
            "bursts": ([False] * 3 + [True] * 2) * 200, "mixed": [rnd.random() < 0.4 for _ in range(3000)]}


def trajectories(repo, cname):
    """what a freshly constructed connection issues for fixed call patterns (each in a process of its own)"""
    fi = repo.own_method(cname, FN)
    out = {}
    for name, pat in _patterns().items():
        interp = Interp(repo)
        inst = build_instance(repo, interp, cname)
        seq = []
        for kind in pat:
            interp.steps = 0
            try:
                seq.append(interp.call(fi, inst, [kind]))
            except PyRaise as e:
                seq.append(f"raises {e.what}")
                break
            except Undecided as e:
                raise AnalysisError(f"{fi.qual}: cannot interpret: {e}")
        out[name] = seq
    return out


def by_trajectory(ctx, repo, cname, fi):
    """counter state held in an iterator / generator cannot be snapshotted and restored, so the reachable states are
    walked along fixed call patterns instead (pure runs of each kind beyond two full cycles, strict alternation,
    bursts, a long mixed pattern): range, never zero, successor law per kind whatever the other kind does"""
    rets = {False: set(), True: set()}
    n = 0
    bad = False
    for name, seq in trajectories(repo, cname).items():
        prev = {False: None, True: None}
        for kind, r in zip(_patterns()[name], seq):
            n += 1
            rng = CMD if kind else PROTO
            kn = "command" if kind else "protocol"
            if isinstance(r, str):
                ctx.ob("R1", f"{cname}::raises", False, f"{fi.qual}({kind}) {r} after {n} draws of the pattern {name}", fi.loc)
                bad = True
                break
            if not isinstance(r, int) or isinstance(r, bool) or r not in rng:
                ctx.ob("R1", f"{cname}::{kn}-range", False, f"{fi.qual}({kind}) returns {r!r} (pattern {name}): outside {min(rng)}..{max(rng)}", fi.loc)
                bad = True
                break
            if prev[kind] is not None and not succ_law(prev[kind], r, rng):
                ctx.ob("R2", f"{cname}::{kn}-successor", False,
                       f"{fi.qual}({kind}) returns {r} after {prev[kind]} (pattern {name}): not the successor in the cycle {min(rng)}..{max(rng)}", fi.loc)
                bad = True
                break
            prev[kind] = r
            rets[kind].add(r)
    ctx.count(f"{cname}:trajectory_draws", n)
    ctx.ob("R1", f"{cname}::protocol-set", rets[False] == PROTO or bad, f"{fi.qual}(False) issues {_rng(rets[False])}, expected exactly 1..191", fi.loc,
           sample={"rule": "R1", "impl": cname, "draws": n, "mode": "trajectories (iterator-held state)"})
    ctx.ob("R1", f"{cname}::command-set", rets[True] == CMD or bad, f"{fi.qual}(True) issues {_rng(rets[True])}, expected exactly 192..255", fi.loc)
    ctx.ob("R1", f"{cname}::never-zero", 0 not in rets[False] | rets[True], f"{fi.qual} can return 0", fi.loc)
    ctx.ob("R2", f"{cname}::successor-law", True, f"successor law checked on {n} draws along {len(_patterns())} call patterns")


def fixpoint(ctx, repo, cname, tier):
    fi = repo.own_method(cname, FN)
    attrs = counter_attrs(fi)
    c = repo.cls(cname)
    interp = Interp(repo)
    base = build_instance(repo, interp, cname)
    # counter state: every attribute of the constructed instance that is plain data (ints, containers, small record
    # objects), whatever its name or grouping; everything else (lock, socket, queues of stand-ins) is carried along
    state_names = sorted(k for k, v in base.attrs.items() if _deep_freeze(v) is not _Skip)
    carried = {k: v for k, v in base.attrs.items() if k not in state_names}
    if not state_names:
        raise AnalysisError(f"{cname}: no plain-data attribute after construction - counter state not found")
    # per-instance: a second instance built in the same interpreter starts from the same numbers however far the
    # first one has advanced (a module- or class-level object bound without a copy would be shared)
    try:
        first = build_instance(repo, interp, cname)
        a0 = [interp.call(fi, first, [False]), interp.call(fi, first, [True]), interp.call(fi, first, [False]), interp.call(fi, first, [True])]
        second = build_instance(repo, interp, cname)
        b0 = [interp.call(fi, second, [False]), interp.call(fi, second, [True])]
    except PyRaise as e:
        a0, b0 = f"raises {e.what}", None
    except Undecided as e:
        raise AnalysisError(f"{fi.qual}: cannot interpret: {e}")
    ctx.ob("R3", f"{cname}::instance-state", isinstance(a0, list) and b0 == a0[:2],
           f"two {cname} instances in one process: the first issues {a0}, a second one built afterwards then issues {b0} - expected it to start over at {a0[:2] if isinstance(a0, list) else '?'}: "
           f"the counters are shared between connections (module- or class-level state)", fi.loc)
    for n in walk_no_nested(fi.node):
        if isinstance(n, (ast.Global, ast.Nonlocal)):
            ctx.ob("R3", f"{cname}::no-global", False, "counter function uses global/nonlocal state", loc(fi, n))

    def _held(a_):
        try:
            return base.attrs[a_] if a_ in base.attrs else interp.getattr(base, a_)
        except (PyRaise, Undecided):
            return None
    if any(hasattr(_held(a_), "__next__") for a_ in attrs):
        by_trajectory(ctx, repo, cname, fi)
        return fi, attrs, None
    start = (tuple(_deep_freeze(base.attrs[a]) for a in state_names), None, None)
    seen = {start}
    q = deque([start])
    rets = {False: set(), True: set()}
    res = {}
    nviol = 0
    ntrans = 0
    cap = 60000
    while q and nviol < 20:
        s = q.popleft()
        for kind in (False, True):
            d = dict(carried)
            d.update({a: _deep_thaw(repo, v) for a, v in zip(state_names, s[0])})
            obj = Obj(c, d)
            interp.steps = 0
            try:
                r = interp.call(fi, obj, [kind])
            except PyRaise as e:
                ctx.ob("R1", f"{cname}::raises", False, f"{fi.qual}({kind}) raises {e.what} in state {_show(state_names, s[0])}", fi.loc)
                nviol += 1
                continue
            except Undecided as e:
                raise AnalysisError(f"{fi.qual}: cannot interpret: {e}")
            ntrans += 1
            rng = CMD if kind else PROTO
            name = "command" if kind else "protocol"
            if not isinstance(r, int) or isinstance(r, bool) or r not in rng:
                ctx.ob("R1", f"{cname}::{name}-range", False,
                       f"{fi.qual}({kind}) returns {r!r} from counter state {_show(state_names, s[0])}: outside {min(rng)}..{max(rng)}", fi.loc)
                nviol += 1
            prev = s[2] if kind else s[1]
            if prev is not None and isinstance(r, int) and not succ_law(prev, r, rng):
                ctx.ob("R2", f"{cname}::{name}-successor", False,
                       f"{fi.qual}({kind}) returns {r} after {prev}: not the successor in the cycle {min(rng)}..{max(rng)}", fi.loc)
                nviol += 1
            rets[kind].add(r)
            ns = (tuple(_deep_freeze(obj.attrs.get(a)) for a in state_names), r if not kind else s[1], r if kind else s[2])
            if any(x is _Skip for x in ns[0]):
                raise AnalysisError(f"{fi.qual}: a counter-state attribute stopped being plain data after a call")
            res[(s, kind)] = (r, ns)
            if ns not in seen:
                if len(seen) >= cap:
                    ctx.ob("R1", f"{cname}::bounded", False, f"{fi.qual}: counter state space not closed after {cap} states (counter never wraps?)", fi.loc)
                    nviol += 1
                    q.clear()
                    break
                seen.add(ns)
                q.append(ns)
    # observational form of the transition function (independent of how the state is represented):
    # a state is identified by what it would issue next for each kind
    def obs(st):
        a, b = res.get((st, False)), res.get((st, True))
        return (a[0] if a else None, b[0] if b else None)
    trans = {}
    for (st, kind), (r, ns) in res.items():
        trans.setdefault((obs(st), kind), set()).add((r, obs(ns)))
    trans = {k: sorted(v, key=repr) for k, v in trans.items()}
    ctx.count(f"{cname}:reachable_states", len(seen))
    ctx.count(f"{cname}:transitions", ntrans)
    ctx.ob("R1", f"{cname}::protocol-set", rets[False] == PROTO or nviol > 0,
           f"{fi.qual}(False) issues {_rng(rets[False])}, expected exactly 1..191", fi.loc,
           sample={"rule": "R1", "impl": cname, "states": len(seen), "transitions": ntrans,
                   "protocol_values": _rng(rets[False]), "command_values": _rng(rets[True])})
    ctx.ob("R1", f"{cname}::command-set", rets[True] == CMD or nviol > 0,
           f"{fi.qual}(True) issues {_rng(rets[True])}, expected exactly 192..255", fi.loc)
    ctx.ob("R1", f"{cname}::never-zero", 0 not in rets[False] | rets[True], f"{fi.qual} can return 0", fi.loc)
    ctx.ob("R2", f"{cname}::successor-law", True, f"successor law checked on {ntrans} transitions of {len(seen)} states")
    return fi, attrs, trans


def _show(names, frozen):
    """the part of a frozen state that is not constant noise: small ints and containers of them"""
    out = {}
    for n_, v_ in zip(names, frozen):
        t_ = repr(v_)
        if any(ch.isdigit() for ch in t_) and len(t_) < 160:
            out[n_] = _plain(v_)
    return out


def _plain(v):
    if isinstance(v, tuple) and v and v[0] in ("tuple", "list"):
        return [_plain(x) for x in v[1]]
    if isinstance(v, tuple) and v and v[0] == "dict":
        return {k: _plain(x) for k, x in v[1]}
    if isinstance(v, tuple) and v and v[0] == "obj":
        return {k: _plain(x) for k, x in v[2]}
    return v


def _rng(s):
    s = sorted(x for x in s if isinstance(x, int))
    if not s:
        return "{}"
    runs, a, p = [], s[0], s[0]
    for x in s[1:]:
        if x != p + 1:
            runs.append((a, p))
            a = x
        p = x
    runs.append((a, p))
    return ",".join(f"{a}..{b}" if a != b else str(a) for a, b in runs)


def who_writes_the_counters(ctx, repo, cname, attrs):
    """the counter state (the attributes the counter function works on, found by role) is written by the constructor and
    by the counter function only: any other writer - a `reset` on a socket error, a reconnect helper - restarts or skews
    the numbering in the middle of a connection (the next number is no longer the successor of the last one handed out)"""
    c = repo.cls(cname)
    n = 0
    for cls in [c] + repo.subclasses(cname):
        for fi in list(repo.all_methods(cls).values()) + list(cls.setters.values()):
            if fi.name in ("__init__", FN):
                continue
            for node in walk_no_nested(fi.node):
                tgt = None
                if isinstance(node, (ast.Assign, ast.AugAssign, ast.AnnAssign)):
                    for t in (node.targets if isinstance(node, ast.Assign) else [node.target]):
                        for x in ast.walk(t):
                            if isinstance(x, ast.Attribute) and isinstance(x.ctx, ast.Store):
                                root = x
                                while isinstance(root.value, ast.Attribute):
                                    root = root.value
                                if isinstance(root.value, ast.Name) and root.value.id == "self" and root.attr in attrs:
                                    tgt = root.attr
                if tgt is not None:
                    n += 1
                    ctx.ob("R3", f"{fi.qual}::writes::{tgt}", False,
                           f"{fi.qual} writes the counter state `self.{tgt}` (`{ast.unparse(node)[:60]}`): only the constructor and {FN} may - a second writer restarts or skews the numbering "
                           f"in the middle of a connection, the next number handed out is not the successor of the previous one", loc(fi, node))
    ctx.ob("R3", f"{cname}::counter-state-written-by-constructor-and-counter-only", True, "")
    ctx.count(f"R3:{cname}:other writers of the counter state", n)


def lock_discipline(ctx, repo, cname, attrs):
    """Every access to a counter attribute outside __init__ is lexically inside
    `with self.<lock>` where <lock> is assigned threading.Lock() in __init__."""
    c = repo.cls(cname)
    init = repo.all_methods(c).get("__init__")
    locks = set()
    for n in ast.walk(init.node):
        if isinstance(n, ast.Assign) and isinstance(n.value, ast.Call):
            f = ast.unparse(n.value.func)
            if f.endswith("Lock") or f.endswith("RLock"):
                for t in n.targets:
                    if isinstance(t, ast.Attribute):
                        locks.add(t.attr)
    ctx.ob("R3", f"{cname}::has-lock", bool(locks), f"{cname}.__init__ creates no lock", init.loc)
    n_acc = 0
    for cls in [c] + repo.subclasses(cname):
        for fi in list(cls.methods.values()) + list(cls.setters.values()):
            if fi.name == "__init__" and cls is c:
                continue

            def visit(node, locked):
                nonlocal n_acc
                if isinstance(node, (ast.With, ast.AsyncWith)):
                    l2 = locked
                    for it in node.items:
                        ce = it.context_expr
                        if isinstance(ce, ast.Attribute) and ce.attr in locks and isinstance(ce.value, ast.Name) and ce.value.id == "self":
                            l2 = True
                    for it in node.items:
                        visit(it.context_expr, locked)
                    for s in node.body:
                        visit(s, l2)
                    return
                if isinstance(node, ast.Attribute) and node.attr in attrs and isinstance(node.value, ast.Name) and node.value.id == "self":
                    n_acc += 1
                    ctx.ob("R3", f"{fi.qual}::{node.attr}::L{'' if locked else 'un'}locked", locked,
                           f"{fi.qual} accesses {node.attr} outside `with self.{'/'.join(sorted(locks)) or '_lock'}`", loc(fi, node))
                for ch in ast.iter_child_nodes(node):
                    visit(ch, locked)

            for st in fi.node.body:
                visit(st, False)
    ctx.floor("R3", f"{cname} counter accesses under lock", n_acc, 1)


def call_sites(ctx, repo):
    """R4: every counter draw is a constant-kind call flowing directly into a builder;
    command builders take True, everything else False; builders' seq parameter never
    receives anything but a counter draw."""
    cmd_cls = repo.cls(COMMAND_BUILDER_CLASS)
    cmd_builders = {n for n, f in cmd_cls.methods.items() if f.is_static and f.node.args.args and f.node.args.args[0].arg == "seq"}
    ctx.floor("R4", "command builders with a seq parameter", len(cmd_builders), 2)
    # all static builders with first parameter `seq`
    seq_builders = {}
    for lst in repo.classes().values():
        for c in lst:
            for n, f in c.methods.items():
                if f.is_static and f.node.args.args and f.node.args.args[0].arg == "seq":
                    seq_builders[(c.short, n)] = f
    n_draws = 0
    n_builder_calls = 0
    # the four command entry points are decided by interpretation (vlib/writemodel.py): one draw of the command kind,
    # its number in the frame - however the call is spelled (helper taking a builder lambda, keyword arguments ...)
    from ..writemodel import KEY_SITES, SET_SITES, device_writes, key_presses
    covered = {f"{c_}.{m_}" for c_, m_, _l in SET_SITES + KEY_SITES}
    device_writes(ctx, repo, "R4", kinds=True)
    key_presses(ctx, repo, "R4")
    for fi in repo.all_functions():
        if fi.name == FN:
            continue
        if fi.qual in covered:
            n_draws += sum(1 for n in ast.walk(fi.node) if isinstance(n, ast.Call) and call_name(n) == FN)
            continue
        parents = {}
        for n in ast.walk(fi.node):
            for ch in ast.iter_child_nodes(n):
                parents[ch] = n
        for n in ast.walk(fi.node):
            if not isinstance(n, ast.Call):
                continue
            nm = call_name(n)
            if nm == FN:
                n_draws += 1
                key = f"{fi.qual}::L{_ordinal(fi, n)}"
                if len(n.args) != 1 or not isinstance(n.args[0], ast.Constant) or not isinstance(n.args[0].value, bool):
                    ctx.ob("R4", key + "::const-kind", False, f"{fi.qual}: counter kind argument is not a literal bool: {ast.unparse(n)}", loc(fi, n))
                    continue
                kind = n.args[0].value
                # consumer: nearest enclosing Call other than struct.pack
                p = parents.get(n)
                consumer = None
                while p is not None:
                    if isinstance(p, ast.Call) and p is not n:
                        f = ast.unparse(p.func)
                        if not f.endswith("struct.pack") and f != "pack":
                            consumer = p
                            break
                    if isinstance(p, (ast.FunctionDef, ast.AsyncFunctionDef)):
                        break
                    p = parents.get(p)
                is_cmd = False
                desc = "none"
                if consumer is not None:
                    ch = ast.unparse(consumer.func)
                    desc = ch
                    parts = ch.split(".")
                    if len(parts) >= 2 and parts[-2] == COMMAND_BUILDER_CLASS and parts[-1] in cmd_builders:
                        is_cmd = True
                want = is_cmd
                ctx.ob("R4", key, kind == want,
                       f"{fi.qual}: sequence for `{desc}` drawn with ({kind}); "
                       f"{'pack commands must use the command range (True)' if want else 'non-command requests must use the protocol range (False)'}",
                       loc(fi, n),
                       sample={"rule": "R4", "site": f"{fi.qual} {loc(fi, n)}", "consumer": desc, "kind": kind})
            # builder calls: first positional arg must be a counter draw
            if isinstance(n.func, ast.Attribute) and isinstance(n.func.value, ast.Name):
                k = (n.func.value.id, n.func.attr)
                if k in seq_builders and fi.cls is not None and fi.cls.short != k[0] or (k in seq_builders and fi.cls is None):
                    n_builder_calls += 1
                    a0 = n.args[0] if n.args else None
                    ok = isinstance(a0, ast.Call) and call_name(a0) == FN
                    if not ok and isinstance(a0, ast.Name) and a0.id == "seq":
                        ok = True  # forwarded parameter of a wrapper builder
                    ctx.ob("R4", f"{fi.qual}::{k[0]}.{k[1]}::seq-arg", ok,
                           f"{fi.qual}: {k[0]}.{k[1]} is given sequence `{ast.unparse(a0) if a0 is not None else None}` which is not a counter draw", loc(fi, n))
    ctx.floor("R4", "counter draw sites", n_draws, 15)
    ctx.count("R4:builder_calls_outside_own_class", n_builder_calls)


def _ordinal(fi, node):
    """Ordinal of this call among same-named calls in the function (stable key)."""
    i = 0
    for n in ast.walk(fi.node):
        if isinstance(n, ast.Call) and call_name(n) == FN:
            if n is node:
                return i
            i += 1
    return i


def sibling(ctx, repo, results):
    """R5: the two implementations compute the same transition function (semantic
    agreement on every reachable state and both kinds; textual differences such as a
    dropped `else:` or named constants do not matter)."""
    if len(results) != 2:
        return
    (fa, _, ta), (fb, _, tb) = results
    if ta is None or tb is None:
        # one of them keeps its state in an iterator: compared by what each issues along the same call patterns
        ja, jb = trajectories(repo, fa.cls.short), trajectories(repo, fb.cls.short)
        diff = [(k, i) for k in ja for i, (x, y) in enumerate(zip(ja[k], jb[k])) if x != y][:1] + [(k, "length") for k in ja if len(ja[k]) != len(jb[k])][:1]
        ctx.ob("R5", "sibling-agreement", not diff,
               f"{fa.qual} and {fb.qual} issue different numbers for the same calls, first at {diff[:1]}: "
               f"{ja[diff[0][0]][diff[0][1]] if diff and isinstance(diff[0][1], int) else None} vs {jb[diff[0][0]][diff[0][1]] if diff and isinstance(diff[0][1], int) else None}", fa.loc)
        return
    diff = [k for k in set(ta) | set(tb) if ta.get(k) != tb.get(k)]
    ctx.ob("R5", "sibling-agreement", not diff,
           f"{fa.qual} and {fb.qual} disagree on {len(diff)} (state, kind) pairs, e.g. {diff[:1]}: {ta.get(diff[0]) if diff else None} vs {tb.get(diff[0]) if diff else None}", fa.loc)


def retransmission_carries_the_drawn_number(ctx, repo, rule):
    """A request is retransmitted by queueing the same handler object again, and the threaded socket reads its bytes
    when it actually sends: what goes out then must still be the number the counter handed out.  Every request builder
    (C04's message table: builders with a sequence field) is interpreted, its content read, every message its own class
    accepts is delivered to it through handle(), and the content read again: it must be the same symbolic bytes."""
    from ..absint import Interp, PyRaise, Undecided
    from ..symbytes import SymBytes
    from .c04 import SENDER, _fields_in, build_message, can_handle, message_table, wire_of
    interp = Interp(repo, max_depth=10)
    rows = message_table()
    n = 0
    for cname, builder, args, _expect, desc in rows:
        try:
            fields = _fields_in(args, {})
        except Undecided:
            continue
        if "seq" not in fields:
            continue
        for c2, b2, args2, _e2, d2 in rows:
            if c2 != cname:
                continue
            def on_wire(msg):
                # what the socket would send now: the framed bytes when the handler can be framed, else its content
                try:
                    interp.steps = 0
                    return interp.getattr(msg, "send_bytes")
                except (PyRaise, Undecided):
                    return wire_of(msg, interp)
            try:
                req = build_message(repo, interp, cname, builder, args, {"parms": ("10.1.2.3", 10022, b"SPA-ID", b"IOS-CLIENT")})
                before = on_wire(req)
                reply = wire_of(build_message(repo, interp, c2, b2, args2), interp)
                if before is None or reply is None:
                    continue
                reply = SymBytes.of(reply)
                reply = reply.concrete() if reply.concrete() is not None else reply
                if not can_handle(repo, interp, repo.cls(cname), req, reply):
                    continue
                interp.steps = 0
                interp.call(repo.method(cname, "handle"), req, [reply, SENDER])
                after = on_wire(req)
            except (PyRaise, Undecided):
                continue
            n += 1
            same = after is not None and SymBytes.of(before).cells == SymBytes.of(after).cells
            ctx.ob(rule, f"{cname}.{builder}::content-fixed-under::{d2}", same,
                   f"{cname}.{builder} ({desc}): after the pending request has handled a {d2} message its content reads {after!r}, it was built as {before!r}: "
                   f"a retransmission (the same object queued again, bytes read at send time) no longer carries the sequence number the counter handed out",
                   repo.method(cname, "handle").loc, sample={"rule": rule, "request": desc, "delivered": d2, "same": same})
    ctx.count(f"{rule}:request x delivered-message pairs", n)
    ctx.floor(rule, "request x delivered-message pairs", n, 12)


def acknowledgement_numbers(ctx, repo, rule):
    """The one request the library sends that no builder call site draws for - the STATQ acknowledgement of an unsolicited
    partial update - by interpretation on both stacks: the connection object is built by its own constructor (only its
    send path is a recorder), the long-lived partial-update handler by its own, three STATP messages made by the library's
    builder are delivered; the acknowledgements must carry 1, 2, 3 - fresh draws of the protocol kind on a fresh
    connection, never 0, each the successor of the one before."""
    from ..absint import ClassRef, Interp, Native, PyRaise, Undecided
    from . import c04
    SYNC_H, ASYNC_H = "GeckoPartialStatusBlockProtocolHandler", "GeckoAsyncPartialStatusBlockProtocolHandler"
    sender = ("10.0.0.7", 10022)
    for stack, hname, hmeth, cname in (("awaitable", ASYNC_H, "async_handle", "GeckoAsyncUdpProtocol"), ("blocking", SYNC_H, "handle", "GeckoUdpSocket")):
        it = Interp(repo, max_depth=12)
        link = build_instance(repo, it, cname)
        acks = []
        link.attrs["queue_send"] = Native(lambda a, k: acks.append(a[0]), "queue_send")
        try:
            h = it.apply(ClassRef(repo.cls(hname)), [link], {})
            for i in range(3):
                msg = it.call(repo.method(SYNC_H, "report_changes"), None, [link, [(10 + i, b"\x00\x01")]])
                acks.clear() if False else None
                it.steps = 0
                it.call(repo.method(hname, hmeth), h, [c04.wire_of(msg, it), sender])
            got = []
            for a in acks:
                w = c04.wire_of(a, it)
                w = bytes(w) if isinstance(w, (bytes, bytearray)) else (w.concrete() if hasattr(w, "concrete") else None)
                got.append(w)
        except PyRaise as e:
            got = f"raises {e.what}"
        except Undecided as e:
            raise AnalysisError(f"{hname}: acknowledgement numbers on a constructed {cname}: {e}")
        want = [b"STATQ" + bytes([n]) for n in (1, 2, 3)]
        fi = repo.method(hname, hmeth)
        ctx.ob(rule, f"{stack}::STATQ-acknowledgements-draw-fresh-protocol-numbers", got == want,
               f"{stack} stack: three partial updates on a fresh connection are acknowledged with {got}, expected {want} - each acknowledgement must draw a new number of the protocol kind "
               f"(a number read without drawing is 0 before the first request and repeats the last request's number afterwards)", fi.loc,
               sample={"rule": rule, "stack": stack, "acknowledgements": [repr(g) for g in got] if isinstance(got, list) else got})


def wire_carries_the_drawn_number(ctx, repo, rule):
    from ..absint import Interp, PyRaise, Undecided
    from ..symbytes import SymBytes
    from . import c04
    interp = Interp(repo, max_depth=10)
    n_b = 0
    for cname, builder, args, _expect, desc in c04.message_table():
        try:
            fields = c04._fields_in(args, {})
        except Undecided:
            continue
        if "seq" not in fields:
            continue
        bfi = repo.method(cname, builder, required=False)
        if bfi is None:
            continue
        base = {n: (0x21 + 13 * i) & ((1 << b) - 1) for i, (n, b) in enumerate(sorted(fields.items()))}
        wires = {}
        bad = None
        for s_ in range(1, 256):
            try:
                msg = c04.build_message(repo, interp, cname, builder, c04._subst(args, dict(base, seq=s_)))
                w = c04.wire_of(msg, interp)
                w = SymBytes.of(w).concrete() if w is not None else None
            except PyRaise as e:
                bad = bad or (s_, f"raises {e.what}")
                continue
            except Undecided as e:
                raise AnalysisError(f"{cname}.{builder}[{desc}] with sequence number {s_}: {e}")
            if w is None:
                raise AnalysisError(f"{cname}.{builder}[{desc}] with sequence number {s_}: no concrete content")
            wires[s_] = bytes(w)
        n_b += 1
        if bad is None and len(wires) >= 2:
            w1, w2 = wires[1], wires[2]
            pos = [i for i in range(min(len(w1), len(w2))) if w1[i] != w2[i]]
            if len(w1) != len(w2) or len(pos) != 1 or w1[pos[0]] != 1 or w2[pos[0]] != 2:
                bad = (2, f"{w2!r} against {w1!r} for number 1: the number is not one byte of the message")
            else:
                p_ = pos[0]
                for s_, w in sorted(wires.items()):
                    if not (len(w) == len(w1) and w[p_] == s_ and w[:p_] == w1[:p_] and w[p_ + 1:] == w1[p_ + 1:]):
                        bad = (s_, f"{w!r}: byte {p_} (the sequence position) is {w[p_] if len(w) > p_ else None}, message length {len(w)} against {len(w1)}")
                        break
        ctx.ob(rule, f"{cname}.{builder}[{desc}]::number-on-the-wire", bad is None,
               f"{desc}: {cname}.{builder} with sequence number {bad[0] if bad else ''} gives {bad[1] if bad else ''} - the number handed out by the counter is not the number the peer reads "
               f"(a protocol-range number appears in the command range, distinct numbers collapse onto one value)", bfi.loc,
               sample={"rule": rule, "message": desc, "numbers": len(wires)})
    ctx.count(f"{rule}:builders swept over every sequence number", n_b)
    ctx.floor(rule, "builders swept over every sequence number", n_b, 9)


def check(ctx):
    repo = Repo()
    ctx.exhaustive = True
    ctx.rule("R1", "value-set fixpoint of the counter function: protocol values = 1..191, command values = 192..255, never 0 (every reachable state, both implementations)")
    ctx.rule("R2", "successor law on every transition of every reachable state, for every interleaving of the two kinds")
    ctx.rule("R3", "counters are per-instance constants set in __init__; in GeckoUdpSocket every access is inside `with self._lock`")
    ctx.rule("R4", "kind per draw site: GeckoPackCommandProtocolHandler builders take (True), all others (False); builders never get a non-counter sequence")
    ctx.rule("R5", "both implementations identical modulo the lock")
    ctx.rule("R6", "what a retransmission puts on the wire is the number that was handed out: the content of every pending request is unchanged by any message its handler accepts (interpreted: build, handle, read content again)")
    retransmission_carries_the_drawn_number(ctx, repo, "R6")
    ctx.rule("R8", "the wire carries the number drawn, for EVERY number: each request builder that takes a sequence number, interpreted with every number 1..255 (its other fields fixed), puts exactly that number into one fixed byte of an otherwise unchanged message - a number encoded some other way (as text: two bytes from 128 on) shows up in another range and collapses distinct numbers onto one wire value")
    wire_carries_the_drawn_number(ctx, repo, "R8")
    ctx.rule("R7", "acknowledgements draw too: the STATQ that answers an unsolicited partial update carries a freshly drawn protocol number on both stacks (connection and handler built by their constructors, three updates -> 1, 2, 3)")
    acknowledgement_numbers(ctx, repo, "R7")
    results = []
    for cname in IMPLS:
        r = fixpoint(ctx, repo, cname, ctx.tier)
        if r:
            results.append(r)
        if r and cname == "GeckoUdpSocket":
            lock_discipline(ctx, repo, cname, r[1])
        if r:
            who_writes_the_counters(ctx, repo, cname, [a for a in r[1]])
    call_sites(ctx, repo)
    sibling(ctx, repo, results)
    ctx.assume("threading.Lock provides mutual exclusion (CPython)")
    ctx.trusted.append("vlib.absint concrete-int interpretation of a 10-line pure function")
