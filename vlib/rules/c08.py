"""C08 - lifecycle follows the state table; facade-ready/teardown are well-bracketed.

Invariants from the statement checked on the relation EXTRACTED from the event switch
(not a frozen copy of the table; the extracted rows go to the evidence).
NOT decided: closure of the reachable (state, facade, spa, ...) set under concurrently
raised events (that is model checking, another family).
"""
from __future__ import annotations

import ast

from ..absint import ClassRef, EnumMember, Interp, Opaque, PyRaise, Undecided
from ..callgraph import callgraph
from ..cfg import atoms, cfg_of
from ..core import AnalysisError
from ..facts import loc
from ..fsm import MAN, STATE_ATTR, all_raise_sites, enum_members, event_arg, rows_of
from ..pathrules import assigns_attr, calls_named
from ..src import Repo, call_name, receiver, walk_no_nested

TEARDOWN = "CLIENT_FACADE_TEARDOWN"
READY = "CLIENT_FACADE_IS_READY"
BRACKETS = (("LOCATING_STARTED", "LOCATING_FINISHED"), ("CONNECTION_STARTED", "CONNECTION_FINISHED"))


def nullness_at_exit(g, attrs):
    """Forward dataflow: for each self.<attr>: 'N' (None), 'X' (not None), '?'.
    Refined on `self.a is None` tests; -> {attr: set of values at normal exit}"""
    init = {a: "?" for a in attrs}
    state = {g.entry: [dict(init)]}
    work = [g.entry]
    seen_states = {}
    results = {a: set() for a in attrs}

    def key(d):
        return tuple(sorted(d.items()))

    visited = set()
    stack = [(g.entry, key(init))]
    while stack:
        n, k = stack.pop()
        if (n, k) in visited:
            continue
        visited.add((n, k))
        d = dict(k)
        if n is g.exit:
            for a in attrs:
                results[a].add(d[a])
            continue
        # transfer
        if n.kind == "stmt" and isinstance(n.ast, ast.Assign):
            for t in n.ast.targets:
                tt = ast.unparse(t)
                for a in attrs:
                    if tt == f"self.{a}":
                        v = n.ast.value
                        d[a] = "N" if isinstance(v, ast.Constant) and v.value is None else "X"
        for m, label in g.succ[n]:
            if label == "exc":
                continue
            d2 = dict(d)
            if n.kind == "test" and label in ("T", "F"):
                for t, p in atoms(n.ast, label == "T"):
                    for a in attrs:
                        if t == f"self.{a} is None":
                            d2[a] = "N" if p else "X"
            stack.append((m, key(d2)))
    return results


class _Muted:
    """stands in for the context while the site-level rules do not apply: obligations and floors are dropped"""

    def __init__(self, ctx):
        self._c = ctx

    def ob(self, *a, **k):
        return True

    def floor(self, *a, **k):
        return None

    def __getattr__(self, n):
        return getattr(self._c, n)


def reset_by_interpretation(ctx, repo, rule="I6", rule_disconnect=None):
    """async_reset on the manager model: from several states, with / without a facade and a spa (connected or not)"""
    from ..absint import PyRaise
    from ..managermodel import Manager
    reset = repo.method(MAN, "async_reset")
    m = Manager(repo).warm_up()
    n = 0
    for state in ("CONNECTED", "CONNECTING", "ERROR_NEEDS_ATTENTION", "ERROR_PING_MISSED", "IDLE", "LOCATED_SPAS"):
        for fac in (True, False):
            for spa, connected in ((True, True), (True, False), (False, False)):
                if fac and not spa:
                    continue
                m.put(state, facade=fac, spa=spa, connected=connected)
                try:
                    m.reset()
                    err = None
                except PyRaise as e:
                    err = e.what
                post = {"state": m.state(), "facade": m.it.getattr(m.obj, "facade") is not None, "spa": m.obj.attrs.get("_spa") is not None,
                        "descriptors": m.it.getattr(m.obj, "spa_descriptors") is not None}
                key = f"async_reset::from={state}::facade={fac}::spa={'connected' if spa and connected else 'unconnected' if spa else 'none'}"
                n += 1
                ctx.ob(rule, f"{key}::lands-in-IDLE-with-nothing", err is None and post == {"state": "IDLE", "facade": False, "spa": False, "descriptors": False},
                       f"async_reset from {state} (facade {'present' if fac else 'absent'}, spa {'connected' if spa and connected else 'present, handshake unfinished' if spa else 'absent'}) "
                       f"{'raises ' + err if err else 'ends in ' + str(post)}: expected IDLE with no facade, spa or descriptors", reset.loc,
                       sample={"rule": rule, "from": state, "post": post} if n % 7 == 1 else None)
                r2 = rule_disconnect or rule
                want_calls = (["facade.disconnect"] if fac else []) + (["spa.disconnect"] if spa else [])
                got_calls = [x for x in m.log if x in ("facade.disconnect", "spa.disconnect")]
                ctx.ob(r2, f"{key}::disconnects-what-exists", err is not None or got_calls == want_calls,
                       f"async_reset from {state}: collaborators asked to disconnect {got_calls}, expected {want_calls} - whatever exists is disconnected (a spa whose handshake never finished still owns an endpoint and tasks)", reset.loc)
                if fac and spa:
                    ctx.ob("I4", f"{key}::facade-still-there-when-the-spa-disconnects", err is not None or ("facade-at-spa-disconnect", True) in m.log,
                           f"async_reset from {state}: the facade reference is dropped before the spa's disconnect announces RUNNING_SPA_DISCONNECTED - a teardown raised by it would find no facade", reset.loc)
    ctx.floor(rule, "reset valuations interpreted", n, 20)


def complete_only_with_a_block(ctx, repo, rule):
    """GeckoAsyncSpa._connect on the connection model (facts.ConnectionModel): version, channel and FILES requests are
    answered, the table modules are stand-ins, and the initial status-block transfer (the structure's get) reports
    False / True by script.  Without a block: no CONNECTION_SPA_COMPLETE, is_connected reads False, the retry-exhaustion
    event is announced.  With a block: CONNECTION_SPA_COMPLETE once and is_connected True."""
    from ..absint import Native, Obj, PyRaise, Undecided
    from ..facts import ConnectionModel
    from ..modlookup import _model_module
    fi = repo.method("GeckoAsyncSpa", "_connect")

    class _Any(dict):
        def __missing__(self, k):
            return Obj(None, {"value": 1, "tag": k}, name=f"acc<{k}>")

        def __contains__(self, k):
            return True

        def __hash__(self):
            return id(self)
    res = {}
    for got_block in (False, True):
        taken = []
        module = _model_module(taken)

        def answer(req):
            nm = req.cls.short if isinstance(req, Obj) and req.cls is not None else ""
            if "Version" in nm:
                return Obj(None, {"en_build": 70, "en_major": 14, "en_minor": 1, "co_build": 69, "co_major": 11, "co_minor": 2}, name="version-reply")
            if "Channel" in nm:
                return Obj(None, {"channel": 10, "signal_strength": 33}, name="channel-reply")
            if "ConfigFile" in nm:
                return Obj(None, {"plateform_key": "inYT", "config_version": 61, "log_version": 59}, name="files-reply")
            return None
        cm = ConnectionModel(repo, connect=False, answer=answer)
        inner = cm.it.call_hook

        def hook(it_, node, callee, args, kwargs, inner=inner, module=module):
            if getattr(callee, "name", "").endswith("import_module"):
                return module(args[0] if args else None)
            return inner(it_, node, callee, args, kwargs)
        cm.it.call_hook = hook
        st = cm.it.getattr(cm.spa, "struct")
        if not isinstance(st, Obj):
            raise AnalysisError("GeckoAsyncSpa(...).struct is not an object the model can script")
        asked = []
        st.attrs["get"] = Native(lambda a, k, got_block=got_block: (asked.append(1), got_block)[1], "get")
        st.attrs["build_accessors"] = Native(lambda a, k: None, "build_accessors")
        st.attrs["accessors"] = _Any()
        try:
            cm.it.steps = 0
            cm.it.call(fi, cm.spa, [])
            outcome = None
        except PyRaise as e:
            outcome = f"raises {e.what}"
        except Undecided as e:
            raise AnalysisError(f"{fi.qual} on the connection model (initial block transfer {'succeeds' if got_block else 'fails'}): {e}")
        try:
            connected = cm.it.getattr(cm.spa, "is_connected")
        except (PyRaise, Undecided) as e:
            connected = f"<{e}>"
        res[got_block] = (outcome, list(cm.events), connected, len(asked))
    o0, ev0, c0, a0 = res[False]
    ctx.ob(rule, "SPA_COMPLETE::not-without-the-initial-block", a0 >= 1 and "CONNECTION_SPA_COMPLETE" not in ev0 and c0 is False and "CONNECTION_PROTOCOL_RETRY_COUNT_EXCEEDED" in ev0,
           f"{fi.qual} when the initial status-block transfer fails (asked {a0} time(s)): outcome {o0!r}, events {ev0[-4:]}, is_connected {c0!r} - expected the retry-exhaustion event, no CONNECTION_SPA_COMPLETE and "
           f"is_connected False (the manager would build a facade on a structure without data and announce CONNECTED)", fi.loc,
           sample={"rule": rule, "scenario": "initial block transfer fails", "events": ev0[-4:]})
    o1, ev1, c1, a1 = res[True]
    ctx.ob(rule, "SPA_COMPLETE::with-the-initial-block", o1 is None and ev1.count("CONNECTION_SPA_COMPLETE") == 1 and ev1[-1] == "CONNECTION_SPA_COMPLETE" and c1 is True,
           f"{fi.qual} when the initial status-block transfer succeeds: outcome {o1!r}, events {ev1[-4:]}, is_connected {c1!r} - expected CONNECTION_SPA_COMPLETE once, last, with is_connected True", fi.loc)


def connect_bracket_under_reset(ctx, repo, rule):
    """async_connect_to_spa on the manager model while ANOTHER task resets the manager: the connection object is a
    stand-in whose connect() - the point where the phase is suspended - performs the manager's own async_reset (a press
    of the reconnect button, async_set_spa_info, the ping recovery) and then returns, or raises.  Whatever the phase then
    does, the client has seen CONNECTION_STARTED and must see CONNECTION_FINISHED after it: nothing in the way to the
    closing event may depend on what the reset has taken away."""
    from ..absint import ClassRef, Native, Obj, PyRaise, Undecided
    from ..managermodel import Manager
    fi = repo.method(MAN, "async_connect_to_spa")
    for how in ("returns", "raises"):
        m = Manager(repo).warm_up()
        m.put("IDLE", facade=False, spa=False, descriptors=True)
        base_hook = m._hook

        def connect(a, k, m=m, how=how):
            m.log.append("spa.connect")
            m.it.call(repo.method(MAN, "async_reset"), m.obj, [])      # the other task's reset, while this one waits
            if how == "raises":
                raise PyRaise("OSError: network unreachable")
            return None

        def hook(it_, node, callee, args, kwargs, m=m):
            if isinstance(callee, ClassRef) and callee.cls.short == "GeckoAsyncSpa":
                spa = m.make_spa(connected=False)
                spa.attrs["connect"] = Native(connect, "connect")
                return spa
            return base_hook(it_, node, callee, args, kwargs)
        m.it.call_hook = hook
        desc = Obj(None, {"name": "My spa", "identifier": b"SPA-ID", "identifier_as_string": "SPA-ID", "ipaddress": "10.0.0.5", "port": 10022, "destination": ("10.0.0.5", 10022)}, name="descriptor")
        try:
            m.it.steps = 0
            m.it.call(fi, m.obj, [desc])
            outcome = None
        except PyRaise as e:
            outcome = e.what
        except Undecided as e:
            raise AnalysisError(f"{fi.qual} with a concurrent reset ({how}): {e}")
        events = [c[0] for c in m.calls]
        started = [i for i, e in enumerate(events) if e == "CONNECTION_STARTED"]
        finished = [i for i, e in enumerate(events) if e == "CONNECTION_FINISHED"]
        ok = len(started) == 1 and len(finished) == 1 and finished[0] > started[0] and (how == "returns" and outcome is None or how == "raises" and outcome is not None and "OSError" in outcome)
        ctx.ob(rule, f"{fi.qual}::reset-while-connecting::{how}::bracket-closed", ok,
               f"{fi.qual} while another task resets the manager during spa.connect() (which then {how}): client events {events}, outcome {outcome!r} - expected CONNECTION_STARTED closed by exactly one "
               f"CONNECTION_FINISHED and the phase's own result / exception (the way to the closing event must not read what the reset has cleared)", fi.loc,
               sample={"rule": rule, "scenario": f"reset during connect, connect {how}", "events": events})


def nothing_found_is_announced(ctx, repo, rule):
    """The locate outcome 'nobody answered' by interpretation: on the manager model async_connect(identifier) runs with
    the real GeckoAsyncLocator (built by its constructor inside async_locate_spas) whose discover() is interpreted on a
    model event loop and clock on which no reply ever arrives: the manager must hold an empty descriptor LIST, announce
    SPA_NOT_FOUND and end in ERROR_SPA_NOT_FOUND - not stay in LOCATED_SPAS with descriptors None, which ends the
    reconnect driver on an assertion."""
    from ..absint import BoundMethod, Closure, Native, Obj, Opaque, PyRaise, Undecided
    from ..managermodel import Manager
    m = Manager(repo).warm_up()
    m.put("IDLE", facade=False, spa=False, descriptors=False)
    it = m.it
    st = {"clock": 100.0, "sleeps": 0}
    transport = Obj(None, {"close": Native(lambda a, k: None, "close"), "sendto": Native(lambda a, k: None, "sendto"), "is_closing": Native(lambda a, k: False, "is_closing")}, name="transport")

    def endpoint(a, k):
        proto = a[0]([], {}) if isinstance(a[0], Closure) else it.apply(a[0], [], {})
        if isinstance(proto, Obj) and proto.cls is not None:
            cmf = repo.method(proto.cls.short, "connection_made", required=False)
            if cmf is not None:
                it.call(cmf, proto, [transport])
        return (transport, proto)
    loop = Obj(None, {"create_future": Native(lambda a, k: Obj(None, {"done": Native(lambda a2, k2: False), "set_result": Native(lambda a2, k2: None), "cancel": Native(lambda a2, k2: None)}, name="future")),
                      "create_datagram_endpoint": Native(endpoint, "create_datagram_endpoint")}, name="loop")
    base_hook = m._hook

    def hook(it_, node, callee, args, kwargs):
        nm = getattr(callee, "name", "")
        if nm == "time.monotonic":
            st["clock"] += 0.0005      # reading the clock takes time too: a loop that never sleeps still sees time pass
            return st["clock"]
        if nm in ("asyncio.get_running_loop", "asyncio.get_event_loop"):
            return loop
        if nm == "asyncio.sleep":
            st["sleeps"] += 1
            if st["sleeps"] > 5000:
                raise PyRaise("model: discover() did not return")
            st["clock"] += float(args[0]) if args and isinstance(args[0], (int, float)) and args[0] > 0 else 0.05
            return None
        if nm in ("asyncio.create_task", "asyncio.ensure_future"):
            tname = kwargs.get("name", "task")
            return Obj(None, {"get_name": Native(lambda a, k: tname), "cancel": Native(lambda a, k: None), "done": Native(lambda a, k: False), "cancelled": Native(lambda a, k: False)}, name="task")
        if isinstance(callee, BoundMethod) and callee.fi.name in ("consume", "_broadcast_loop", "_tidy"):
            return Opaque(f"coroutine<{callee.fi.name}>")
        return base_hook(it_, node, callee, args, kwargs)
    it.call_hook = hook
    ac = repo.method(MAN, "async_connect")
    try:
        it.steps = 0
        ret = it.call(ac, m.obj, ["SPA-ID", None])
        outcome = None
    except PyRaise as e:
        ret, outcome = None, e.what
    except Undecided as e:
        raise AnalysisError(f"{ac.qual} on the manager model with a discovery nobody answers: {e}")
    events = [c[0] for c in m.calls]
    desc = it.getattr(m.obj, "_spa_descriptors")
    ok = outcome is None and ret is None and "SPA_NOT_FOUND" in events and m.state() == "ERROR_SPA_NOT_FOUND" and isinstance(desc, list) and not desc
    ctx.ob(rule, "async_connect::nobody-answers::announced-and-error-state", ok,
           f"async_connect when no spa answers the discovery ({st['clock'] - 100.0:.0f}s of model time): outcome {outcome!r}, client events {events}, final state {m.state()}, descriptors {desc!r} - expected "
           f"LOCATING_STARTED, LOCATING_FINISHED, SPA_NOT_FOUND, the state ERROR_SPA_NOT_FOUND and an empty descriptor list (descriptors None in LOCATED_SPAS ends the reconnect driver on an assertion and nothing reports the missing spa)",
           ac.loc, sample={"rule": rule, "events": events, "final": m.state()})


def lifecycle_by_interpretation(ctx, repo):
    """I1-I4, I6, I7 on the interpreted relation: every state x facade presence x event"""
    from ..absint import Opaque as _Op
    from ..managermodel import lifecycle_relation
    rel, states, events, m = lifecycle_relation(repo)
    he = repo.method(MAN, "_handle_event")
    ctx.floor("I9", "state x facade x event valuations interpreted", len(rel), 400)
    texts = {}
    for s_ in states:
        try:
            texts[s_] = m.text_of(s_)
        except Exception:  # noqa: BLE001 - totality of to_string is decided separately
            texts[s_] = None
    n_ready = n_td = 0
    for (s0, fac, ev), out in sorted(rel.items()):
        if "raises" in out:
            continue
        calls = out["calls"]
        final = out["final"]
        key = f"{s0}::facade={fac}::{ev}"
        # I1: CONNECTED / SPA_READY are entered only their own way
        if final == "CONNECTED" and s0 != "CONNECTED":
            ctx.ob("I1", f"rel::{key}::CONNECTED-only-by-FINISHED-with-facade", ev == "CONNECTION_FINISHED" and fac,
                   f"from {s0} (facade {'present' if fac else 'absent'}) the event {ev} moves the manager to CONNECTED: only CONNECTION_FINISHED with a live facade may", he.loc)
        if final == "SPA_READY" and s0 != "SPA_READY":
            ctx.ob("I1", f"rel::{key}::SPA_READY-only-by-SPA_COMPLETE", ev == "CONNECTION_SPA_COMPLETE", f"from {s0} the event {ev} moves the manager to SPA_READY: only CONNECTION_SPA_COMPLETE may", he.loc)
        # I2: ready announced exactly when CONNECTED is entered, with the state already CONNECTED and a facade
        ready = [c for c in calls if c[0] == READY]
        n_ready += len(ready)
        entered = final == "CONNECTED" and s0 != "CONNECTED"
        ctx.ob("I2", f"rel::{key}::ready-iff-entered", (len(ready) == 1) if entered else (len(ready) == 0 or (s0 == "CONNECTED" and ev == "CONNECTION_FINISHED")),
               f"from {s0} (facade {'present' if fac else 'absent'}) on {ev}: {len(ready)} {READY} callback(s), CONNECTED {'entered' if entered else 'not entered'} (final {final})", he.loc)
        for c in ready:
            ctx.ob("I2", f"rel::{key}::ready-sees-CONNECTED-and-facade", c[1] == "CONNECTED" and c[2], f"{READY} delivered while the manager reads state {c[1]} / facade {'present' if c[2] else 'absent'}", he.loc)
        # I3 / I4: teardown only out of CONNECTED, after the state has left it, at most once, with a facade
        td = [c for c in calls if c[0] == TEARDOWN]
        n_td += len(td)
        ctx.ob("I3", f"rel::{key}::teardown-only-from-CONNECTED-once", len(td) == 0 or (s0 == "CONNECTED" and len(td) == 1),
               f"from {s0} on {ev}: {len(td)} {TEARDOWN} callback(s) - a teardown belongs to leaving CONNECTED, once", he.loc)
        for c in td:
            ctx.ob("I3", f"rel::{key}::teardown-after-leaving-CONNECTED", c[1] != "CONNECTED", f"{TEARDOWN} delivered while the manager still reads CONNECTED (a concurrent event could announce a second one)", he.loc)
            if fac:
                ctx.ob("I4", f"rel::{key}::teardown-sees-facade", c[2], f"{TEARDOWN} delivered on {ev} from {s0} after the facade reference was dropped", he.loc)
        # I7: at every client callback the status text is the text of the state the manager reads
        for c in calls:
            want = texts.get(c[1])
            if isinstance(c[3], str) and isinstance(want, str):
                ctx.ob("I7", f"rel::{key}::text-follows-state::{c[0]}", c[3] == want,
                       f"client callback {c[0]} (fired by {ev} from {s0}): status sensor shows {c[3]!r} while the manager is in {c[1]} ({want!r})", he.loc)
    ctx.ob("I2", "rel::ready-is-announced-somewhere", n_ready >= 1, f"no valuation delivers {READY}", he.loc)
    ctx.ob("I3", "rel::teardown-is-announced-somewhere", n_td >= 3, f"only {n_td} valuations deliver {TEARDOWN}", he.loc)
    ctx.extra["lifecycle_relation_by_interpretation"] = sorted(f"{s0}{'+facade' if fac else ''} --{ev}--> {out.get('final')}" for (s0, fac, ev), out in rel.items()
                                                                if out.get("final") != s0 and "raises" not in out)[:80]
    reset_by_interpretation(ctx, repo, "I6")


def facade_disconnect_completes(ctx, repo, rule):
    """on the awaitable facades built for the richest pair of every platform (their update task registered but NOT yet
    run - a reset can land in the very loop iteration that built the facade), disconnect() completes, and completes again
    when called a second time"""
    from ..buildmodel import disconnect_twice as _dt14
    from ..packs import tables as _tables14
    n14 = 0
    for (plat_, cs_, ls_), (r_, out_) in sorted(_dt14(repo, _tables14(repo)).items()):
        if r_ is not None:
            continue      # a pair whose facade cannot be built is C11's finding
        n14 += 1
        ctx.ob(rule, f"GeckoAsyncFacade::{plat_}::disconnect-twice", out_ is None,
               f"GeckoAsyncFacade built on ({cs_}, {ls_}): {out_} - a reset that finds the facade already disconnected once aborts before it forgets anything", repo.method("GeckoAsyncFacade", "disconnect").loc,
               sample={"rule": rule, "platform": plat_} if plat_.startswith("inyt") else None)
    ctx.floor(rule, "facades disconnected twice", n14, 8)


def check(ctx):
    repo = Repo()
    cg = callgraph(repo)
    he = repo.method(MAN, "_handle_event")
    g, rows = rows_of(he)
    ctx.rule("I1", "CONNECTED is assigned at exactly one site, in the CONNECTION_FINISHED row under `_facade is not None`; the facade is built only under state SPA_READY; SPA_READY only in the CONNECTION_SPA_COMPLETE row, raised only after the spa is fully connected")
    ctx.rule("I2", "CLIENT_FACADE_IS_READY is raised at exactly that site, after the assignment")
    ctx.rule("I3", "every CLIENT_FACADE_TEARDOWN raise is guarded by state == CONNECTED and dominated by an assignment moving the state off CONNECTED, test-and-set without suspension (=> at most one teardown per ready)")
    ctx.rule("I4", "a facade exists at teardown: no teardown-triggering event is raised after `_facade = None` while the state can still be CONNECTED")
    ctx.rule("I5", "bracketing: *_STARTED is raised inside a try whose finally raises the matching *_FINISHED, and nowhere else")
    ctx.rule("I6", "reset post-condition: on every normal path out of async_reset descriptors, facade and spa are None and the last state assignment is IDLE; async_set_spa_info ends in async_reset")
    ctx.rule("I7", "status sensor mirrors the state: updated after the switch and before the client callback; stores to_string(state); to_string is total with distinct texts")
    ctx.rule("I8", "test-and-set atomicity for every state-guarded row (no suspension between guard and assignment)")
    ctx.rule("I9", "extraction floor: every event named in the switch is an enum member; rows extracted >= floor")

    ctx.rule("I10", "the table keeps being evaluated after a reset: the task that walks the lifecycle rows (started under the manager's own task key on entering the context) is cancelled by no other domain's cancel - in particular not by the cancel of the spa's domain that every reset performs (task registry interpreted on model tasks, C09/C10's registry model borrowed)")
    from ..taskmodel import check_registry
    from .c09 import driver_tasks
    drv = driver_tasks(repo)
    if len(drv) != 1 or not isinstance(drv[0][1], str):
        ctx.error(f"I10: expected one driver task with a constant key started in {MAN}.__aenter__, found {[(d[0].qual, d[1]) for d in drv]}")
    else:
        check_registry(ctx.borrowed("I10", "C09"), repo, "R1", pump_key=drv[0][1], only=("isolation",))

    state_rows = [r for r in rows if r.kind == "state"]
    raise_rows = [r for r in rows if r.kind == "raise"]
    # the lifecycle by interpretation (vlib/managermodel.py) carries the verdict; the rules that read the switch as a ladder
    # of `event == X` tests with state assignments underneath apply only while it has that shape
    lifecycle_by_interpretation(ctx, repo)
    ctx.rule("I11", "locate outcomes: when nobody answers the discovery the manager holds an empty descriptor list, announces SPA_NOT_FOUND and enters ERROR_SPA_NOT_FOUND (async_connect interpreted on the manager model with the real locator class, its discover() skipped)")
    nothing_found_is_announced(ctx, repo, "I11")
    complete_only_with_a_block(ctx, repo, "I1")
    connect_bracket_under_reset(ctx, repo, "I5")
    # a reset always lands in IDLE - also after the endpoint died on its own: the spa's disconnect, which the reset awaits
    # before it clears facade / spa / descriptors, must complete then (C10.R1's scenario borrowed)
    from .c10 import teardown_after_endpoint_loss as _tael
    _tael(ctx.borrowed("I6", "C10"), repo, "R1")
    healthy = len(state_rows) >= 10 and len(raise_rows) >= 6
    ctx.count("I9:switch-read-as-ladder", int(healthy))
    if not healthy:
        ctx.note(f"_handle_event is not an `event == X` ladder with state assignments ({len(state_rows)} state rows, {len(raise_rows)} nested raises extracted): the site-level rules I1/I2/I3/I7/I8/I9 are skipped, the interpreted relation decides")
    sctx = ctx if healthy else _Muted(ctx)
    ctx.extra["lifecycle_relation"] = [r.describe() for r in rows]
    events = set(enum_members(repo, "GeckoSpaEvent"))
    states = set(enum_members(repo, "GeckoSpaState"))
    for r in rows:
        for e in r.events:
            sctx.ob("I9", f"event::{e}", e in events, f"_handle_event tests unknown event {e}", loc(he, r.node.ast))
        if r.kind == "state":
            sctx.ob("I9", f"state::{r.value}::L{sorted(r.events)}", r.value in states, f"_handle_event assigns unknown state {r.value}", loc(he, r.node.ast))

    # events / states the manager names separately are separate members: a repeated value makes the later name an alias of
    # the earlier member - the row written for it is never taken, the earlier name's row handles both
    from ..absint import Interp as _I12
    _it12 = _I12(repo)
    ctx.rule("I12", "the events and states the manager names are pairwise different members: an Enum member defined with a value an earlier member already has is that member under another name - the lifecycle row written for it is dead and the earlier name's row takes its place")
    for _en in ("GeckoSpaEvent", "GeckoSpaState"):
        _ec = repo.cls(_en)
        named = {}
        for _f in repo.all_methods(MAN).values():
            for _n in ast.walk(_f.node):
                if isinstance(_n, ast.Attribute) and isinstance(_n.value, ast.Name) and _n.value.id == _en and _n.attr in _ec.consts and _it12._is_enum_member_name(_ec, _n.attr):
                    named.setdefault(_n.attr, loc(_f, _n))
        # ... and the members the manager reaches through tables / helper properties kept elsewhere in the package (a
        # frozenset of retryable errors next to the enum): every member some module of the package names as `<Enum>.<MEMBER>`
        for _m in repo.all_mods():
            if "/driver/packs/" in _m.rel:
                continue
            for _n in ast.walk(_m.tree):
                if isinstance(_n, ast.Attribute) and isinstance(_n.value, ast.Name) and _n.value.id == _en and _n.attr in _ec.consts and _it12._is_enum_member_name(_ec, _n.attr):
                    named.setdefault(_n.attr, f"{_m.rel}:{getattr(_n, 'lineno', 0)}")
        by_value = {}
        for _nm in sorted(named):
            _m = _it12.enum_member(_ec, _nm)
            if _m is not None:
                by_value.setdefault((type(_m.value).__name__, _m.value), []).append(_nm)
        ctx.floor("I12", f"{_en} members named by the manager", len(named), 8 if _en == "GeckoSpaEvent" else 3)
        for (_t, _v), _names in sorted(by_value.items(), key=lambda kv: str(kv[0])):
            ctx.ob("I12", f"{_en}::{_names[0]}::distinct", len(_names) == 1,
                   f"{_en}: the manager names {_names} as different members but they share the value {_v!r}: they are ONE member (the first defined), the row written for the other name is never taken", _ec.loc if hasattr(_ec, "loc") else None)

    ctx.rule("I13", "a reset ends the tasks of the connection it discards: a task cancelled while it waits inside a request (the refresh loop inside the block transfer, a ping under the request lock) must end there - an `except:` that turns the cancellation into \"request failed\", or a lock whose __aexit__ answers it with a true value, lets the discarded connection's loop run on and report RETRY_COUNT_EXCEEDED / ping failures into the manager AFTER the reset: ERROR_NEEDS_ATTENTION with no spa, facade or descriptors, from which no row leads on (C10.R4's interception sites borrowed)")
    from .c10 import cancellation_passes_through as _cpt
    _cpt(ctx.borrowed("I13", "C10"), repo, "R4")

    ctx.rule("I14", "a reset can be repeated: async_reset disconnects the facade first and forgets it last, with client callbacks awaited in between - a reset that was cancelled there, or a second reset that overlaps the first, disconnects the SAME facade again. On the awaitable facades built for the richest pair of every platform, disconnect() called twice completes twice - a disconnect that takes back its own observers one by one (list.remove) raises ValueError the second time, and that reset, and every later one, aborts on its first step: facade, spa and tasks stay, the state never returns to IDLE")
    facade_disconnect_completes(ctx, repo, "I14")

    # ---- all state assignments in the manager class ---------------------------------
    man = repo.cls(MAN)
    # the manager's methods wherever the hierarchy keeps them (mixins of the package included; AsyncTasks is the task
    # registry, a component in its own right, not manager logic)
    _man_methods = [f_ for f_ in repo.all_methods(man).values() if f_.cls is not None and f_.cls.short != "AsyncTasks"]
    all_state = []
    for m in _man_methods:
        if m.name == "__init__":
            continue
        g2, rs = rows_of(m)
        for r in rs:
            if r.kind == "state":
                all_state.append(r)
    # I1
    conn = [r for r in all_state if r.value == "CONNECTED"]
    sctx.ob("I1", "CONNECTED::single-site", len(conn) == 1, f"CONNECTED is assigned at {len(conn)} sites: {[(r.fi.qual, r.node.lineno) for r in conn]}", he.loc,
           sample={"rule": "I1", "sites": [r.describe() for r in conn]})
    for r in conn:
        sctx.ob("I1", "CONNECTED::in-finished-row", r.fi is he and r.events == {"CONNECTION_FINISHED"},
               f"CONNECTED assigned on events {sorted(r.events)} in {r.fi.qual} (must be the CONNECTION_FINISHED row)", loc(r.fi, r.node.ast))
        sctx.ob("I1", "CONNECTED::only-with-facade", ("self._facade is None", False) in r.facts,
               f"CONNECTED assigned without `_facade is not None` holding (L{r.node.lineno}); guards {sorted(r.facts)}", loc(r.fi, r.node.ast))
    # facade built only under SPA_READY
    fac_sites = []
    for m in _man_methods:
        gm = cfg_of(m)
        for n in gm.stmt_nodes():
            if assigns_attr(n, "self._facade") and isinstance(n.ast, ast.Assign) and not (isinstance(n.ast.value, ast.Constant) and n.ast.value.value is None):
                if m.name != "__init__":
                    fac_sites.append((m, gm, n))
    sctx.ob("I1", "facade::single-construction-site", len(fac_sites) == 1, f"facade assigned non-None at {len(fac_sites)} sites", man.loc)
    for m, gm, n in fac_sites:
        facts = gm.guard_atoms(n)
        from ..fsm import state_guards
        req, _ = state_guards(facts)
        sctx.ob("I1", "facade::only-when-SPA_READY", req == {"SPA_READY"}, f"{m.qual}: facade constructed under state guard {sorted(req)}, expected SPA_READY", loc(m, n.ast))
        sctx.ob("I1", "facade::is-a-facade", isinstance(n.ast.value, ast.Call) and call_name(n.ast.value) == "GeckoAsyncFacade" and ast.unparse(n.ast.value.args[0]) == "self._spa",
               f"{m.qual}: `{ast.unparse(n.ast)}` does not build GeckoAsyncFacade(self._spa, ...)", loc(m, n.ast))
        # connect awaited before the state test
        con = [x for x, c in calls_named(gm, "connect") if receiver(c) == "self._spa"]
        sctx.ob("I1", "facade::after-connect", any(gm.dom(c, n) for c in con), f"{m.qual}: facade built without awaiting spa.connect() first", loc(m, n.ast))
    ready = [r for r in all_state if r.value == "SPA_READY"]
    sctx.ob("I1", "SPA_READY::single-site", len(ready) == 1 and ready[0].events == {"CONNECTION_SPA_COMPLETE"},
           f"SPA_READY assigned at {[(r.fi.qual, sorted(r.events)) for r in ready]}", he.loc)
    sites = all_raise_sites(repo)
    comp = [(fi, c) for fi, c, ev in sites if ev == "CONNECTION_SPA_COMPLETE"]
    sctx.ob("I1", "SPA_COMPLETE::single-raise-site", len(comp) == 1, f"CONNECTION_SPA_COMPLETE raised at {[f.qual for f, _ in comp]}")
    for fi, c in comp:
        gf = cfg_of(fi)
        cn = [n for n in gf.stmt_nodes() if c in list(n.walk())][0]
        from ..facts import connected_flag_stores as _cfs
        _marks, _fa = _cfs(repo, "GeckoAsyncSpa", fi, True)   # stores after which is_connected reads True (the flag by role)
        flag = [n for n in gf.stmt_nodes() if n.ast in _marks]
        sctx.ob("I1", "SPA_COMPLETE::after-connected-flag", any(gf.dom(f, cn) for f in flag), f"{fi.qual}: CONNECTION_SPA_COMPLETE raised before the spa is marked connected", loc(fi, c))
        ba = [n for n, c2 in calls_named(gf, "build_accessors")]
        sctx.ob("I1", "SPA_COMPLETE::after-accessors", any(gf.dom(b, cn) for b in ba), f"{fi.qual}: CONNECTION_SPA_COMPLETE raised before the accessors are built", loc(fi, c))
        sg = [n for n in gf.stmt_nodes() if n.kind == "test" and n.suspends and "struct.get" in n.text()]
        if not sg:
            # `ok = await self.struct.get(...)` followed by `if not ok:` - the awaited transfer as a statement of its own
            sg = [n for n in gf.stmt_nodes() if n.suspends and "struct.get" in n.text() and isinstance(n.ast, (ast.Assign, ast.AnnAssign, ast.Expr))]
        ok = bool(sg) and all(gf.dom(s, cn) for s in sg) and any(("await self.struct.get" in t or "self.struct.get" in t) and p for t, p in gf.guard_atoms(cn)) or \
            any("struct.get" in t and not p for t, p in gf.guard_atoms(cn))
        sctx.ob("I1", "SPA_COMPLETE::after-initial-block", bool(sg) and all(gf.dom(s, cn) for s in sg), f"{fi.qual}: CONNECTION_SPA_COMPLETE not dominated by the initial status-block transfer", loc(fi, c))

    # I2
    rdy = [(fi, c) for fi, c, ev in sites if ev == READY]
    sctx.ob("I2", "READY::single-raise-site", len(rdy) == 1 and rdy[0][0] is he, f"{READY} raised at {[f.qual for f, _ in rdy]}")
    for r in raise_rows:
        if r.value == READY:
            ok = any(g.dom(c.node, r.node) for c in conn if c.fi is he)
            sctx.ob("I2", "READY::after-CONNECTED-assignment", ok, f"{READY} raised (L{r.node.lineno}) not dominated by the CONNECTED assignment", loc(he, r.node.ast))
    # I3 + I8
    td_sites = [(fi, c) for fi, c, ev in sites if ev == TEARDOWN]
    sctx.floor("I3", "teardown raise sites", len(td_sites), 3)
    for fi, c in td_sites:
        sctx.ob("I3", f"TEARDOWN::{fi.qual}::only-from-switch", fi is he, f"{TEARDOWN} raised outside the event switch in {fi.qual}", loc(fi, c))
    for r in raise_rows:
        if r.value != TEARDOWN:
            continue
        key = f"TEARDOWN::{'+'.join(sorted(r.events))}"
        sctx.ob("I3", f"{key}::guarded-by-CONNECTED", r.req_states == {"CONNECTED"},
               f"{TEARDOWN} on {sorted(r.events)} (L{r.node.lineno}) is not guarded by state == CONNECTED (guard {sorted(r.req_states)}): a teardown can be announced without a preceding ready / twice",
               loc(he, r.node.ast), sample={"rule": "I3", "row": r.describe()})
        moves = [s for s in state_rows if s.value != "CONNECTED" and g.dom(s.node, r.node) and s.events == r.events]
        sctx.ob("I3", f"{key}::state-left-first", bool(moves), f"{TEARDOWN} on {sorted(r.events)} raised before the state leaves CONNECTED: a concurrent event could raise a second teardown", loc(he, r.node.ast))
    for s in state_rows:
        if not s.req_states:
            continue
        tests = [n for n, l in g.guards(s.node) if n.kind == "test" and "_spa_state" in n.text()]
        for t in tests:
            mid = g.between(t, s.node)
            susp = [m for m in mid | {t} if m.suspends]
            sctx.ob("I8", f"row::{'+'.join(sorted(s.events))}->{s.value}::atomic", not susp,
                   f"suspension between the state test (L{t.lineno}) and the assignment of {s.value} (L{s.node.lineno})", loc(he, s.node.ast))

    # I4 facade exists at teardown
    trig = set()
    for r in raise_rows:
        if r.value == TEARDOWN:
            trig |= r.events
    ctx.count("teardown_trigger_events", len(trig))
    may_raise_cache = {}

    def may_raise(fi2):
        k = id(fi2.node)
        if k not in may_raise_cache:
            seen = cg.reachable([fi2], max_depth=4)
            evs = set()
            for f3, _ in seen.values():
                for n in walk_no_nested(f3.node):
                    if isinstance(n, ast.Call) and call_name(n) in ("_handle_event", "_event_handler") and event_arg(n):
                        evs.add(event_arg(n))
            may_raise_cache[k] = evs
        return may_raise_cache[k]

    n_checked = 0
    for m in _man_methods:
        gm = cfg_of(m)
        drops = [n for n in gm.stmt_nodes() if isinstance(n.ast, ast.Assign) and any(ast.unparse(t_) == "self._facade" for t_ in n.ast.targets)
                 and isinstance(n.ast.value, ast.Constant) and n.ast.value.value is None]
        if m.name == "__init__":
            continue
        for d in drops:
            n_checked += 1
            # nodes reachable after the drop before the state is moved off CONNECTED / facade rebuilt
            stop = [n for n in gm.stmt_nodes() if isinstance(n.ast, ast.Assign) and (
                (ast.unparse(n.ast.targets[0]) == STATE_ATTR and not ast.unparse(n.ast.value).endswith(".CONNECTED"))
                or (ast.unparse(n.ast.targets[0]) == "self._facade" and n is not d))]
            after = gm.reach_from(d, avoid=stop, labels_skip=("exc",))
            bad = []
            for n in after:
                for c in n.calls():
                    for f2 in cg.resolve(m, c):
                        if f2.cls is not None and f2.cls.short == MAN and f2.name == "_handle_event":
                            continue
                        hit = may_raise(f2) & trig
                        if hit:
                            bad.append((n.lineno, ast.unparse(c.func), sorted(hit)))
            ctx.ob("I4", f"{m.qual}::facade-dropped-before-teardown-trigger", not bad,
                   f"{m.qual}: `self._facade = None` (L{d.lineno}) is followed, while the state may still be CONNECTED, by {bad}: {TEARDOWN} is delivered to the client with facade None",
                   loc(m, d.ast), sample={"rule": "I4", "function": m.qual, "drop_line": d.lineno, "later_triggers": bad})
    ctx.floor("I4", "facade drop sites", n_checked, 1)

    # I5 bracketing
    for started, finished in BRACKETS:
        s_sites = [(fi, c) for fi, c, ev in sites if ev == started]
        f_sites = [(fi, c) for fi, c, ev in sites if ev == finished]
        if not s_sites and not f_sites and any(isinstance(n_, ast.Attribute) and n_.attr in (started, finished) for f_ in _man_methods for n_ in ast.walk(f_.node)):
            # both events are named by the manager but raised through a helper that takes them as arguments (a context
            # manager for the pair): no raise site to read - the pairing is decided by the interpreted scenarios
            # (connect_bracket_under_reset: started ... finished on every exit, a reset in between included)
            ctx.note(f"I5: {started} / {finished} are raised through a helper - the bracket is decided on the manager model only")
            continue
        ctx.ob("I5", f"{started}::raised", bool(s_sites), f"{started} is never raised")
        for fi, c in s_sites:
            tries = [t for t in walk_no_nested(fi.node) if isinstance(t, ast.Try) and any(c in list(ast.walk(s)) for s in t.body)]
            ok = False
            for t in tries:
                for s in t.finalbody:
                    for x in ast.walk(s):
                        if isinstance(x, ast.Call) and call_name(x) == "_handle_event" and event_arg(x) == finished:
                            ok = True
            ctx.ob("I5", f"{fi.qual}::{started}->{finished}::finally", ok,
                   f"{fi.qual}: {started} is raised outside a try whose finally raises {finished}: a phase that raises is never closed", loc(fi, c),
                   sample={"rule": "I5", "function": fi.qual, "started": started, "finished": finished, "in_try_finally": ok})
        for fi, c in f_sites:
            in_fin = any(isinstance(t, ast.Try) and any(c in list(ast.walk(s)) for s in t.finalbody) for t in walk_no_nested(fi.node))
            ctx.ob("I5", f"{fi.qual}::{finished}::only-in-finally", in_fin, f"{fi.qual}: {finished} raised outside a finally block", loc(fi, c))
        ctx.ob("I5", f"{finished}::single-site", len(f_sites) == len(s_sites) == 1, f"{started}/{finished} raised at {len(s_sites)}/{len(f_sites)} sites")

    # I6 reset: post-condition decided on the manager model (reset_by_interpretation, called from lifecycle_by_interpretation)
    reset = repo.method(MAN, "async_reset")
    # a reset always lands in IDLE - also when it runs inside the ping-loop task that
    # spa.disconnect() cancels (shared rule, see C10.R7)
    from .c10 import reset_survives_self_cancel
    reset_survives_self_cancel(ctx, repo, "I6")
    ssi = repo.method(MAN, "async_set_spa_info")
    gs = cfg_of(ssi)
    rc = [n for n, c in calls_named(gs, "async_reset")]
    ctx.ob("I6", "async_set_spa_info::ends-in-reset", bool(rc) and any(gs.pdom(n, gs.entry) for n in rc), "async_set_spa_info does not reset on every path", ssi.loc)

    # I7 status sensor
    oe = [(n, c) for n, c in calls_named(g, "on_event") if (receiver(c) or "").endswith("_status_sensor")]
    cb = [(n, c) for n, c in calls_named(g, "handle_event") if receiver(c) == "self"]
    sctx.ob("I7", "sensor::single-update-site", len(oe) == 1 and len(cb) == 1, f"{len(oe)} sensor updates / {len(cb)} client callbacks in _handle_event", he.loc)
    if len(oe) == 1 and len(cb) == 1:
        O, C = oe[0][0], cb[0][0]
        late = [s for s in state_rows if O not in g.reach_from(s.node, labels_skip=("exc",))]
        sctx.ob("I7", "sensor::after-the-switch", not late, f"state assignments at lines {[s.node.lineno for s in late]} happen after the sensor update: the status text lags the state", he.loc)
        sctx.ob("I7", "sensor::before-client-callback", C in g.reach_from(O, labels_skip=("exc",)) and O not in g.reach_from(C, labels_skip=("exc",)),
               "the client callback runs before the status sensor is updated", he.loc)
        # the only guard of the update is the existence of the sensor
        gsO = [(n.text(), l) for n, l in g.guards(O) if "_status_sensor" not in n.text()]
        sctx.ob("I7", "sensor::updated-for-every-event", not gsO, f"sensor update is conditional on {gsO}", he.loc)
        sctx.ob("I7", "sensor::gets-the-event", [ast.unparse(a) for a in oe[0][1].args] == ["event"], "on_event is not given the event", he.loc)
    ss = repo.cls("StatusSensor") if repo.classes().get("StatusSensor") else None
    onev = repo.method("StatusSensor", "on_event")
    body = [ast.unparse(s) for s in onev.node.body]
    i_state = [i for i, s in enumerate(body) if s.startswith("self._last_state = ") and s.endswith("spa_state")]
    i_text = [i for i, s in enumerate(body) if s.startswith("self._state = ") and "to_string(" in s]
    ok = bool(i_state) and bool(i_text) and i_state[0] < i_text[0] and "self._spaman.spa_state" in body[i_state[0]]
    if ok:
        arg = body[i_text[0]].split("to_string(")[1].rstrip(")")
        ok = arg in ("self.spa_state", "self._last_state", "self._spaman.spa_state")
    ctx.ob("I7", "StatusSensor.on_event::mirrors-manager-state", ok, f"on_event does not store to_string(<manager state>): {body}", onev.loc)
    ch = [i for i, s in enumerate(body) if s == "self._on_change()"]
    ctx.ob("I7", "StatusSensor.on_event::notifies-after-update", bool(ch) and bool(i_text) and ch[0] > i_text[0], "on_event notifies observers before storing the new text", onev.loc)
    sp = repo.method(MAN, "spa_state")
    # by interpretation on the manager model: whatever state the manager is in, the public property reads that state
    from ..managermodel import Manager as _Manager, members as _members
    _m7 = _Manager(repo)
    _bad7 = []
    for _s, _v in _members(repo, "GeckoSpaState"):
        _m7.put(_s, facade=False, spa=False)
        if _m7.state() != _s:
            _bad7.append((_s, _m7.state()))
    ctx.ob("I7", "spa_state::reads-state", not _bad7, f"the spa_state property does not read the manager's state: (state put, state read) {_bad7[:3]}", sp.loc)
    # to_string total + distinct
    ts = repo.method("GeckoSpaState", "to_string")
    interp = Interp(repo)
    texts = {}
    cls = repo.cls("GeckoSpaState")
    for nm in enum_members(repo, "GeckoSpaState"):
        try:
            interp.steps = 0
            r = interp.call(ts, None, [EnumMember(cls, nm, cls.consts[nm].value)])
            texts[nm] = r
        except PyRaise as e:
            ctx.ob("I7", f"to_string::{nm}::total", False, f"to_string({nm}) raises {e.what}", ts.loc)
        except Undecided as e:
            raise AnalysisError(f"to_string: {e}")
    named = {k: v for k, v in texts.items() if isinstance(v, str)}
    ctx.ob("I7", "to_string::distinct", len(set(named.values())) == len(named), f"to_string maps two states to the same text: {named}", ts.loc)
    ctx.ob("I7", "to_string::total", all(isinstance(v, (str, Opaque)) for v in texts.values()) and len(texts) == len(enum_members(repo, "GeckoSpaState")),
           f"to_string is not total: {texts}", ts.loc)
    ctx.count("states", len(texts))
    ctx.assume("events raised concurrently interleave only at await points of _handle_event (cooperative scheduling)")
    ctx.note("Not decided: closure of the reachable (state, facade, spa, descriptors, sensors) set under concurrently raised events.")
