"""C08 - lifecycle follows the state table; facade-ready/teardown are well-bracketed.

Invariants from the statement checked on the relation EXTRACTED from the event switch
(not a frozen copy of the table; the extracted rows go to the evidence).
NOT decided: closure of the reachable (state, facade, spa, ...) set under concurrently
raised events (that is model checking, another family).
"""
from __future__ import annotations

import ast

from ..absint import ClassRef, EnumMember, Interp, Opaque, PyRaise, Undecided
from ..callgraph import callgraph
from ..cfg import atoms, cfg_of
from ..core import AnalysisError
from ..facts import loc
from ..fsm import MAN, STATE_ATTR, all_raise_sites, enum_members, event_arg, rows_of
from ..pathrules import assigns_attr, calls_named
from ..src import Repo, call_name, receiver, walk_no_nested

TEARDOWN = "CLIENT_FACADE_TEARDOWN"
READY = "CLIENT_FACADE_IS_READY"
BRACKETS = (("LOCATING_STARTED", "LOCATING_FINISHED"), ("CONNECTION_STARTED", "CONNECTION_FINISHED"))


def nullness_at_exit(g, attrs):
    """Forward dataflow: for each self.<attr>: 'N' (None), 'X' (not None), '?'.
    Refined on `self.a is None` tests; -> {attr: set of values at normal exit}"""
    init = {a: "?" for a in attrs}
    state = {g.entry: [dict(init)]}
    work = [g.entry]
    seen_states = {}
    results = {a: set() for a in attrs}

    def key(d):
        return tuple(sorted(d.items()))

    visited = set()
    stack = [(g.entry, key(init))]
    while stack:
        n, k = stack.pop()
        if (n, k) in visited:
            continue
        visited.add((n, k))
        d = dict(k)
        if n is g.exit:
            for a in attrs:
                results[a].add(d[a])
            continue
        # transfer
        if n.kind == "stmt" and isinstance(n.ast, ast.Assign):
            for t in n.ast.targets:
                tt = ast.unparse(t)
                for a in attrs:
                    if tt == f"self.{a}":
                        v = n.ast.value
                        d[a] = "N" if isinstance(v, ast.Constant) and v.value is None else "X"
        for m, label in g.succ[n]:
            if label == "exc":
                continue
            d2 = dict(d)
            if n.kind == "test" and label in ("T", "F"):
                for t, p in atoms(n.ast, label == "T"):
                    for a in attrs:
                        if t == f"self.{a} is None":
                            d2[a] = "N" if p else "X"
            stack.append((m, key(d2)))
    return results


def check(ctx):
    repo = Repo()
    cg = callgraph(repo)
    he = repo.method(MAN, "_handle_event")
    g, rows = rows_of(he)
    ctx.rule("I1", "CONNECTED is assigned at exactly one site, in the CONNECTION_FINISHED row under `_facade is not None`; the facade is built only under state SPA_READY; SPA_READY only in the CONNECTION_SPA_COMPLETE row, raised only after the spa is fully connected")
    ctx.rule("I2", "CLIENT_FACADE_IS_READY is raised at exactly that site, after the assignment")
    ctx.rule("I3", "every CLIENT_FACADE_TEARDOWN raise is guarded by state == CONNECTED and dominated by an assignment moving the state off CONNECTED, test-and-set without suspension (=> at most one teardown per ready)")
    ctx.rule("I4", "a facade exists at teardown: no teardown-triggering event is raised after `_facade = None` while the state can still be CONNECTED")
    ctx.rule("I5", "bracketing: *_STARTED is raised inside a try whose finally raises the matching *_FINISHED, and nowhere else")
    ctx.rule("I6", "reset post-condition: on every normal path out of async_reset descriptors, facade and spa are None and the last state assignment is IDLE; async_set_spa_info ends in async_reset")
    ctx.rule("I7", "status sensor mirrors the state: updated after the switch and before the client callback; stores to_string(state); to_string is total with distinct texts")
    ctx.rule("I8", "test-and-set atomicity for every state-guarded row (no suspension between guard and assignment)")
    ctx.rule("I9", "extraction floor: every event named in the switch is an enum member; rows extracted >= floor")

    ctx.rule("I10", "the table keeps being evaluated after a reset: the task that walks the lifecycle rows (started under the manager's own task key on entering the context) is cancelled by no other domain's cancel - in particular not by the cancel of the spa's domain that every reset performs (task registry interpreted on model tasks, C09/C10's registry model borrowed)")
    from ..taskmodel import check_registry
    from .c09 import driver_tasks
    drv = driver_tasks(repo)
    if len(drv) != 1 or not isinstance(drv[0][1], str):
        ctx.error(f"I10: expected one driver task with a constant key started in {MAN}.__aenter__, found {[(d[0].qual, d[1]) for d in drv]}")
    else:
        check_registry(ctx.borrowed("I10", "C09"), repo, "R1", pump_key=drv[0][1], only=("isolation",))

    state_rows = [r for r in rows if r.kind == "state"]
    raise_rows = [r for r in rows if r.kind == "raise"]
    ctx.floor("I9", "state-assignment rows in _handle_event", len(state_rows), 10)
    ctx.floor("I9", "nested event raises in _handle_event", len(raise_rows), 6)
    ctx.extra["lifecycle_relation"] = [r.describe() for r in rows]
    events = set(enum_members(repo, "GeckoSpaEvent"))
    states = set(enum_members(repo, "GeckoSpaState"))
    for r in rows:
        for e in r.events:
            ctx.ob("I9", f"event::{e}", e in events, f"_handle_event tests unknown event {e}", loc(he, r.node.ast))
        if r.kind == "state":
            ctx.ob("I9", f"state::{r.value}::L{sorted(r.events)}", r.value in states, f"_handle_event assigns unknown state {r.value}", loc(he, r.node.ast))

    # ---- all state assignments in the manager class ---------------------------------
    man = repo.cls(MAN)
    all_state = []
    for m in man.methods.values():
        if m.name == "__init__":
            continue
        g2, rs = rows_of(m)
        for r in rs:
            if r.kind == "state":
                all_state.append(r)
    # I1
    conn = [r for r in all_state if r.value == "CONNECTED"]
    ctx.ob("I1", "CONNECTED::single-site", len(conn) == 1, f"CONNECTED is assigned at {len(conn)} sites: {[(r.fi.qual, r.node.lineno) for r in conn]}", he.loc,
           sample={"rule": "I1", "sites": [r.describe() for r in conn]})
    for r in conn:
        ctx.ob("I1", "CONNECTED::in-finished-row", r.fi is he and r.events == {"CONNECTION_FINISHED"},
               f"CONNECTED assigned on events {sorted(r.events)} in {r.fi.qual} (must be the CONNECTION_FINISHED row)", loc(r.fi, r.node.ast))
        ctx.ob("I1", "CONNECTED::only-with-facade", ("self._facade is None", False) in r.facts,
               f"CONNECTED assigned without `_facade is not None` holding (L{r.node.lineno}); guards {sorted(r.facts)}", loc(r.fi, r.node.ast))
    # facade built only under SPA_READY
    fac_sites = []
    for m in man.methods.values():
        gm = cfg_of(m)
        for n in gm.stmt_nodes():
            if assigns_attr(n, "self._facade") and isinstance(n.ast, ast.Assign) and not (isinstance(n.ast.value, ast.Constant) and n.ast.value.value is None):
                if m.name != "__init__":
                    fac_sites.append((m, gm, n))
    ctx.ob("I1", "facade::single-construction-site", len(fac_sites) == 1, f"facade assigned non-None at {len(fac_sites)} sites", man.loc)
    for m, gm, n in fac_sites:
        facts = gm.guard_atoms(n)
        from ..fsm import state_guards
        req, _ = state_guards(facts)
        ctx.ob("I1", "facade::only-when-SPA_READY", req == {"SPA_READY"}, f"{m.qual}: facade constructed under state guard {sorted(req)}, expected SPA_READY", loc(m, n.ast))
        ctx.ob("I1", "facade::is-a-facade", isinstance(n.ast.value, ast.Call) and call_name(n.ast.value) == "GeckoAsyncFacade" and ast.unparse(n.ast.value.args[0]) == "self._spa",
               f"{m.qual}: `{ast.unparse(n.ast)}` does not build GeckoAsyncFacade(self._spa, ...)", loc(m, n.ast))
        # connect awaited before the state test
        con = [x for x, c in calls_named(gm, "connect") if receiver(c) == "self._spa"]
        ctx.ob("I1", "facade::after-connect", any(gm.dom(c, n) for c in con), f"{m.qual}: facade built without awaiting spa.connect() first", loc(m, n.ast))
    ready = [r for r in all_state if r.value == "SPA_READY"]
    ctx.ob("I1", "SPA_READY::single-site", len(ready) == 1 and ready[0].events == {"CONNECTION_SPA_COMPLETE"},
           f"SPA_READY assigned at {[(r.fi.qual, sorted(r.events)) for r in ready]}", he.loc)
    sites = all_raise_sites(repo)
    comp = [(fi, c) for fi, c, ev in sites if ev == "CONNECTION_SPA_COMPLETE"]
    ctx.ob("I1", "SPA_COMPLETE::single-raise-site", len(comp) == 1, f"CONNECTION_SPA_COMPLETE raised at {[f.qual for f, _ in comp]}")
    for fi, c in comp:
        gf = cfg_of(fi)
        cn = [n for n in gf.stmt_nodes() if c in list(n.walk())][0]
        flag = [n for n in gf.stmt_nodes() if isinstance(n.ast, ast.Assign) and ast.unparse(n.ast.targets[0]) == "self._is_connected" and repo.try_fold(n.ast.value) is True]
        ctx.ob("I1", "SPA_COMPLETE::after-connected-flag", any(gf.dom(f, cn) for f in flag), f"{fi.qual}: CONNECTION_SPA_COMPLETE raised before the spa is marked connected", loc(fi, c))
        ba = [n for n, c2 in calls_named(gf, "build_accessors")]
        ctx.ob("I1", "SPA_COMPLETE::after-accessors", any(gf.dom(b, cn) for b in ba), f"{fi.qual}: CONNECTION_SPA_COMPLETE raised before the accessors are built", loc(fi, c))
        sg = [n for n in gf.stmt_nodes() if n.kind == "test" and n.suspends and "struct.get" in n.text()]
        ok = bool(sg) and all(gf.dom(s, cn) for s in sg) and any(("await self.struct.get" in t or "self.struct.get" in t) and p for t, p in gf.guard_atoms(cn)) or \
            any("struct.get" in t and not p for t, p in gf.guard_atoms(cn))
        ctx.ob("I1", "SPA_COMPLETE::after-initial-block", bool(sg) and all(gf.dom(s, cn) for s in sg), f"{fi.qual}: CONNECTION_SPA_COMPLETE not dominated by the initial status-block transfer", loc(fi, c))

    # I2
    rdy = [(fi, c) for fi, c, ev in sites if ev == READY]
    ctx.ob("I2", "READY::single-raise-site", len(rdy) == 1 and rdy[0][0] is he, f"{READY} raised at {[f.qual for f, _ in rdy]}")
    for r in raise_rows:
        if r.value == READY:
            ok = any(g.dom(c.node, r.node) for c in conn if c.fi is he)
            ctx.ob("I2", "READY::after-CONNECTED-assignment", ok, f"{READY} raised (L{r.node.lineno}) not dominated by the CONNECTED assignment", loc(he, r.node.ast))
    # I3 + I8
    td_sites = [(fi, c) for fi, c, ev in sites if ev == TEARDOWN]
    ctx.floor("I3", "teardown raise sites", len(td_sites), 3)
    for fi, c in td_sites:
        ctx.ob("I3", f"TEARDOWN::{fi.qual}::only-from-switch", fi is he, f"{TEARDOWN} raised outside the event switch in {fi.qual}", loc(fi, c))
    for r in raise_rows:
        if r.value != TEARDOWN:
            continue
        key = f"TEARDOWN::{'+'.join(sorted(r.events))}"
        ctx.ob("I3", f"{key}::guarded-by-CONNECTED", r.req_states == {"CONNECTED"},
               f"{TEARDOWN} on {sorted(r.events)} (L{r.node.lineno}) is not guarded by state == CONNECTED (guard {sorted(r.req_states)}): a teardown can be announced without a preceding ready / twice",
               loc(he, r.node.ast), sample={"rule": "I3", "row": r.describe()})
        moves = [s for s in state_rows if s.value != "CONNECTED" and g.dom(s.node, r.node) and s.events == r.events]
        ctx.ob("I3", f"{key}::state-left-first", bool(moves), f"{TEARDOWN} on {sorted(r.events)} raised before the state leaves CONNECTED: a concurrent event could raise a second teardown", loc(he, r.node.ast))
    for s in state_rows:
        if not s.req_states:
            continue
        tests = [n for n, l in g.guards(s.node) if n.kind == "test" and "_spa_state" in n.text()]
        for t in tests:
            mid = g.between(t, s.node)
            susp = [m for m in mid | {t} if m.suspends]
            ctx.ob("I8", f"row::{'+'.join(sorted(s.events))}->{s.value}::atomic", not susp,
                   f"suspension between the state test (L{t.lineno}) and the assignment of {s.value} (L{s.node.lineno})", loc(he, s.node.ast))

    # I4 facade exists at teardown
    trig = set()
    for r in raise_rows:
        if r.value == TEARDOWN:
            trig |= r.events
    ctx.count("teardown_trigger_events", len(trig))
    may_raise_cache = {}

    def may_raise(fi2):
        k = id(fi2.node)
        if k not in may_raise_cache:
            seen = cg.reachable([fi2], max_depth=4)
            evs = set()
            for f3, _ in seen.values():
                for n in walk_no_nested(f3.node):
                    if isinstance(n, ast.Call) and call_name(n) in ("_handle_event", "_event_handler") and event_arg(n):
                        evs.add(event_arg(n))
            may_raise_cache[k] = evs
        return may_raise_cache[k]

    n_checked = 0
    for m in man.methods.values():
        gm = cfg_of(m)
        drops = [n for n in gm.stmt_nodes() if isinstance(n.ast, ast.Assign) and ast.unparse(n.ast.targets[0]) == "self._facade"
                 and isinstance(n.ast.value, ast.Constant) and n.ast.value.value is None]
        if m.name == "__init__":
            continue
        for d in drops:
            n_checked += 1
            # nodes reachable after the drop before the state is moved off CONNECTED / facade rebuilt
            stop = [n for n in gm.stmt_nodes() if isinstance(n.ast, ast.Assign) and (
                (ast.unparse(n.ast.targets[0]) == STATE_ATTR and not ast.unparse(n.ast.value).endswith(".CONNECTED"))
                or (ast.unparse(n.ast.targets[0]) == "self._facade" and n is not d))]
            after = gm.reach_from(d, avoid=stop, labels_skip=("exc",))
            bad = []
            for n in after:
                for c in n.calls():
                    for f2 in cg.resolve(m, c):
                        if f2.cls is not None and f2.cls.short == MAN and f2.name == "_handle_event":
                            continue
                        hit = may_raise(f2) & trig
                        if hit:
                            bad.append((n.lineno, ast.unparse(c.func), sorted(hit)))
            ctx.ob("I4", f"{m.qual}::facade-dropped-before-teardown-trigger", not bad,
                   f"{m.qual}: `self._facade = None` (L{d.lineno}) is followed, while the state may still be CONNECTED, by {bad}: {TEARDOWN} is delivered to the client with facade None",
                   loc(m, d.ast), sample={"rule": "I4", "function": m.qual, "drop_line": d.lineno, "later_triggers": bad})
    ctx.floor("I4", "facade drop sites", n_checked, 1)

    # I5 bracketing
    for started, finished in BRACKETS:
        s_sites = [(fi, c) for fi, c, ev in sites if ev == started]
        f_sites = [(fi, c) for fi, c, ev in sites if ev == finished]
        ctx.ob("I5", f"{started}::raised", bool(s_sites), f"{started} is never raised")
        for fi, c in s_sites:
            tries = [t for t in walk_no_nested(fi.node) if isinstance(t, ast.Try) and any(c in list(ast.walk(s)) for s in t.body)]
            ok = False
            for t in tries:
                for s in t.finalbody:
                    for x in ast.walk(s):
                        if isinstance(x, ast.Call) and call_name(x) == "_handle_event" and event_arg(x) == finished:
                            ok = True
            ctx.ob("I5", f"{fi.qual}::{started}->{finished}::finally", ok,
                   f"{fi.qual}: {started} is raised outside a try whose finally raises {finished}: a phase that raises is never closed", loc(fi, c),
                   sample={"rule": "I5", "function": fi.qual, "started": started, "finished": finished, "in_try_finally": ok})
        for fi, c in f_sites:
            in_fin = any(isinstance(t, ast.Try) and any(c in list(ast.walk(s)) for s in t.finalbody) for t in walk_no_nested(fi.node))
            ctx.ob("I5", f"{fi.qual}::{finished}::only-in-finally", in_fin, f"{fi.qual}: {finished} raised outside a finally block", loc(fi, c))
        ctx.ob("I5", f"{finished}::single-site", len(f_sites) == len(s_sites) == 1, f"{started}/{finished} raised at {len(s_sites)}/{len(f_sites)} sites")

    # I6 reset
    reset = repo.method(MAN, "async_reset")
    gr = cfg_of(reset)
    res = nullness_at_exit(gr, ["_spa_descriptors", "_facade", "_spa"])
    for a, vals in res.items():
        ctx.ob("I6", f"async_reset::{a}-None-at-exit", vals == {"N"}, f"async_reset can return with self.{a} in state {sorted(vals)} (N=None, X=set, ?=untouched)", reset.loc)
    st = [n for n in gr.stmt_nodes() if isinstance(n.ast, ast.Assign) and ast.unparse(n.ast.targets[0]) == STATE_ATTR]
    last_ok = bool(st)
    for n in st:
        others = [m for m in st if m is not n and m in gr.reach_from(n, labels_skip=("exc",))]
        if not others:
            last_ok = last_ok and ast.unparse(n.ast.value).endswith(".IDLE") and gr.pdom(n, gr.entry)
    ctx.ob("I6", "async_reset::lands-in-IDLE", last_ok, "async_reset does not end with the state IDLE on every normal path", reset.loc)
    # a reset always lands in IDLE - also when it runs inside the ping-loop task that
    # spa.disconnect() cancels (shared rule, see C10.R7)
    from .c10 import reset_survives_self_cancel
    reset_survives_self_cancel(ctx, repo, "I6")
    ssi = repo.method(MAN, "async_set_spa_info")
    gs = cfg_of(ssi)
    rc = [n for n, c in calls_named(gs, "async_reset")]
    ctx.ob("I6", "async_set_spa_info::ends-in-reset", bool(rc) and any(gs.pdom(n, gs.entry) for n in rc), "async_set_spa_info does not reset on every path", ssi.loc)

    # I7 status sensor
    oe = [(n, c) for n, c in calls_named(g, "on_event") if (receiver(c) or "").endswith("_status_sensor")]
    cb = [(n, c) for n, c in calls_named(g, "handle_event") if receiver(c) == "self"]
    ctx.ob("I7", "sensor::single-update-site", len(oe) == 1 and len(cb) == 1, f"{len(oe)} sensor updates / {len(cb)} client callbacks in _handle_event", he.loc)
    if len(oe) == 1 and len(cb) == 1:
        O, C = oe[0][0], cb[0][0]
        late = [s for s in state_rows if O not in g.reach_from(s.node, labels_skip=("exc",))]
        ctx.ob("I7", "sensor::after-the-switch", not late, f"state assignments at lines {[s.node.lineno for s in late]} happen after the sensor update: the status text lags the state", he.loc)
        ctx.ob("I7", "sensor::before-client-callback", C in g.reach_from(O, labels_skip=("exc",)) and O not in g.reach_from(C, labels_skip=("exc",)),
               "the client callback runs before the status sensor is updated", he.loc)
        # the only guard of the update is the existence of the sensor
        gsO = [(n.text(), l) for n, l in g.guards(O) if "_status_sensor" not in n.text()]
        ctx.ob("I7", "sensor::updated-for-every-event", not gsO, f"sensor update is conditional on {gsO}", he.loc)
        ctx.ob("I7", "sensor::gets-the-event", [ast.unparse(a) for a in oe[0][1].args] == ["event"], "on_event is not given the event", he.loc)
    ss = repo.cls("StatusSensor") if repo.classes().get("StatusSensor") else None
    onev = repo.method("StatusSensor", "on_event")
    body = [ast.unparse(s) for s in onev.node.body]
    i_state = [i for i, s in enumerate(body) if s.startswith("self._last_state = ") and s.endswith("spa_state")]
    i_text = [i for i, s in enumerate(body) if s.startswith("self._state = ") and "to_string(" in s]
    ok = bool(i_state) and bool(i_text) and i_state[0] < i_text[0] and "self._spaman.spa_state" in body[i_state[0]]
    if ok:
        arg = body[i_text[0]].split("to_string(")[1].rstrip(")")
        ok = arg in ("self.spa_state", "self._last_state", "self._spaman.spa_state")
    ctx.ob("I7", "StatusSensor.on_event::mirrors-manager-state", ok, f"on_event does not store to_string(<manager state>): {body}", onev.loc)
    ch = [i for i, s in enumerate(body) if s == "self._on_change()"]
    ctx.ob("I7", "StatusSensor.on_event::notifies-after-update", bool(ch) and bool(i_text) and ch[0] > i_text[0], "on_event notifies observers before storing the new text", onev.loc)
    sp = repo.method(MAN, "spa_state")
    ctx.ob("I7", "spa_state::reads-state", "return self._spa_state" in ast.unparse(sp.node), "spa_state property does not return the state attribute", sp.loc)
    # to_string total + distinct
    ts = repo.method("GeckoSpaState", "to_string")
    interp = Interp(repo)
    texts = {}
    cls = repo.cls("GeckoSpaState")
    for nm in enum_members(repo, "GeckoSpaState"):
        try:
            interp.steps = 0
            r = interp.call(ts, None, [EnumMember(cls, nm, cls.consts[nm].value)])
            texts[nm] = r
        except PyRaise as e:
            ctx.ob("I7", f"to_string::{nm}::total", False, f"to_string({nm}) raises {e.what}", ts.loc)
        except Undecided as e:
            raise AnalysisError(f"to_string: {e}")
    named = {k: v for k, v in texts.items() if isinstance(v, str)}
    ctx.ob("I7", "to_string::distinct", len(set(named.values())) == len(named), f"to_string maps two states to the same text: {named}", ts.loc)
    ctx.ob("I7", "to_string::total", all(isinstance(v, (str, Opaque)) for v in texts.values()) and len(texts) == len(enum_members(repo, "GeckoSpaState")),
           f"to_string is not total: {texts}", ts.loc)
    ctx.count("states", len(texts))
    ctx.assume("events raised concurrently interleave only at await points of _handle_event (cooperative scheduling)")
    ctx.note("Not decided: closure of the reachable (state, facade, spa, descriptors, sensors) set under concurrently raised events.")
