"""C13 - facade commands emit exactly the intended device write and are idempotent.

R1 short-circuit dominates every command; R2 exactly one command per remaining path with
the right constant/key; R3 sync/async sibling agreement; R4 write targets; R5 SPACK
construction arguments; R6 watercare.
NOT decided: the closed loop with a responding spa (echo, read-back) - composition of
C02 + C04 + C05, each decided separately.
"""
from __future__ import annotations

import ast

from ..cfg import cfg_of
from ..core import AnalysisError
from ..facts import class_const, loc
from ..pathrules import calls_named
from ..src import Repo, call_name, deep_strip, receiver, walk_no_nested


def command_nodes(g):
    """CFG nodes that emit a device command in a switch method -> (node, kind, detail)"""
    out = []
    for n in g.stmt_nodes():
        for c in n.calls():
            nm = call_name(c)
            if nm in ("press", "async_press") and (receiver(c) or "").endswith("_spa"):
                out.append((n, "press", ast.unparse(c.args[0]) if c.args else ""))
            if nm == "async_set_value":
                out.append((n, "write", (receiver(c), ast.unparse(c.args[0]) if c.args else "")))
        if isinstance(n.ast, ast.Assign) and len(n.ast.targets) == 1 and ast.unparse(n.ast.targets[0]).endswith(".value"):
            out.append((n, "write", (ast.unparse(n.ast.targets[0])[:-6], ast.unparse(n.ast.value))))
    return out


class _Norm(ast.NodeTransformer):
    """Identify `await X.async_press(a)` with `X.press(a)`, `await A.async_set_value(v)`
    with `A.value = v`, async def with def."""

    def visit_Await(self, node):
        return self.visit(node.value)

    def visit_Call(self, node):
        self.generic_visit(node)
        if isinstance(node.func, ast.Attribute) and node.func.attr.startswith("async_") and node.func.attr != "async_set_value":
            node.func.attr = node.func.attr[len("async_"):]
        return node

    def visit_Expr(self, node):
        self.generic_visit(node)
        v = node.value
        if isinstance(v, ast.Call) and isinstance(v.func, ast.Attribute) and v.func.attr == "async_set_value" and len(v.args) == 1:
            return ast.Assign(targets=[ast.Attribute(value=v.func.value, attr="value", ctx=ast.Store())], value=v.args[0], lineno=0)
        return node


def normalised(fi):
    body = deep_strip(fi.node.body)
    out = []
    for s in body:
        s = _Norm().visit(s)
        ast.fix_missing_locations(s)
        out.append(ast.unparse(s))
    return "\n".join(out)


def check(ctx):
    repo = Repo()
    ctx.rule("R1", "short-circuit: in GeckoSwitch.turn_on/async_turn_on every command is guarded by `not is_on`, in turn_off/async_turn_off by `is_on`")
    ctx.rule("R2", "exactly one command per remaining path: commands are mutually exclusive, no path past the gate without one; keypad press uses the device's keypad code under `keypad != 0`, direct write uses True (on) / False (off) on the device's own accessor")
    ctx.rule("R3", "sync/async sibling agreement for switch on/off, pump set_mode, heater set_target_temperature and set_temperature_unit")
    ctx.rule("R4", "write targets: pump writes accessors[user_demand['demand']] with the mode; heater writes the SetpointG sensor's accessor; unit writes 'F'/'C' to the units accessor with the documented aliases")
    ctx.rule("R5", "SPACK construction: set-value passes (command counter, pack_type, config_version, log_version, pos, length, value) and key-press (command counter, pack_type, key) with parms=self.sendparms, on both stacks; pack_type/versions come from the connected pack")
    ctx.rule("R7", "the accessor write behind every direct-write command (user demands, eco switch, units, setpoint) is exact: bit-provenance obligations of C02 on exactly those items' shapes, both writers")
    ctx.rule("R6", "watercare: label -> index via WATERCARE_MODE_STRING.index; exactly one async_set_watercare(new_mode) followed by change_watercare_mode(new_mode)")

    # ---- R1 / R2 switch --------------------------------------------------------------
    for name, on in (("turn_on", True), ("async_turn_on", True), ("turn_off", False), ("async_turn_off", False)):
        fi = repo.own_method("GeckoSwitch", name)
        g = cfg_of(fi)
        cmds = command_nodes(g)
        ctx.ob("R2", f"{fi.qual}::two-command-forms", {k for _, k, _ in cmds} == {"press", "write"} and len(cmds) == 2,
               f"{fi.qual}: expected one keypad press and one direct write, found {[(k, d) for _, k, d in cmds]}", fi.loc)
        for n, kind, detail in cmds:
            facts = g.guard_atoms(n)
            ctx.ob("R1", f"{fi.qual}::{kind}::short-circuit", ("self.is_on", not on) in facts,
                   f"{fi.qual}: {kind} command (L{n.lineno}) is sent even when the device is already {'on' if on else 'off'} (not guarded by `{'not ' if on else ''}self.is_on`); guards {sorted(facts)}",
                   loc(fi, n.ast), sample={"rule": "R1", "method": fi.qual, "command": kind, "guards": sorted(map(str, facts))})
            if kind == "press":
                ctx.ob("R2", f"{fi.qual}::press::own-keypad-code", detail == "self._keypad_button", f"{fi.qual}: presses `{detail}`, not the device's keypad code", loc(fi, n.ast))
                ctx.ob("R2", f"{fi.qual}::press::only-with-keypad", ("0 == self._keypad_button", False) in facts, f"{fi.qual}: key press not guarded by `_keypad_button != 0`", loc(fi, n.ast))
            else:
                tgt, val = detail
                ctx.ob("R2", f"{fi.qual}::write::own-accessor", tgt == "self._accessor", f"{fi.qual}: writes `{tgt}`, not the device's own accessor", loc(fi, n.ast))
                ctx.ob("R2", f"{fi.qual}::write::constant", val == str(on), f"{fi.qual}: writes {val}, expected {on}", loc(fi, n.ast))
        # mutually exclusive
        for a, ka, _ in cmds:
            for b, kb, _ in cmds:
                if a is not b:
                    ctx.ob("R2", f"{fi.qual}::{ka}-then-{kb}::exclusive", b not in g.reach_from(a, labels_skip=("exc",)),
                           f"{fi.qual}: after the {ka} command control can fall through to the {kb} command: two commands for one request", loc(fi, a.ast))
        # some command on every path past the gate
        gate = [n for n in g.stmt_nodes() if n.kind == "test" and "is_on" in n.text()]
        if gate:
            want = "F" if on else ("T" if not (isinstance(gate[0].ast, ast.UnaryOp)) else "F")
            # path past the gate = the edge on which the early return is NOT taken
            past = [m for m, l in g.succ[gate[0]] if not isinstance(m.ast, ast.Return) and l in ("T", "F") and not _leads_only_to_return(g, m)]
            avoid = [n for n, _, _ in cmds]
            silent = any(g.exit in g.reach_from(m, avoid=avoid, labels_skip=("exc",)) or m is g.exit for m in past if m not in avoid)
            ctx.ob("R2", f"{fi.qual}::command-on-every-path", not silent, f"{fi.qual}: a path past the already-on/off test reaches the end without any command", fi.loc)
    # keypad/accessor provenance in __init__
    init = repo.own_method("GeckoSwitch", "__init__")
    t = ast.unparse(init.node)
    ctx.ob("R2", "GeckoSwitch.__init__::keypad-from-props", "self._keypad_button = props[1]" in t, "keypad code is not props[1] of the DEVICES row", init.loc)
    ctx.ob("R2", "GeckoSwitch.__init__::accessor-from-props", "self._accessor = self._spa.accessors[props[2]]" in t, "state accessor is not accessors[props[2]]", init.loc)
    iso = repo.own_method("GeckoSwitch", "is_on")
    ctx.ob("R1", "GeckoSwitch.is_on::reads-own-state", "self._state_sensor.state" in ast.unparse(iso.node), "is_on does not read the device's state sensor", iso.loc)

    # ---- R3 siblings --------------------------------------------------------------------
    # Semantic agreement: both twins emit the same set of device effects (key press /
    # accessor write), with the same arguments, under the same guard facts.  Local aliases
    # are expanded and logging ignored, so re-shaped if/else, extracted locals, renamed
    # variables or different log texts do not matter.
    def effects(fi):
        g = cfg_of(fi)
        out = set()
        for n in g.stmt_nodes():
            facts = frozenset((t, p) for t, p in g.guard_atoms(n) if "_LOGGER" not in t)
            for c in n.calls():
                nm = call_name(c)
                if nm in ("press", "async_press"):
                    out.add(("press", ast.unparse(g.expand(c.func.value, at=n)), tuple(ast.unparse(g.expand(a, at=n)) for a in c.args), facts))
                elif nm == "async_set_value":
                    out.add(("write", ast.unparse(g.expand(c.func.value, at=n)), tuple(ast.unparse(g.expand(a, at=n)) for a in c.args), facts))
            if isinstance(n.ast, ast.Assign) and len(n.ast.targets) == 1 and isinstance(n.ast.targets[0], ast.Attribute) and n.ast.targets[0].attr == "value":
                out.add(("write", ast.unparse(g.expand(n.ast.targets[0].value, at=n)), (ast.unparse(g.expand(n.ast.value, at=n)),), facts))
        return out

    def canon(effs):
        # guard facts: keep only facts about the request/device state, drop alias-expansion duplicates
        res = set()
        for kind, tgt, args, facts in effs:
            f2 = frozenset((t, p) for t, p in facts if not t.isidentifier())
            res.add((kind, tgt, args, f2))
        return res

    pairs = [("GeckoSwitch", "turn_on", "async_turn_on"), ("GeckoSwitch", "turn_off", "async_turn_off"), ("GeckoPump", "set_mode", "async_set_mode"),
             ("GeckoWaterHeater", "set_target_temperature", "async_set_target_temperature"), ("GeckoWaterHeater", "set_temperature_unit", "async_set_temperature_unit")]
    for cname, a, b in pairs:
        fa, fb = repo.own_method(cname, a), repo.own_method(cname, b)
        ea, eb = canon(effects(fa)), canon(effects(fb))
        ctx.ob("R3", f"{cname}.{a}~{b}::has-effects", bool(ea) and bool(eb), f"{cname}.{a}/{b}: no device effect found", fb.loc)
        only_a = sorted((k, t, x, sorted(f)) for k, t, x, f in ea - eb)
        only_b = sorted((k, t, x, sorted(f)) for k, t, x, f in eb - ea)
        ctx.ob("R3", f"{cname}.{a}~{b}", ea == eb,
               f"{cname}.{a} and {cname}.{b} do not emit the same device effects under the same conditions: only in {a}: {only_a}; only in {b}: {only_b}", fb.loc,
               sample={"rule": "R3", "pair": f"{cname}.{a}/{b}", "effects": sorted((k, t, x) for k, t, x, f in ea)})

    # ---- R4 write targets ------------------------------------------------------------------
    for nm in ("set_mode", "async_set_mode"):
        fi = repo.own_method("GeckoPump", nm)
        t = ast.unparse(fi.node)
        ok = "self.facade.spa.accessors[self._user_demand['demand']]" in t and ("= mode" in t or "async_set_value(mode)" in t)
        ctx.ob("R4", f"GeckoPump.{nm}::writes-demand-item", ok, f"GeckoPump.{nm} does not write the mode to accessors[user_demand['demand']]", fi.loc)
    pinit = repo.own_method("GeckoPump", "__init__")
    ctx.ob("R4", "GeckoPump.__init__::keeps-demand", "self._user_demand = user_demand" in ast.unparse(pinit.node), "pump does not keep its matched user demand", pinit.loc)
    for nm in ("set_target_temperature", "async_set_target_temperature"):
        fi = repo.own_method("GeckoWaterHeater", nm)
        t = ast.unparse(fi.node)
        p = fi.node.args.args[1].arg
        ok = "self._target_temperature_sensor.accessor" in t and (f".value = {p}" in t or f"async_set_value({p})" in t)
        ctx.ob("R4", f"GeckoWaterHeater.{nm}::writes-setpoint", ok, f"GeckoWaterHeater.{nm} does not write the argument to the SetpointG accessor", fi.loc)
    hinit = repo.own_method("GeckoWaterHeater", "__init__")
    ok = False
    for n in ast.walk(hinit.node):
        if isinstance(n, ast.Assign) and ast.unparse(n.targets[0]) == "self._target_temperature_sensor" and "KEY_SETPOINT_G" in ast.unparse(n.value):
            ok = True
    ctx.ob("R4", "GeckoWaterHeater::target-is-SetpointG", ok, "target temperature sensor is not built on the SetpointG item", hinit.loc)
    for nm in ("set_temperature_unit", "async_set_temperature_unit"):
        fi = repo.own_method("GeckoWaterHeater", nm)
        g = cfg_of(fi)
        writes = []
        for n in g.stmt_nodes():
            for c in n.calls():
                if call_name(c) == "async_set_value" and receiver(c) == "self._temperature_unit_accessor":
                    writes.append((n, repo.try_fold(c.args[0])))
            if isinstance(n.ast, ast.Assign) and ast.unparse(n.ast.targets[0]) == "self._temperature_unit_accessor.value":
                writes.append((n, repo.try_fold(n.ast.value)))
        vals = sorted(v for _, v in writes)
        ok = vals == ["C", "F"]
        if ok:
            for n, v in writes:
                facts = g.guard_atoms(n)
                isF = any(p and " in (" in t and "'F'" in t for t, p in facts)
                notF = any((not p) and " in (" in t and "'F'" in t for t, p in facts)
                ok = ok and ((v == "F" and isF) or (v == "C" and notF))
        ctx.ob("R4", f"GeckoWaterHeater.{nm}::F-or-C", ok, f"GeckoWaterHeater.{nm} does not write 'F' for the Fahrenheit aliases and 'C' otherwise (writes {vals})", fi.loc)

    # ---- R5 SPACK construction ----------------------------------------------------------------
    def builder_call(fi, builder):
        for n in ast.walk(fi.node):
            if isinstance(n, ast.Call) and ast.unparse(n.func) == f"GeckoPackCommandProtocolHandler.{builder}":
                return n
        return None

    for qual, builder, tail in (("GeckoAsyncSpa._on_async_set_value", "set_value", ["self.pack_type", "self.config_version", "self.log_version", "pos", "length", "newvalue"]),
                                ("GeckoSpa._on_set_value", "set_value", ["self.pack_type", "self.config_version", "self.log_version", "pos", "length", "newvalue"]),
                                ("GeckoAsyncSpa.async_press", "keypress", ["self.pack_type", "keypad"]),
                                ("GeckoSpa.press", "keypress", ["self.pack_type", "keypad"])):
        fi = repo.func(qual)
        c = builder_call(fi, builder)
        ctx.ob("R5", f"{qual}::builds-{builder}", c is not None, f"{qual} does not build GeckoPackCommandProtocolHandler.{builder}", fi.loc)
        if c is None:
            continue
        args = [ast.unparse(a) for a in c.args]
        seq_ok = isinstance(c.args[0], ast.Call) and call_name(c.args[0]) == "get_and_increment_sequence_counter" and ast.unparse(c.args[0].args[0]) == "True"
        ctx.ob("R5", f"{qual}::sequence-from-command-counter", seq_ok, f"{qual}: sequence argument `{args[0]}` is not a command-range counter draw", loc(fi, c))
        ctx.ob("R5", f"{qual}::arguments", args[1:] == tail, f"{qual}: {builder} gets {args[1:]}, expected {tail} (pack type, versions and the accessor's pos/length/value unchanged)", loc(fi, c),
               sample={"rule": "R5", "site": qual, "builder": builder, "args": args})
        kw = {k.arg: ast.unparse(k.value) for k in c.keywords}
        ctx.ob("R5", f"{qual}::addressed", kw.get("parms") == "self.sendparms", f"{qual}: command not addressed with parms=self.sendparms", loc(fi, c))
    for cname, meth in (("GeckoAsyncSpa", "_connect"), ("GeckoSpa", "_on_config_received")):
        fi = repo.method(cname, meth)
        t = ast.unparse(fi.node)
        ok = ("self.pack_type = self.pack_class.type" in t or "self.pack_type = self.new_pack_class.type" in t) and ".config_version" in t and ".log_version" in t
        ok = ok and ("self.config_version = config_file_handler.config_version" in t or "self.config_version = handler.config_version" in t)
        ok = ok and ("self.log_version = config_file_handler.log_version" in t or "self.log_version = handler.log_version" in t)
        ctx.ob("R5", f"{cname}.{meth}::pack-identity-from-connection", ok, f"{cname}.{meth}: pack_type/config_version/log_version are not taken from the connected pack's FILES reply", fi.loc)
    # the structure delegates unchanged
    for cname in ("GeckoAsyncStructure", "GeckoStructure"):
        for nm in ("set_value", "async_set_value"):
            m = repo.own_method(cname, nm, required=False)
            if m is None:
                continue
            t = ast.unparse(m.node)
            ctx.ob("R5", f"{cname}.{nm}::delegates-unchanged", "(pos, length, newvalue)" in t, f"{cname}.{nm} does not delegate (pos, length, newvalue) unchanged", m.loc)

    # ---- R6 watercare -----------------------------------------------------------------------------
    fi = repo.own_method("GeckoWaterCare", "async_set_mode")
    g = cfg_of(fi)
    sets = calls_named(g, "async_set_watercare")
    chg = calls_named(g, "change_watercare_mode")
    ok = len(sets) == 1 and len(chg) == 1 and g.dom(sets[0][0], chg[0][0]) and g.pdom(sets[0][0], g.entry) and g.loop_of(sets[0][0]) is None
    ctx.ob("R6", "GeckoWaterCare.async_set_mode::one-set-then-notify", ok, "async_set_mode does not send exactly one async_set_watercare and then change_watercare_mode", fi.loc)
    if ok:
        p = fi.node.args.args[1].arg
        ctx.ob("R6", "GeckoWaterCare.async_set_mode::same-mode", ast.unparse(sets[0][1].args[0]) == p and ast.unparse(chg[0][1].args[0]) == p, "set and local change use different values", fi.loc)
    idx = [n for n in g.stmt_nodes() if isinstance(n.ast, ast.Assign) and "WATERCARE_MODE_STRING.index(" in ast.unparse(n.ast.value)]
    okc = len(idx) == 1 and any(p and t.startswith("isinstance(") and "str" in t for t, p in g.guard_atoms(idx[0])) and bool(sets) and g.reachable(idx[0], sets[0][0])
    ctx.ob("R6", "GeckoWaterCare.async_set_mode::label-to-index", okc, "string modes are not converted with WATERCARE_MODE_STRING.index before sending", fi.loc)
    cw = repo.own_method("GeckoWaterCare", "change_watercare_mode")
    gc = cfg_of(cw)
    oc = calls_named(gc, "_on_change")
    ok = len(oc) == 1 and any((not p) and "==" in t and "active_mode" in t for t, p in gc.guard_atoms(oc[0][0]))
    ctx.ob("R6", "GeckoWaterCare.change_watercare_mode::notifies-on-change-only", ok, "change_watercare_mode does not notify exactly when the mode changes", cw.loc)
    sw = repo.own_method("GeckoAsyncSpa", "async_set_watercare")
    c = None
    for n in ast.walk(sw.node):
        if isinstance(n, ast.Call) and ast.unparse(n.func) == "GeckoWatercareProtocolHandler.set":
            c = n
    ok = c is not None and len(c.args) == 2 and ast.unparse(c.args[1]) == sw.node.args.args[1].arg
    ctx.ob("R6", "GeckoAsyncSpa.async_set_watercare::passes-mode", ok, "async_set_watercare does not pass the requested mode to the SETWC builder", sw.loc)
    # ---- R7 the accessor write behind every direct-write command is exact -------------------------------------
    # (bit-provenance analysis of C02, restricted to the shapes of the items commands write:
    #  user demands of the DEVICES, the eco switch, the units item and the setpoint)
    from ..absint import Interp
    from ..packs import tables
    from .c02 import shape_obligations, shape_of
    T = tables(repo)
    c = repo.cls("GeckoConstants")
    DEV = class_const(repo, "GeckoConstants", "DEVICES")
    wanted = {f"UD{d}".upper() for d in DEV} | {"ECONACTIVE", "TEMPUNITS", "SETPOINTG"}
    shapes = {}
    n_items = 0
    for stem, m in sorted(T.modules.items()):
        for it in m.items:
            if it.key.upper() in wanted:
                n_items += 1
                g = T.geometry(it)
                if g["read_write"] is None:
                    continue
                shapes.setdefault(shape_of(g), (it, g))
    ctx.count("R7:command_target_items", n_items)
    ctx.floor("R7", "shapes of command-target items", len(shapes), 6)
    interp = Interp(repo, max_depth=8)
    for k, (it, g) in sorted(shapes.items(), key=lambda kv: str(kv[0])):
        for rule, key, ok, msg, where, sample in shape_obligations(repo, interp, it, g, k):
            if rule in ("R1", "R2", "R5"):
                ctx.ob("R7", f"{rule}::{key}", ok, "command write is not exact: " + msg, where,
                       sample={"rule": "R7", "item": f"{it.module.stem}::{it.key}", "obligation": key} if key.endswith("sync::O1-isolation") else None)
    ctx.rule("R8", "command-range sequence numbers: the counter both stacks draw SPACK sequences from issues exactly 192..255 for kind True, never a protocol-range value (C16's exhaustive fixpoint on both implementations; the draw kind per command site is R5)")
    from . import c16 as _c16
    for impl in _c16.IMPLS:
        _c16.fixpoint(ctx.borrowed("R8", "C16", only=("R1", "R2")), repo, impl, ctx.tier)
    ctx.note("NOT decided: closed loop with a responding spa (the write applied, echoed and read back) - composition of C02, C04, C05.")


def _leads_only_to_return(g, m):
    """Does m start the early-return branch (logging + return without commands)?"""
    cur = m
    for _ in range(4):
        if isinstance(cur.ast, ast.Return):
            return True
        nxt = [x for x, l in g.succ[cur] if l != "exc"]
        if len(nxt) != 1:
            return False
        cur = nxt[0]
    return False
