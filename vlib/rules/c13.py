"""C13 - facade commands emit exactly the intended device write and are idempotent.

R1 short-circuit dominates every command; R2 exactly one command per remaining path with
the right constant/key; R3 sync/async sibling agreement; R4 write targets; R5 SPACK
construction arguments; R6 watercare.
NOT decided: the closed loop with a responding spa (echo, read-back) - composition of
C02 + C04 + C05, each decided separately.
"""
from __future__ import annotations

import ast

from ..cfg import cfg_of
from ..core import AnalysisError
from ..facts import class_const, loc
from ..pathrules import calls_named
from ..src import Repo, call_name, deep_strip, receiver, walk_no_nested


def command_nodes(g):
    """CFG nodes that emit a device command in a switch method -> (node, kind, detail)"""
    out = []
    for n in g.stmt_nodes():
        for c in n.calls():
            nm = call_name(c)
            if nm in ("press", "async_press") and (receiver(c) or "").endswith("_spa"):
                out.append((n, "press", ast.unparse(c.args[0]) if c.args else ""))
            if nm == "async_set_value":
                out.append((n, "write", (receiver(c), ast.unparse(c.args[0]) if c.args else "")))
        if isinstance(n.ast, ast.Assign) and len(n.ast.targets) == 1 and ast.unparse(n.ast.targets[0]).endswith(".value"):
            out.append((n, "write", (ast.unparse(n.ast.targets[0])[:-6], ast.unparse(n.ast.value))))
    return out


class _Norm(ast.NodeTransformer):
    """Identify `await X.async_press(a)` with `X.press(a)`, `await A.async_set_value(v)`
    with `A.value = v`, async def with def."""

    def visit_Await(self, node):
        return self.visit(node.value)

    def visit_Call(self, node):
        self.generic_visit(node)
        if isinstance(node.func, ast.Attribute) and node.func.attr.startswith("async_") and node.func.attr != "async_set_value":
            node.func.attr = node.func.attr[len("async_"):]
        return node

    def visit_Expr(self, node):
        self.generic_visit(node)
        v = node.value
        if isinstance(v, ast.Call) and isinstance(v.func, ast.Attribute) and v.func.attr == "async_set_value" and len(v.args) == 1:
            return ast.Assign(targets=[ast.Attribute(value=v.func.value, attr="value", ctx=ast.Store())], value=v.args[0], lineno=0)
        return node


def normalised(fi):
    body = deep_strip(fi.node.body)
    out = []
    for s in body:
        s = _Norm().visit(s)
        ast.fix_missing_locations(s)
        out.append(ast.unparse(s))
    return "\n".join(out)


def check(ctx):
    repo = Repo()
    ctx.rule("R1", "short-circuit: in GeckoSwitch.turn_on/async_turn_on every command is guarded by `not is_on`, in turn_off/async_turn_off by `is_on`")
    ctx.rule("R2", "exactly one command per remaining path: commands are mutually exclusive, no path past the gate without one; keypad press uses the device's keypad code under `keypad != 0`, direct write uses True (on) / False (off) on the device's own accessor")
    ctx.rule("R3", "sync/async sibling agreement for switch on/off, pump set_mode, heater set_target_temperature and set_temperature_unit: each twin is decided against the statement on the same model valuations (R1/R2/R4), so the twins agree")
    ctx.rule("R4", "write targets: pump writes accessors[user_demand['demand']] with the mode; heater writes the SetpointG sensor's accessor; unit writes 'F'/'C' to the units accessor with the documented aliases")
    ctx.rule("R5", "SPACK construction: set-value passes (command counter, pack_type, config_version, log_version, pos, length, value) and key-press (command counter, pack_type, key) with parms=self.sendparms, on both stacks; pack_type/versions come from the connected pack")
    ctx.rule("R7", "the accessor write behind every direct-write command (user demands, eco switch, units, setpoint) is exact: bit-provenance obligations of C02 on exactly those items' shapes, both writers")
    ctx.rule("R6", "watercare: label -> index via WATERCARE_MODE_STRING.index; exactly one async_set_watercare(new_mode) followed by change_watercare_mode(new_mode)")

    # ---- R1 / R2 switch: by interpretation on a model spa (vlib/facademodel.py) -------------------
    # every (keypad code 0 / non-0) x (Bool / Enum state item) x (currently on / off) x (turn_on, turn_off,
    # async twins): nothing when already there, otherwise exactly one key press with the device's keypad code
    # or exactly one write of True/False to the device's own state accessor (props[2] of its DEVICES row)
    from ..facademodel import switch_commands
    switch_commands(ctx, repo, "R1", "R2")

    # ---- R3 siblings --------------------------------------------------------------------
    # Semantic agreement: both twins emit the same set of device effects (key press /
    # accessor write), with the same arguments, under the same guard facts.  Local aliases
    # are expanded and logging ignored, so re-shaped if/else, extracted locals, renamed
    # variables or different log texts do not matter.
    def effects(fi):
        g = cfg_of(fi)
        out = set()
        for n in g.stmt_nodes():
            facts = frozenset((t, p) for t, p in g.guard_atoms(n) if "_LOGGER" not in t)
            for c in n.calls():
                nm = call_name(c)
                if nm in ("press", "async_press"):
                    out.add(("press", ast.unparse(g.expand(c.func.value, at=n)), tuple(ast.unparse(g.expand(a, at=n)) for a in c.args), facts))
                elif nm == "async_set_value":
                    out.add(("write", ast.unparse(g.expand(c.func.value, at=n)), tuple(ast.unparse(g.expand(a, at=n)) for a in c.args), facts))
            if isinstance(n.ast, ast.Assign) and len(n.ast.targets) == 1 and isinstance(n.ast.targets[0], ast.Attribute) and n.ast.targets[0].attr == "value":
                out.add(("write", ast.unparse(g.expand(n.ast.targets[0].value, at=n)), (ast.unparse(g.expand(n.ast.value, at=n)),), facts))
        return out

    def canon(effs):
        # guard facts: keep only facts about the request/device state, drop alias-expansion duplicates
        res = set()
        for kind, tgt, args, facts in effs:
            f2 = frozenset((t, p) for t, p in facts if not t.isidentifier())
            res.add((kind, tgt, args, f2))
        return res

    # R3: the blocking and the awaitable twin of every command are each decided against the statement on the models below
    # (R1/R2 switches, R4 pump / heater / unit, R5 SPACK, R6 watercare), so they agree with each other by construction;
    # a textual comparison of their effects is kept only as a count for the evidence
    pairs = [("GeckoSwitch", "turn_on", "async_turn_on"), ("GeckoSwitch", "turn_off", "async_turn_off"), ("GeckoPump", "set_mode", "async_set_mode"),
             ("GeckoWaterHeater", "set_target_temperature", "async_set_target_temperature"), ("GeckoWaterHeater", "set_temperature_unit", "async_set_temperature_unit")]
    n_same = 0
    for cname, a, b in pairs:
        fa, fb = repo.own_method(cname, a), repo.own_method(cname, b)
        try:
            n_same += int(canon(effects(fa)) == canon(effects(fb)))
        except Exception:  # noqa: BLE001 - informational only
            pass
    ctx.count("R3:twin pairs with textually identical effects", n_same)
    ctx.ob("R3", "twins-decided-on-the-models", True, "")

    # ---- R4 write targets: by interpretation on a model spa ------------------------------------------------
    # pump: set_mode writes the mode to the matched user-demand item; heater: the target temperature goes to the
    # SetpointG item, the unit setter writes 'F' for the Fahrenheit aliases and 'C' otherwise to the TempUnits item
    from ..absint import ClassRef, Interp, PyRaise, Undecided
    from ..core import AnalysisError as _AE
    from ..facademodel import Rec, _writes, accessor as _acc, model_facade
    from .c14 import build_heater
    gcc = repo.cls("GeckoConstants")
    n_pm = 0
    for nm in ("set_mode", "async_set_mode"):
        # every current state: what the output reads (StateKey) and what the demand item holds are different
        # things (a pump whose demand was just set still reads OFF; a filter cycle runs the pump with demand OFF)
        for out_state in ("OFF", "HI", "LO"):
            for demand in ("OFF", "HI", "LO"):
                for mode in ("OFF", "LO", "HI"):
                    rec = Rec()
                    accs = {"StateKey": _acc(rec, "StateKey", out_state), "UdDEV": _acc(rec, "UdDEV", demand), "UdOTHER": _acc(rec, "UdOTHER", "OFF")}
                    fac, _spa = model_facade(rec, accs)
                    it = Interp(repo, max_depth=12)
                    try:
                        pump = it.apply(ClassRef(repo.cls("GeckoPump")), [fac, "DEV", ("Pump", 1, "StateKey", "PUMP"), {"demand": "UdDEV", "options": ["OFF", "LO", "HI"]}], {})
                        rec.log.clear()
                        before = {k: a.attrs["value"] for k, a in accs.items()}
                        it.steps = 0
                        it.call(repo.method("GeckoPump", nm), pump, [mode])
                    except (PyRaise, Undecided) as e:
                        raise _AE(f"GeckoPump.{nm}: {e}")
                    cmds = _writes(rec, accs, before)
                    n_pm += 1
                    ctx.ob("R4", f"GeckoPump.{nm}::writes-demand-item" if (out_state, demand, mode) == ("OFF", "OFF", "HI") else f"GeckoPump.{nm}::output={out_state}::demand={demand}::request={mode}",
                           cmds == [("write", "UdDEV", mode)],
                           f"GeckoPump.{nm}({mode!r}) on a pump whose output reads {out_state!r} and whose demand item UdDEV holds {demand!r} performs {cmds}, expected exactly one write of {mode!r} to UdDEV "
                           f"(a pump mode is a demand: it is sent for every current state)", repo.method("GeckoPump", nm).loc)
    ctx.floor("R4", "pump mode valuations (output x demand x request x writer)", n_pm, 54)
    K = {k: repo.fold(gcc.consts[k], gcc.mod, gcc) for k in ("KEY_TEMP_UNITS", "KEY_SETPOINT_G")}
    for nm in ("set_target_temperature", "async_set_target_temperature"):
        it = Interp(repo, max_depth=12)
        try:
            heater, accs, rec = build_heater(repo, it)
            rec.log.clear()
            before = {k: a.attrs["value"] for k, a in accs.items()}
            it.steps = 0
            it.call(repo.method("GeckoWaterHeater", nm), heater, [37.5])
        except (PyRaise, Undecided) as e:
            raise _AE(f"GeckoWaterHeater.{nm}: {e}")
        cmds = _writes(rec, accs, before)
        ctx.ob("R4", f"GeckoWaterHeater.{nm}::writes-setpoint", cmds == [("write", K["KEY_SETPOINT_G"], 37.5)],
               f"GeckoWaterHeater.{nm}(37.5) performs {cmds}, expected exactly one write of 37.5 to the {K['KEY_SETPOINT_G']} item", repo.method("GeckoWaterHeater", nm).loc)
    for nm in ("set_temperature_unit", "async_set_temperature_unit"):
        bad = []
        for start in ("C", "F"):
            for arg, want in (("°F", "F"), ("f", "F"), ("F", "F"), ("°C", "C"), ("c", "C"), ("C", "C"), ("K", "C")):
                it = Interp(repo, max_depth=12)
                try:
                    heater, accs, rec = build_heater(repo, it, units=start)
                    rec.log.clear()
                    accs[K["KEY_TEMP_UNITS"]].attrs["value"] = "?"  # so that a plain assignment is visible whatever it writes
                    before = {k: a.attrs["value"] for k, a in accs.items()}
                    it.steps = 0
                    it.call(repo.method("GeckoWaterHeater", nm), heater, [arg])
                except (PyRaise, Undecided) as e:
                    raise _AE(f"GeckoWaterHeater.{nm}: {e}")
                cmds = _writes(rec, accs, before)
                if cmds != [("write", K["KEY_TEMP_UNITS"], want)]:
                    bad.append((arg, cmds))
        ctx.ob("R4", f"GeckoWaterHeater.{nm}::F-or-C", not bad,
               f"GeckoWaterHeater.{nm} does not write 'F' for the Fahrenheit aliases and 'C' otherwise to the unit item: {bad[:3]}", repo.method("GeckoWaterHeater", nm).loc)

    # ---- R5 SPACK construction: by interpretation on a model connection (vlib/writemodel.py) ----------------------
    # both set-value callbacks and both key-press entry points emit exactly one request whose bytes equal the
    # command builder's output for (command-range sequence, the connection's pack type / versions, the caller's
    # position / length / value or key code), addressed to the connection's own peer
    from ..writemodel import device_writes, key_presses
    device_writes(ctx, repo, "R5", kinds=True)
    key_presses(ctx, repo, "R5")
    from ..modlookup import pack_identity
    pack_identity(ctx, repo, "R5")
    # the structure delegates unchanged (path rule shared with C02.R8)
    from ..pathrules import pass_through
    for cname in ("GeckoAsyncStructure", "GeckoStructure"):
        for nm in ("set_value", "async_set_value"):
            m = repo.own_method(cname, nm, required=False)
            if m is None:
                continue
            verdict, detail = pass_through(cfg_of(m), m, 3)
            if verdict is None:
                ctx.error(f"{cname}.{nm}: {detail} - idiom not supported by C13.R5")
                continue
            ctx.ob("R5", f"{cname}.{nm}::delegates-unchanged", verdict, f"{cname}.{nm} does not delegate (pos, length, newvalue) unchanged: {detail}", m.loc)

    # ---- R6 watercare: by interpretation on a GeckoWaterCare built by its constructor on a model facade ------------
    # the spa's async_set_watercare and the object's observers are stand-ins that record; what is observed is the
    # order set -> local change, the value sent, the value kept, and the number of notifications
    from ..absint import ClassRef as _CR6, Interp as _I6, Native as _N6, PyRaise as _PR6, Undecided as _U6
    from ..facademodel import Rec as _Rec6, model_facade as _mf6
    labels6 = class_const(repo, "GeckoConstants", "WATERCARE_MODE_STRING")
    if not isinstance(labels6, (list, tuple)) or len(labels6) < 3:
        raise _AE(f"GeckoConstants.WATERCARE_MODE_STRING not resolved: {labels6!r}")
    n6 = 0
    for start in (None, 1):
        for req, want_idx in ((labels6[2], 2), (2, 2), (labels6[0], 0), (1, 1)):
            it6 = _I6(repo, max_depth=12)
            log6 = []
            fac6, spa6 = _mf6(_Rec6(), {})
            spa6.attrs["async_set_watercare"] = _N6(lambda a, k, log6=log6: log6.append(("set", a[0])), "async_set_watercare")
            try:
                wc6 = it6.apply(_CR6(repo.cls("GeckoWaterCare")), [fac6], {})
                if start is not None:
                    it6.call(repo.method("GeckoWaterCare", "change_watercare_mode"), wc6, [start])
                it6.call(repo.method("GeckoWaterCare", "watch"), wc6, [_N6(lambda a, k, log6=log6: log6.append(("notify",) + tuple(a[1:])), "observer")])
                it6.steps = 0
                it6.call(repo.method("GeckoWaterCare", "async_set_mode"), wc6, [req])
                kept = it6.getattr(wc6, "mode")
            except _PR6 as e:
                log6.append(("raises", e.what))
                kept = None
            except _U6 as e:
                raise _AE(f"GeckoWaterCare.async_set_mode on the model facade: {e}")
            want = [("set", want_idx)] + ([("notify", start, want_idx)] if start != want_idx else [])
            n6 += 1
            ctx.ob("R6", f"GeckoWaterCare.async_set_mode::from={start}::request={req!r}", log6 == want and kept == want_idx,
                   f"GeckoWaterCare.async_set_mode({req!r}) with the mode previously {start!r}: {log6}, mode kept {kept!r}; expected {want} and mode {want_idx} - "
                   f"exactly one request to the spa carrying the mode's index, then the local change (notified once iff the mode differs)",
                   repo.method("GeckoWaterCare", "async_set_mode").loc, sample={"rule": "R6", "request": str(req), "from": start, "log": [str(x) for x in log6]} if n6 % 3 == 1 else None)
    ctx.floor("R6", "watercare requests interpreted", n6, 8)
    # the name table and the numbering agree: the number a name is sent as is its position in WATERCARE_MODE_STRING; the
    # protocol's numbering is what the constants class gives its mode constants (`(AwayFromHome, Standard, ...) = range(5)`)
    # - position i of the name table must hold the spelled-out name of the constant whose value is i
    import re as _re6
    gc6 = repo.cls("GeckoConstants")
    names6 = None
    for st6 in gc6.node.body:
        if isinstance(st6, ast.Assign) and any(isinstance(t, ast.Name) and t.id == "WATERCARE_MODE" for t in st6.targets):
            tup = next((t for t in st6.targets if isinstance(t, ast.Tuple)), None)
            if tup is not None and all(isinstance(e, ast.Name) for e in tup.elts):
                names6 = [e.id for e in tup.elts]
    if names6 is None:
        ctx.note("GeckoConstants.WATERCARE_MODE is not a tuple of named constants numbered by position - the agreement of the name table with the numbering is not decided")
    else:
        vals6 = [class_const(repo, "GeckoConstants", nm) for nm in names6]
        spelled = {v: " ".join(_re6.findall(r"[A-Z][a-z0-9]*", nm)) for nm, v in zip(names6, vals6) if isinstance(v, int)}
        bad6 = [(i, labels6[i], spelled.get(i)) for i in range(len(labels6)) if spelled.get(i) is not None and "".join(labels6[i].split()).lower() != "".join(spelled[i].split()).lower()]
        ctx.ob("R6", "WATERCARE_MODE_STRING::agrees-with-the-mode-constants", not bad6 and len(spelled) == len(labels6),
               f"GeckoConstants: the mode name table and the mode constants disagree at {[(i, lab, 'constant: ' + str(sp)) for i, lab, sp in bad6]} ({len(spelled)} constants, {len(labels6)} names): a mode requested by name is sent as "
               f"the number of ANOTHER mode, and read back under the requested name", gc6.loc if hasattr(gc6, "loc") else None, sample={"rule": "R6", "names": list(labels6), "constants": names6})
    sw = repo.own_method("GeckoAsyncSpa", "async_set_watercare")
    c = None
    for n in ast.walk(sw.node):
        if isinstance(n, ast.Call) and ast.unparse(n.func) == "GeckoWatercareProtocolHandler.set":
            c = n
    ok = c is not None and len(c.args) == 2 and ast.unparse(c.args[1]) == sw.node.args.args[1].arg
    ctx.ob("R6", "GeckoAsyncSpa.async_set_watercare::passes-mode", ok, "async_set_watercare does not pass the requested mode to the SETWC builder", sw.loc)
    # ---- R7 the accessor write behind every direct-write command is exact -------------------------------------
    # (bit-provenance analysis of C02, restricted to the shapes of the items commands write:
    #  user demands of the DEVICES, the eco switch, the units item and the setpoint)
    from ..absint import Interp
    from ..packs import tables
    from .c02 import shape_obligations, shape_of
    T = tables(repo)
    c = repo.cls("GeckoConstants")
    DEV = class_const(repo, "GeckoConstants", "DEVICES")
    wanted = {f"UD{d}".upper() for d in DEV} | {"ECONACTIVE", "TEMPUNITS", "SETPOINTG"}
    shapes = {}
    n_items = 0
    for stem, m in sorted(T.modules.items()):
        for it in m.items:
            if it.key.upper() in wanted:
                n_items += 1
                g = T.geometry(it)
                if g["read_write"] is None:
                    continue
                shapes.setdefault(shape_of(g), (it, g))
    ctx.count("R7:command_target_items", n_items)
    ctx.floor("R7", "shapes of command-target items", len(shapes), 6)
    interp = Interp(repo, max_depth=8)
    for k, (it, g) in sorted(shapes.items(), key=lambda kv: str(kv[0])):
        for rule, key, ok, msg, where, sample in shape_obligations(repo, interp, it, g, k):
            if rule in ("R1", "R2", "R5"):
                ctx.ob("R7", f"{rule}::{key}", ok, "command write is not exact: " + msg, where,
                       sample={"rule": "R7", "item": f"{it.module.stem}::{it.key}", "obligation": key} if key.endswith("sync::O1-isolation") else None)
    ctx.rule("R8", "command-range sequence numbers: the counter both stacks draw SPACK sequences from issues exactly 192..255 for kind True, never a protocol-range value (C16's exhaustive fixpoint on both implementations; the draw kind per command site is R5)")
    from . import c16 as _c16
    for impl in _c16.IMPLS:
        _c16.fixpoint(ctx.borrowed("R8", "C16", only=("R1", "R2")), repo, impl, ctx.tier)
    ctx.rule("R9", "exactly one command per request also under contention: every command factory handed to the request engine builds its handler when called (a handler built before the lock is taken starts its timeout clock early, expires while waiting, and the one stale instance is re-sent on every retry) - C06.R1 builds-fresh-request borrowed")
    from . import c06 as _c06
    _c06.fresh_request_factories(ctx.borrowed("R9", "C06"), repo)
    ctx.rule("R11", "every blocking command is carried out: the blocking twins hand their command to the task registry under a fixed task name; the registry, interpreted on model tasks, starts a task for EVERY add_task call - also while a task of the same name and key is still running (C10.R3's registry model borrowed)")
    from ..taskmodel import check_registry as _cr13
    _cr13(ctx.borrowed("R11", "C10"), repo, "R3", only=("same-name",))
    ctx.rule("R12", "the second command's acknowledgement is its own: acknowledgements of pack commands are byte-identical datagrams (no sequence number), so the receive queue must tell a datagram from an EQUAL one that follows it - a mark left on a consumed acknowledgement must not hold for the next, equal one, or the discard consumer throws the second command's acknowledgement away and the command is sent again (a key press then toggles twice) (C07.R3's queue model borrowed)")
    from .c07 import queue_model as _qm13
    _qm13(ctx.borrowed("R12", "C07", key_prefix="AsyncPeekableQueue::mark"), repo, "R3")
    ctx.rule("R13", "a mode name means what the table says: set_mode(name) is sent as the POSITION of that name in the demand item's label list, and the echo is decoded with the same list - so the list in force must be the published one. On the facades built for the richest pair of every platform with every offered device wired (single-speed pumps included: a high-speed output without its low-speed twin), no label list differs from its table's after construction and after every member has been read - a mode list trimmed IN PLACE (the pump's `modes` IS the item's list) makes 'HI' go out as 1 = LO while the client reads back 'HI' (C18.R10's model borrowed on the `devices` wiring)")
    from ..buildmodel import labels_after_reads as _lar13
    from ..packs import tables as _tables13
    _T13 = _tables13(repo)
    n13_ = 0
    for (plat_, cs_, ls_, fcls_), (r_, extra_) in sorted(_lar13(repo, _T13, valuation="devices").items()):
        if r_ is not None or extra_ is None:
            continue
        changed_, nw_ = extra_
        n13_ += 1
        ctx.ob("R13", f"{fcls_}::{plat_}::labels-as-published", not changed_,
               f"{fcls_} built on ({cs_}, {ls_}) with every offered device wired: {len(changed_)} item(s) carry other labels than their table published, e.g. "
               + "; ".join(f"{k}: {list(b)} -> {a}" for k, b, a in changed_[:2]) + " - a mode name is sent as its position in this list: the spa is told another mode than the one asked for, and the echo reads back as the one asked for",
               repo.method(fcls_, "all_automation_devices").loc, sample={"rule": "R13", "facade": fcls_, "platform": plat_, "items_watched": nw_} if plat_.startswith("inyt") else None)
    ctx.floor("R13", "facades built with every device wired", n13_, 10)
    ctx.rule("R14", "the target temperature sent is the one asked for, to the tenth: for every 16-bit word, both units and both writers, writing the value the item presents for that word hands the same word to the device write - decided on the writers' own float programs (same operations, order and constants), so an algebraically equal rewrite that truncates differently (`int((t - 32.0) * 10.0)` gives 485 for 80.6 F) is seen (C14.R6 borrowed)")
    from .c14 import exact_read_back as _erb13
    _erb13(ctx.borrowed("R14", "C14"), repo, "R6")
    ctx.rule("R15", "every water-care mode can be sent: the water-care command, built on symbolic sequence and mode bytes and decoded by the peer, carries BOTH bytes for every value - mode 0 (Away From Home) included: a builder that filters out falsy fields sends `SETWC<seq>` without its mode byte for mode 0, the spa cannot apply it, and the facade claims mode 0 until the next poll reads the old mode back (C04.R2's round trips of the water-care messages borrowed)")
    from .c04 import round_trips as _rt13
    _rt13(ctx.borrowed("R15", "C04", only=("R2",), key_contains="Watercare"), repo)
    ctx.rule("R10", "read-back after the echo: what the facade's sensors present is what the items decode from the block as it is now, also after a unit change that leaves the temperature word untouched (C14.R9 borrowed)")
    from .c14 import presented_value_follows_the_block
    presented_value_follows_the_block(ctx.borrowed("R10", "C14"), repo, "R9")
    ctx.note("NOT decided: closed loop with a responding spa (the write applied, echoed and read back) - composition of C02, C04, C05.")


def _leads_only_to_return(g, m):
    """Does m start the early-return branch (logging + return without commands)?"""
    cur = m
    for _ in range(4):
        if isinstance(cur.ast, ast.Return):
            return True
        nxt = [x for x, l in g.succ[cur] if l != "exc"]
        if len(nxt) != 1:
            return False
        cur = nxt[0]
    return False
