"""C06 - request engine: bounded retries, one request in flight, every caller completes.

Structural clauses decided: bounded/fresh/one-send-per-attempt retry loop, result only
on the delivered edge, lock discipline of every send/wait site in the async stack,
who-may-send layering, connected/ping gates of every command/query method.
NOT decided: the time bound, FIFO fairness of asyncio.Lock, stalls (runtime quantities).
"""
from __future__ import annotations

import ast

from ..cfg import cfg_of
from ..core import AnalysisError
from ..facts import loc
from ..pathrules import assigns_attr as assigns_attr_
from ..pathrules import (calls_named, head_test_bounds, lexically_inside_with, loop_heads,
                         once_per_iteration, variant)
from ..src import Repo, call_name, names_in, receiver, walk_no_nested

PROTO = "GeckoAsyncUdpProtocol"
BASE = "GeckoUdpProtocolHandler"
# send sites in the async stack that are deliberately outside the request lock
UNLOCKED_SENDS = {
    "GeckoAsyncPartialStatusBlockProtocolHandler.async_handle": "acknowledgement of an unsolicited STATP; expects no reply",
    "GeckoAsyncLocator._broadcast_loop": "discovery broadcast on the locator's own endpoint; replies are consumed by the hello consumer, no request/response pairing",
}
# GeckoAsyncSpa methods that talk to the spa before/without the gates, with reason
UNGATED = {
    "GeckoAsyncSpa._connect": "performs the handshake that establishes `connected`",
    "GeckoAsyncSpa._ping_loop": "produces the ping evidence the gate is built on",
}


def is_lock_expr(e, _with):
    t = ast.unparse(e)
    return t.endswith(".Lock") or t.endswith("._lock") or t == "self.Lock"


def inside_lock_bracket(repo, fi, node, pred_for, depth=3):
    """is <node> of <fi> executed under the request lock: lexically inside `async with <lock>` here, or <fi> is a helper
    of its class EVERY call of which is (an operation split into a wrapper that takes the lock and its body).
    pred_for(fi, names) -> predicate(expr, with_stmt) recognising the lock in <fi>, `names` mapping the helper's
    parameter names to the caller's argument texts."""
    def go(f, n, names, d):
        if lexically_inside_with(f.node, n, pred_for(f, names)):
            return True
        if d <= 0 or f.cls is None:
            return False
        sites = []
        for g in repo.all_methods(f.cls).values():
            if g is f:
                continue
            for c in walk_no_nested(g.node):
                if isinstance(c, ast.Call) and isinstance(c.func, ast.Attribute) and c.func.attr == f.name and isinstance(c.func.value, ast.Name) and c.func.value.id == "self":
                    sites.append((g, c))
        # also called from outside the class: not a private step of one operation
        for g in repo.all_functions():
            if g.cls is f.cls or (g.cls is not None and any(k is f.cls for k in repo.mro(g.cls))):
                continue
            for c in walk_no_nested(g.node):
                if isinstance(c, ast.Call) and call_name(c) == f.name and f.name.startswith("_"):
                    return False
        if not sites:
            return False
        params = [a.arg for a in f.node.args.posonlyargs + f.node.args.args]
        for g, c in sites:
            m = {"self": "self"}
            for i, a in enumerate(c.args):
                if i + 1 < len(params):
                    m[params[i + 1]] = ast.unparse(a)
            for kw in c.keywords:
                if kw.arg:
                    m[kw.arg] = ast.unparse(kw.value)
            # the caller's own names map through its callers in turn
            m2 = {k: names.get(v, v) if False else v for k, v in m.items()}
            if not go(g, c, m2, d - 1):
                return False
        return True
    return go(fi, node, {}, depth)


def operation_body(repo, fi, depth=2):
    """the function that holds an operation's loops: <fi> itself, or - when <fi> is a wrapper without any loop (exception
    safety, logging) - the one same-class helper it awaits / calls that has them"""
    from ..pathrules import loop_heads as _lh
    if depth <= 0 or fi.cls is None or _lh(cfg_of(fi)):
        return fi
    helpers = []
    for n in walk_no_nested(fi.node):
        if isinstance(n, ast.Call) and isinstance(n.func, ast.Attribute) and isinstance(n.func.value, ast.Name) and n.func.value.id == "self":
            h_ = repo.all_methods(fi.cls).get(n.func.attr)
            if h_ is not None and h_ is not fi and _lh(cfg_of(operation_body(repo, h_, depth - 1))) and all(h_ is not x for x in helpers):
                helpers.append(h_)
    return operation_body(repo, helpers[0], depth - 1) if len(helpers) == 1 else fi


def retry_loop_rules(ctx, repo, fi, rule, sender_recv, var="retry_count"):
    """Shared by GeckoAsyncUdpProtocol.get (C06.R1) and GeckoAsyncStructure.get (C01.R5)."""
    g = cfg_of(fi)
    key = fi.qual
    heads = [h for h in loop_heads(g) if h.kind == "test" and var in names_in(h.ast)]

    def counted_for(hd):
        # `for _ in range(retry_count)`: bounded by construction, the budget cannot be refilled inside
        it = hd.ast.iter if hd.kind == "for" else None
        return isinstance(it, ast.Call) and isinstance(it.func, ast.Name) and it.func.id == "range" and \
            [ast.unparse(a) for a in it.args] in ([var], ["0", var])
    fheads = [h for h in loop_heads(g) if counted_for(h)]
    heads = heads + fheads
    ctx.ob(rule, f"{key}::retry-loop", len(heads) == 1, f"{fi.qual}: expected exactly one loop governed by {var}, found {len(heads)}", fi.loc)
    if len(heads) != 1:
        return None
    h = heads[0]
    if h in fheads:
        ctx.ob(rule, f"{key}::loop-test", True, "")
        ctx.ob(rule, f"{key}::bounded", True, "", sample={"rule": rule, "function": fi.qual, "loop": h.text(), "variant": f"range({var})", "bounded": True})
    else:
        ctx.ob(rule, f"{key}::loop-test", head_test_bounds(h, var), f"{fi.qual}: retry loop test `{h.text()}` is not `{var} > 0`", loc(fi, h.ast))
        ok, why = variant(g, h, var)
        ctx.ob(rule, f"{key}::bounded", ok, f"{fi.qual}: retry loop is not bounded by {var}: {why}", loc(fi, h.ast),
               sample={"rule": rule, "function": fi.qual, "loop": h.text(), "variant": var, "bounded": ok})
    # the bound is a parameter that is not rebound before the loop
    params = [a.arg for a in fi.node.args.args]
    ctx.ob(rule, f"{key}::bound-is-parameter", var in params, f"{fi.qual}: {var} is not a parameter", fi.loc)
    body = g.loop_body(h)
    sends = [n for n, c in calls_named(g, "queue_send") if n in body]
    all_sends = [n for n, c in calls_named(g, "queue_send")]
    ctx.ob(rule, f"{key}::sends-only-in-loop", len(sends) == len(all_sends) and len(sends) >= 1,
           f"{fi.qual}: {len(all_sends)} send site(s), {len(sends)} inside the retry loop", fi.loc)
    ok, why = once_per_iteration(g, h, sends)
    ctx.ob(rule, f"{key}::one-send-per-attempt", ok and len(sends) == 1,
           f"{fi.qual}: not exactly one transmission per attempt ({why or str(len(sends)) + ' send sites'})", fi.loc)
    # fresh request per attempt
    creates = [n for n in body if isinstance(n.ast, ast.Assign) and isinstance(n.ast.value, ast.Call)
               and ast.unparse(n.ast.value.func) == "create_func"]
    ctx.ob(rule, f"{key}::fresh-request", len(creates) == 1,
           f"{fi.qual}: the request is not built by create_func() inside the retry loop (found {len(creates)} in-loop constructions): retries would resend a stale handler/sequence number", fi.loc)
    req = None

    def canon(e, at):
        # the request under whatever local name it travels (`r1 = create_func(); request = r1`): compared after
        # replacing single-definition locals by their defining expressions
        try:
            return ast.unparse(g.expand(e if isinstance(e, ast.AST) else ast.parse(e, mode="eval").body, at=at))
        except (RecursionError, SyntaxError):
            return ast.unparse(e) if isinstance(e, ast.AST) else e
    if len(creates) == 1 and sends:
        req = ast.unparse(creates[0].ast.targets[0])
        S = sends[0]
        dom_iter = S not in g.reach_from(h, avoid=[creates[0]], cut=g.back_edges) or True
        # create dominates send within the iteration: send unreachable from head when create is removed
        reach_wo = g.reach_from(h, avoid=[creates[0]])
        ctx.ob(rule, f"{key}::create-dominates-send", S not in reach_wo,
               f"{fi.qual}: a send can happen in an iteration without a freshly created request", loc(fi, S.ast))
        c = [c for n, c in calls_named(g, "queue_send") if n is S][0]
        a0 = ast.unparse(c.args[0]) if c.args else ""
        ctx.ob(rule, f"{key}::sends-the-fresh-request", a0 == req or (bool(c.args) and canon(c.args[0], S) == canon(req, S)),
               f"{fi.qual}: queue_send is given `{a0}`, not the request built this attempt (`{req}`)", loc(fi, S.ast))
        # not rebound between create and send
        waits = [(n, c) for n, c in calls_named(g, "wait_for_response")]
        for n, c in waits:
            ctx.ob(rule, f"{key}::waits-on-the-sent-request", receiver(c) == req or (isinstance(c.func, ast.Attribute) and canon(c.func.value, n) == canon(req, n)),
                   f"{fi.qual}: waits on `{receiver(c)}` instead of the request just sent", loc(fi, n.ast))
    return g, h, req


def fresh_request_factories(ctx, repo):
    # every create_func handed to the request engines really BUILDS the request when called
    # (a lambda returning a pre-built object re-sends a stale handler: expired timeout clock,
    # same sequence number on every retry)
    BUILDERS = {"request", "full_request", "set", "set_value", "keypress"}
    hclasses = {c.short for c in repo.subclasses(BASE)} | {BASE}
    for c_ in repo.subclasses(BASE):
        for m_ in c_.methods.values():
            if m_.is_static:
                BUILDERS.add(m_.name)  # every static builder of a handler class, also ones added later
    BUILDERS |= hclasses  # direct construction
    n_cf = 0
    for fi2 in repo.all_functions():
        for n in ast.walk(fi2.node):
            if not (isinstance(n, ast.Call) and call_name(n) == "get" and isinstance(n.func, ast.Attribute)):
                continue
            r = ast.unparse(n.func.value)
            if r.endswith("_protocol") or r == "protocol":
                cf = n.args[0] if n.args else None
            elif r.endswith("struct"):
                cf = n.args[1] if len(n.args) > 1 else None
            else:
                continue
            if cf is None:
                continue
            n_cf += 1
            what = ast.unparse(cf)[:60]

            def makes_request(e, owner, depth=0):
                """does evaluating the CALL expression `e` construct a request (a builder / handler class call, or a
                method of the owner class all of whose returns do)?"""
                if depth > 3 or not isinstance(e, ast.Call):
                    return False
                nm = call_name(e)
                if nm in BUILDERS:
                    return True
                if isinstance(e.func, ast.Attribute) and isinstance(e.func.value, ast.Name) and e.func.value.id == "self" and owner is not None:
                    m = repo.method(owner.short, nm, required=False)
                    if m is not None:
                        rets = [x.value for x in ast.walk(m.node) if isinstance(x, ast.Return) and x.value is not None]
                        return bool(rets) and all(makes_request(x, owner, depth + 1) for x in rets)
                if isinstance(e.func, ast.Name):
                    m = fi2.mod.functions.get(nm)
                    if m is not None:
                        rets = [x.value for x in ast.walk(m.node) if isinstance(x, ast.Return) and x.value is not None]
                        return bool(rets) and all(makes_request(x, None, depth + 1) for x in rets)
                return False

            def is_factory(e, depth=0):
                """does CALLING the value of `e` construct a request each time?"""
                if isinstance(e, ast.Lambda):
                    return makes_request(e.body, repo.instance_cls(fi2.cls))
                if isinstance(e, ast.Attribute):
                    # a bound method / a builder handed over as the factory: calling it is a call of that function
                    return makes_request(ast.Call(func=e, args=[], keywords=[]), repo.instance_cls(fi2.cls))
                if isinstance(e, ast.Call) and call_name(e) == "partial" and e.args:
                    return is_factory(e.args[0], depth + 1)    # functools.partial(f, ...): calling it calls f
                if isinstance(e, ast.Name) and e.id == "create_func":
                    return True  # forwarded parameter
                if isinstance(e, ast.Name):
                    # a function defined inside the caller (a named closure instead of a lambda)
                    inner = [x for x in ast.walk(fi2.node) if isinstance(x, (ast.FunctionDef, ast.AsyncFunctionDef)) and x.name == e.id and x is not fi2.node]
                    if len(inner) == 1:
                        rets = [x.value for x in ast.walk(inner[0]) if isinstance(x, ast.Return) and x.value is not None]
                        return bool(rets) and all(makes_request(x, repo.instance_cls(fi2.cls)) for x in rets)
                    # a local name bound once to a factory expression
                    binds = [x.value for x in ast.walk(fi2.node) if isinstance(x, ast.Assign) and len(x.targets) == 1 and isinstance(x.targets[0], ast.Name) and x.targets[0].id == e.id]
                    return len(binds) == 1 and depth < 2 and is_factory(binds[0], depth + 1)
                return False
            fresh = is_factory(cf)
            ctx.ob("R1", f"{fi2.qual}::create_func-{n_cf}::builds-fresh-request", fresh,
                   f"{fi2.qual}: the factory handed to {r}.get (`{what}`) does not construct a new request on each call: retries re-send one stale handler "
                   f"(its timeout clock started at construction, its sequence number is reused)", loc(fi2, n))
    ctx.floor("R1", "create_func arguments", n_cf, 9)



def protocol_get_model(ctx, repo, rule):
    """GeckoAsyncUdpProtocol.get by interpretation: the protocol object is built by its own constructor, its lock is
    replaced by a model lock, its transport by one that records datagrams; requests are model objects made by a counting
    factory whose wait_for_response answers on a chosen attempt (or never).  For budgets 0, 1, 3 and the default:
    one fresh request, one transmission and one wait per attempt, all three while the lock is held; the answered request
    is returned at once; None exactly when the budget is used up; the lock is free afterwards."""
    from ..absint import Interp, Native, Obj, Opaque, PyRaise, Undecided
    from .c16 import build_instance
    get = repo.own_method(PROTO, "get")
    _idle = repo.cls("_GeckoIdleConfig", False)
    cfgmod = _idle.mod if _idle is not None else repo.mod("config.py")
    default_budget = repo.try_fold(ast.parse("GeckoConfig.PROTOCOL_RETRY_COUNT", mode="eval").body, get.mod)
    if not isinstance(default_budget, int):
        idle = cfgmod.classes.get("_GeckoIdleConfig")
        default_budget = repo.try_fold(idle.consts.get("PROTOCOL_RETRY_COUNT"), cfgmod) if idle is not None and "PROTOCOL_RETRY_COUNT" in idle.consts else None
    n = 0
    for budget, answer_at in ((0, None), (1, None), (3, None), (3, 1), (3, 2), (3, 3), ("default", None)):
        it = Interp(repo, max_depth=10)
        log = []
        state = {"held": 0, "made": 0}
        proto = build_instance(repo, it, PROTO)
        lock = Obj(None, {"__enter__": Native(lambda a, k: state.__setitem__("held", state["held"] + 1)), "__exit__": Native(lambda a, k: state.__setitem__("held", state["held"] - 1)),
                          "locked": Native(lambda a, k: state["held"] > 0)}, name="lock")
        replaced = 0
        for k_, v_ in list(proto.attrs.items()):
            if (isinstance(v_, Obj) and v_.cls is not None and "Lock" in v_.cls.short) or (isinstance(v_, Opaque) and "Lock" in v_.name):
                proto.attrs[k_] = lock
                replaced += 1
        if not replaced:
            raise AnalysisError(f"{PROTO}: no lock attribute found on the constructed instance - the request lock cannot be modelled")
        proto.attrs["transport"] = Obj(None, {"sendto": Native(lambda a, k: log.append(("sendto", state["held"]))), "is_closing": Native(lambda a, k: False), "close": Native(lambda a, k: None)}, name="transport")
        proto.attrs["_transport"] = proto.attrs["transport"]
        requests = []

        def make(a, k, requests=requests, state=state, log=log, answer_at=answer_at):
            idx = len(requests) + 1
            if idx > 40:
                raise PyRaise("model: more than 40 attempts for a budget of at most 3 (the retry loop does not spend its budget)")
            r = Obj(None, {"send_bytes": b"REQ%d" % idx, "last_destination": None, "_idx": idx}, name=f"request{idx}")

            def wait(a2, k2, idx=idx):
                log.append(("wait", idx, state["held"], len(requests)))
                state["clock"] = state.get("clock", 500.0) + 1.0
                return answer_at is not None and idx == answer_at
            r.attrs["wait_for_response"] = Native(wait, "wait_for_response")
            requests.append(r)
            log.append(("create", idx, state["held"]))
            return r

        def hook(it_, node, callee, args, kwargs):
            nm = getattr(callee, "name", "")
            if nm in ("asyncio.sleep",) or getattr(getattr(callee, "fi", None), "name", "") == "config_sleep":
                log.append(("pause", state["held"]))
                state["clock"] = state.get("clock", 500.0) + 1.0
                return None
            if nm in ("time.monotonic", "time.time", "time.perf_counter"):
                return state.get("clock", 500.0)     # the model clock: a wait or a pause takes a second
            return NotImplemented
        it.call_hook = hook
        it.globals["GeckoConfig"] = Obj(cfgmod.classes.get("_GeckoIdleConfig"))
        kw = {} if budget == "default" else {"retry_count": budget}
        try:
            it.steps = 0
            ret = it.call(get, proto, [Native(make, "create_func"), ("10.1.2.3", 10022)], kw)
        except PyRaise as e:
            ret = f"raises {e.what}"
        except Undecided as e:
            raise AnalysisError(f"{get.qual} on the model protocol (budget {budget}, answer at {answer_at}): {e}")
        n += 1
        nb = default_budget if budget == "default" else budget
        if not isinstance(nb, int):
            raise AnalysisError(f"{get.qual}: the default retry budget GeckoConfig.PROTOCOL_RETRY_COUNT does not fold to an integer")
        attempts = answer_at if answer_at is not None else nb
        creates = [e for e in log if e[0] == "create"]
        sends = [e for e in log if e[0] == "sendto"]
        waits = [e for e in log if e[0] == "wait"]
        order = [e[0] for e in log if e[0] in ("create", "sendto", "wait")]
        key = f"{get.qual}::budget={budget}::answer-at={answer_at}"
        ctx.ob(rule, f"{key}::attempts", len(creates) == attempts and len(sends) == attempts and len(waits) == attempts and order == ["create", "sendto", "wait"] * attempts,
               f"{get.qual} with a retry budget of {nb}, the reply arriving {'never' if answer_at is None else f'on attempt {answer_at}'}: {len(creates)} request(s) built, {len(sends)} transmission(s), "
               f"{len(waits)} wait(s), in the order {order[:9]} - expected {attempts} attempt(s) of build, send, wait", get.loc,
               sample={"rule": rule, "budget": nb, "answer_at": answer_at, "attempts": len(waits)})
        ctx.ob(rule, f"{key}::waits-on-the-request-just-built", all(w[1] == w[3] for w in waits),
               f"{get.qual}: a wait is made on request {[w[1] for w in waits]} while {[w[3] for w in waits]} requests had been built: not the request just sent", get.loc)
        ctx.ob(rule, f"{key}::under-the-lock", all(e[-1] == 1 if e[0] != "wait" else e[2] == 1 for e in creates + sends + waits) and state["held"] == 0,
               f"{get.qual}: build / send / wait happen with the request lock held {[(e[0], e[2] if e[0] == 'wait' else e[-1]) for e in creates + sends + waits][:6]} times "
               f"(expected exactly once each) and the lock is held {state['held']} time(s) afterwards: two requests can be outstanding at once and steal each other's replies", get.loc)
        want = requests[answer_at - 1] if answer_at is not None and len(requests) >= answer_at else None
        ctx.ob(rule, f"{key}::result", ret is want,
               f"{get.qual} returns {ret!r}, expected {'the answered request' if want is not None else 'None (budget used up)'}", get.loc)
    ctx.count(f"{rule}:protocol.get scenarios interpreted", n)
    ctx.floor(rule, "protocol.get scenarios interpreted", n, 7)


def request_lock_delegates(ctx, repo, rule):
    """the request lock's own __aenter__ / __aexit__ (where the class defines them) await the asyncio lock's on EVERY path:
    an early return on the exception path of __aexit__ leaves the lock held for good - the transfer that was cancelled
    inside it is the last one the connection ever makes"""
    dl = repo.cls("DbgLock", required=False)
    if dl is not None:
        for nm in ("__aenter__", "__aexit__"):
            m = dl.methods.get(nm)
            if m is None:
                continue  # inherited: asyncio's own
            gm = cfg_of(m)
            sup = [n for n in gm.stmt_nodes() if n.suspends and any(
                call_name(c) == nm and isinstance(c.func.value, ast.Call) and ast.unparse(c.func.value.func) == "super" for c in n.calls())]
            ok = bool(sup) and any(gm.pdom(s, gm.entry) for s in sup)
            ctx.ob(rule, f"DbgLock.{nm}::delegates", ok, f"DbgLock.{nm} does not await super().{nm}() on every path (lock would not be taken/released)", m.loc)
        ctx.ob(rule, "DbgLock::is-asyncio-lock", any("Lock" in b for b in dl.bases), "DbgLock no longer derives from asyncio.Lock", dl.loc)



def check(ctx):
    repo = Repo()
    ctx.rule("R1", "GeckoAsyncUdpProtocol.get: loop bounded by retry_count (strict decrement on every cycle), request built fresh inside the loop, exactly one send per attempt, handler returned only on the wait_for_response-true edge, None on exhaustion, default bound = GeckoConfig.PROTOCOL_RETRY_COUNT")
    ctx.rule("R2", "lock discipline: every wait_for_response site and every request send of the async stack is lexically inside `async with <protocol>.Lock`; DbgLock delegates to asyncio.Lock on every path")
    ctx.rule("R3", "who may send: transport.sendto only in queue_send; queue_send in the async stack only inside the lock or at the two tabled exemptions")
    ctx.rule("R4", "gates: every GeckoAsyncSpa method that issues a command/query has is_connected and is_responding_to_pings as guards of the send (exempt: _connect, _ping_loop)")
    ctx.rule("R5", "wait_for_response: requires a positive timeout, yields every iteration; every request builder passes a timeout")

    ctx.rule("R6", "the status-block transfer is a request engine of its own and obeys the same bound: GeckoAsyncStructure.get has one loop governed by retry_count with a strict decrement on every cycle (whichever way the inner segment loop is left: timeout, gap, out-of-sequence final segment), one fresh request and one transmission per attempt")
    sget = operation_body(repo, repo.own_method("GeckoAsyncStructure", "get"))
    from ..pathrules import loop_heads as _lh
    if len(_lh(cfg_of(sget))) >= 2 and calls_named(cfg_of(sget), "queue_send"):
        retry_loop_rules(ctx, repo, sget, "R6", "protocol")
    else:
        ctx.note(f"{sget.qual}: retry/segment loop shape not recognised - its bound is decided by C01's model scenarios only")

    ctx.rule("R8", "every caller completes: the pause between two attempts sleeps on the configuration's shared future (config_sleep); a sleeper whose own delay runs out, or that is cancelled, must leave that future alone - a wait that cancels what it waited for throws CancelledError out of every OTHER sleeper, among them a request in its retry pause: it neither returns a reply nor reports failure (C17.R3's sleeper model borrowed)")
    from .c17 import sleeper_model as _sm6
    _sm6(ctx.borrowed("R8", "C17"), repo, "R3")
    ctx.rule("R9", "the configured budget is the budget in force: no parameter default of the package reads the runtime configuration object (a default is evaluated once, at import: `retry_count=GeckoConfig.PROTOCOL_RETRY_COUNT` in a signature keeps the import-time value whatever is configured later)")
    from .c17 import config_read_at_definition as _crad
    _crad(ctx, repo, "R9", skip_mods=("/driver/protocol/statusblock.py", "/driver/spastruct.py", "/driver/async_spastruct.py"))
    ctx.rule("R10", "a reply is returned only if one was delivered: the long-lived packet consumer re-queues what its handler holds after EVERY datagram - the handler must assign the extracted identifiers and content for every datagram it handles, a malformed one included (else the previous reply's content is queued a second time and a request the spa never answered takes it as its answer) (C07.R4's rule on the packet handler borrowed)")
    from .c07 import packet_fields_fresh as _pff
    _pff(ctx.borrowed("R10", "C07"), repo, "R4")
    ctx.rule("R11", "a reply only if one was delivered - also for the ping: every request waiter accepts only datagrams that START with one of its verbs (can_handle interpreted on truncated verbs, the empty datagram, bare tags): a waiter that takes a fragment reports a reply nobody sent, and the answered-ping evidence that opens every gate is refreshed by a spa that is silent (C07.R8's probes borrowed)")
    from .c07 import acceptance_by_complete_verb as _abcv6
    _abcv6(ctx.borrowed("R11", "C07"), repo, "R8")
    ctx.rule("R7", "a reply is only served to the request it was sent for: a reply that arrives after its request has given up is removed by the discard consumer after one polling interval also while the request lock is held (retry pause, queued callers) - otherwise it sits at the head and is handed to the next request of that verb at once (C07's discard-consumer model borrowed)")
    from .c07 import discard_consumer_model
    discard_consumer_model(ctx.borrowed("R7", "C07"), repo, "R7")

    # ---- R1 ---------------------------------------------------------------
    get = repo.own_method(PROTO, "get")
    protocol_get_model(ctx, repo, "R1")
    # the loop's shape, where it is the audited one (a `while retry_count > 0` / `for _ in range(retry_count)` loop): the
    # path rules add "on every path" to what the scenarios show; another shape is decided by the scenarios alone
    from ..pathrules import loop_heads as _lh1
    _g1 = cfg_of(get)
    _heads1 = [h_ for h_ in _lh1(_g1) if (h_.kind == "test" and "retry_count" in names_in(h_.ast)) or
               (h_.kind == "for" and isinstance(h_.ast.iter, ast.Call) and isinstance(h_.ast.iter.func, ast.Name) and h_.ast.iter.func.id == "range")]
    r = retry_loop_rules(ctx, repo, get, "R1", "self") if len(_heads1) == 1 else None
    if r is None and len(_heads1) != 1:
        ctx.note(f"{get.qual}: retry loop shape not the audited one - decided by the interpreted scenarios only")
    if r:
        g, h, req = r
        for n in g.stmt_nodes():
            if isinstance(n.ast, ast.Return):
                v = n.ast.value
                if v is None or (isinstance(v, ast.Constant) and v.value is None):
                    facts = g.guard_atoms(n)
                    ok = ("retry_count <= 0", True) in facts or n not in g.loop_body(h)
                    ctx.ob("R1", f"{get.qual}::none-only-after-loop", ok, f"{get.qual}: reports failure (L{n.lineno}) before the retry budget is used", loc(get, n.ast))
                else:
                    facts = g.iter_guard_atoms(n)
                    okw = any(p and "wait_for_response(" in t for t, p in facts)

                    def _canon(e):
                        try:
                            return ast.unparse(g.expand(e, at=n))
                        except RecursionError:
                            return ast.unparse(e)
                    same = ast.unparse(v) == req or _canon(v) == _canon(ast.parse(req, mode="eval").body)
                    # WHICH object is returned (the request just answered, not another one) is decided by the interpreted
                    # scenarios (`::result`); here: a non-None return lies behind a wait that came back true
                    ctx.ob("R1", f"{get.qual}::reply-only-if-delivered", okw,
                           f"{get.qual}: returns `{ast.unparse(v)}` (L{n.lineno}) on a path where no reply was delivered for this request; guards {sorted(facts)}",
                           loc(get, n.ast), sample={"rule": "R1", "return": ast.unparse(n.ast), "guards": sorted(map(str, facts))})
        # falls off the end -> None: acceptable only if annotated Optional; treat exit preds
        d = None
        a = get.node.args
        names = [x.arg for x in a.args]
        if "retry_count" in names:
            i = names.index("retry_count") - (len(names) - len(a.defaults))
            if i >= 0:
                d = ast.unparse(a.defaults[i])
        ctx.ob("R1", f"{get.qual}::default-bound", d is not None and d.endswith("PROTOCOL_RETRY_COUNT"),
               f"{get.qual}: default retry_count is `{d}`, not GeckoConfig.PROTOCOL_RETRY_COUNT", get.loc)

    fresh_request_factories(ctx, repo)

    # ---- R2 lock ------------------------------------------------------------
    nw = 0
    # the attribute the Lock property hands out: inside the protocol class `self.<that>` IS self.Lock
    lock_attrs = {"Lock"}
    lp = repo.method(PROTO, "Lock", required=False)
    if lp is not None:
        for x in ast.walk(lp.node):
            if isinstance(x, ast.Return) and isinstance(x.value, ast.Attribute) and isinstance(x.value.value, ast.Name) and x.value.value.id == "self":
                lock_attrs.add(x.value.attr)
    for fi in repo.all_functions():
        for n in walk_no_nested(fi.node):
            if isinstance(n, ast.Call) and call_name(n) == "wait_for_response" and fi.name != "wait_for_response":
                nw += 1
                arg = ast.unparse(n.args[0]) if n.args else ""

                def pred_for(f_, names, arg=arg):
                    a_here = names.get(arg, arg) if names else arg

                    def pred(e, w, f_=f_, a_here=a_here):
                        t = ast.unparse(e)
                        own = a_here == "self" and f_.cls is not None and f_.cls.short == PROTO
                        return isinstance(w, ast.AsyncWith) and (t == f"{a_here}.Lock" or (own and t in {f"self.{x_}" for x_ in lock_attrs}))
                    return pred

                ok = inside_lock_bracket(repo, fi, n, pred_for)
                ctx.ob("R2", f"{fi.qual}::wait-inside-lock", ok,
                       f"{fi.qual}: wait_for_response({arg}) is not inside `async with {arg}.Lock`: two requests can be outstanding at once and steal each other's replies",
                       loc(fi, n), sample={"rule": "R2", "site": f"{fi.qual} {loc(fi, n)}", "lock": f"{arg}.Lock", "inside": ok})
    ctx.floor("R2", "wait_for_response sites", nw, 2)
    # the lock must span the whole request *including its retries*: the retry loop sits inside the
    # `async with`, not the other way round (otherwise another caller's request - and a late reply
    # to the timed-out attempt - can interleave between two attempts of one request)
    for qual in (f"{PROTO}.get", "GeckoAsyncStructure.get"):
        fi = repo.func(qual)
        # the operation and the same-class helpers it awaits (an operation split into a wrapper and its body)
        parts = [fi]
        for _round in range(2):
            for f_ in list(parts):
                for n in walk_no_nested(f_.node):
                    if isinstance(n, ast.Await) and isinstance(n.value, ast.Call) and isinstance(n.value.func, ast.Attribute) \
                            and isinstance(n.value.func.value, ast.Name) and n.value.func.value.id == "self" and fi.cls is not None:
                        h_ = repo.all_methods(fi.cls).get(n.value.func.attr)
                        if h_ is not None and all(h_ is not p_ for p_ in parts):
                            parts.append(h_)
        withs = [(f_, n) for f_ in parts for n in walk_no_nested(f_.node) if isinstance(n, ast.AsyncWith) and any(is_lock_expr(it.context_expr, n) for it in n.items)]
        loops = [(f_, n) for f_ in parts for n in walk_no_nested(f_.node) if (isinstance(n, ast.While) and "retry_count" in ast.unparse(n.test))
                 or (isinstance(n, ast.For) and "retry_count" in ast.unparse(n.iter))]
        ok = False
        if len(withs) == 1 and len(loops) == 1:
            (wf, w), (lf, l_) = withs[0], loops[0]
            if wf is lf:
                ok = any(l_ is x for x in ast.walk(w))
            else:
                # the lock is taken in the wrapper around the (only) call of the helper that holds the loop
                ok = any(isinstance(x, ast.Call) and isinstance(x.func, ast.Attribute) and x.func.attr == lf.name for x in ast.walk(w))
        ctx.ob("R2", f"{qual}::lock-spans-all-attempts", ok,
               f"{qual}: the protocol lock does not enclose the whole retry loop (it is taken per attempt or not at all): between two attempts of one request other callers are served, "
               f"so requests are neither atomic nor served in arrival order, and a late reply can be taken by another caller", fi.loc)
    lockp = repo.own_method(PROTO, "Lock")
    ret = [x for x in ast.walk(lockp.node) if isinstance(x, ast.Return)]
    lock_attr = ast.unparse(ret[0].value) if ret else ""
    init = repo.own_method(PROTO, "__init__")
    mk = [x for x in ast.walk(init.node) if isinstance(x, ast.Assign) and ast.unparse(x.targets[0]) == lock_attr]
    ok = len(mk) == 1 and isinstance(mk[0].value, ast.Call) and call_name(mk[0].value) in ("DbgLock", "Lock")
    ctx.ob("R2", f"{PROTO}::one-lock-per-connection", ok, f"{PROTO}.Lock does not return a lock created once in __init__ ({lock_attr})", lockp.loc)
    others = [f.qual for f in repo.all_functions() if f.qual not in (init.qual,) and any(
        isinstance(x, ast.Attribute) and isinstance(x.ctx, ast.Store) and ast.unparse(x) == lock_attr for x in walk_no_nested(f.node)) and f.cls and f.cls.short == PROTO]
    ctx.ob("R2", f"{PROTO}::lock-never-replaced", not others, f"lock attribute reassigned in {others}")
    request_lock_delegates(ctx, repo, "R2")

    # ---- R3 who may send ----------------------------------------------------
    st = []
    for fi in repo.all_functions():
        for n in walk_no_nested(fi.node):
            if isinstance(n, ast.Call) and call_name(n) == "sendto":
                st.append((fi, n))
    ctx.floor("R3", "sendto sites", len(st), 2)
    allowed_sendto = {f"{PROTO}.queue_send", "GeckoUdpSocket._process_send_requests"}
    for fi, n in st:
        ctx.ob("R3", f"{fi.qual}::sendto", fi.qual in allowed_sendto, f"{fi.qual} writes to the socket directly; only {sorted(allowed_sendto)} may", loc(fi, n))
    nsend = 0
    for fi in repo.all_functions():
        in_async_stack = fi.is_async or (fi.cls is not None and "Async" in fi.cls.short)
        if not in_async_stack:
            continue
        for n in ast.walk(fi.node):
            if isinstance(n, ast.Call) and call_name(n) == "queue_send":
                nsend += 1
                if fi.qual in UNLOCKED_SENDS:
                    ctx.ob("R3", f"{fi.qual}::exempt-send", True, UNLOCKED_SENDS[fi.qual])
                    continue
                ok = inside_lock_bracket(repo, fi, n, lambda f_, names: (lambda e, w: isinstance(w, ast.AsyncWith) and is_lock_expr(e, w)))
                ctx.ob("R3", f"{fi.qual}::send-inside-lock", ok,
                       f"{fi.qual}: queue_send outside the protocol lock (not in the exemption table): a datagram can be transmitted while another request is in flight",
                       loc(fi, n))
    ctx.floor("R3", "queue_send sites in the async stack", nsend, 4)
    qs = repo.own_method(PROTO, "queue_send")
    gq = cfg_of(qs)
    for n, c in calls_named(gq, "sendto"):
        facts = gq.guard_atoms(n)
        # "open" as the isopen property defines it: the property itself, or the test its body returns
        open_atoms = {("self.isopen", True)}
        iop = repo.method(PROTO, "isopen", required=False)
        if iop is not None:
            from ..cfg import atoms as _atoms
            for r_ in ast.walk(iop.node):
                if isinstance(r_, ast.Return) and r_.value is not None:
                    open_atoms |= set(_atoms(r_.value, True))
        ctx.ob("R3", f"{qs.qual}::only-when-open", bool(open_atoms & set(facts)), f"{qs.qual}: sends although the transport may be closed; guards {sorted(facts)}", loc(qs, n.ast))

    # ---- R4 gates -------------------------------------------------------------
    spa = repo.cls("GeckoAsyncSpa")
    n_methods = 0
    for m in repo.all_methods(spa).values():
        g = cfg_of(m)
        sites = []
        for n in g.stmt_nodes():
            for c in n.calls():
                if call_name(c) == "get" and (receiver(c) or "") in ("self._protocol", "self.struct"):
                    sites.append((n, c))
                if call_name(c) == "queue_send":
                    sites.append((n, c))
        if not sites:
            continue
        n_methods += 1
        lq = f"GeckoAsyncSpa.{m.name}"     # the operation, wherever the hierarchy keeps its body (a mixin of the package)
        if lq in UNGATED:
            ctx.ob("R4", f"{m.qual}::exempt", True, UNGATED[lq])
            continue
        for n, c in sites:
            facts = g.iter_guard_atoms(n)
            for gate in ("self.is_connected", "self.is_responding_to_pings"):
                ctx.ob("R4", f"{m.qual}::{ast.unparse(c.func)}::{gate}", (gate, True) in facts,
                       f"{m.qual}: `{ast.unparse(c.func)}(...)` at L{n.lineno} can run while `{gate}` is false (no command/query may be sent then); guards {sorted(facts)}",
                       loc(m, n.ast), sample={"rule": "R4", "method": m.qual, "send": ast.unparse(c.func), "gates": sorted(t for t, p in facts if p)})
    ctx.floor("R4", "GeckoAsyncSpa methods that send", n_methods, 7)
    # the gate predicates themselves
    irp = repo.own_method("GeckoAsyncSpa", "is_responding_to_pings")
    txt = ast.unparse(irp.node)
    ctx.ob("R4", "is_responding_to_pings::derives-from-last-ping", "_last_ping" in txt and "PING_FREQUENCY_IN_SECONDS" in txt,
           "is_responding_to_pings no longer compares the age of the last ping with the ping frequency", irp.loc)
    ic = repo.own_method("GeckoAsyncSpa", "is_connected")
    from ..facts import connected_flag_stores as _cfs
    _con = repo.method("GeckoAsyncSpa", "_connect")
    _marks, _fa = _cfs(repo, "GeckoAsyncSpa", _con, True)
    ctx.ob("R4", "is_connected::reads-flag", bool(_fa) and bool(_marks),
           f"is_connected reads {sorted(_fa)}; no store in _connect makes it read True: the gate does not follow the connection", ic.loc)

    # ---- R4 (evidence): what opens the ping gate --------------------------------------------------------------
    # the attribute is_responding_to_pings is computed from may be advanced inside the ping loop only on the path where a
    # ping reply was actually received (the result of protocol.get is not None); any other write re-opens the gate
    # for commands although the spa is silent
    irp = repo.own_method("GeckoAsyncSpa", "is_responding_to_pings")
    ev_attrs = sorted({n.attr for n in ast.walk(irp.node) if isinstance(n, ast.Attribute) and isinstance(n.value, ast.Name) and n.value.id == "self" and n.attr not in ("_protocol",)
                       and not isinstance(getattr(repo.all_methods("GeckoAsyncSpa").get(n.attr), "node", None), (ast.FunctionDef, ast.AsyncFunctionDef))})
    if len(ev_attrs) != 1:
        ctx.error(f"{irp.qual}: ping evidence attribute not identified by role ({ev_attrs})")
    else:
        ev = ev_attrs[0]
        n_w = 0
        for fi2 in repo.all_methods("GeckoAsyncSpa").values():
            g2 = cfg_of(fi2)
            for n2 in g2.stmt_nodes():
                if not assigns_attr_(n2, f"self.{ev}"):
                    continue
                if isinstance(n2.ast, (ast.Assign, ast.AnnAssign)) and isinstance(n2.ast.value, ast.Constant) and n2.ast.value.value is None:
                    continue
                n_w += 1
                lp2 = g2.loop_of(n2)
                if lp2 is None:
                    continue  # the stamp taken once when the loop starts (the handshake just succeeded)
                facts2 = g2.guard_atoms(n2)
                got_reply = any((not p_) and t_.endswith(" is None") and any(isinstance(d_, ast.Await) or "protocol.get" in ast.unparse(d_) for d_ in [g2.single_defs().get(t_[:-8], (None, ast.Constant(value=0)))[1]]) for t_, p_ in facts2)
                ctx.ob("R4", f"{fi2.qual}::{ev}::advanced-only-on-reply", got_reply,
                       f"{fi2.qual}: `self.{ev}` (the evidence is_responding_to_pings is computed from) is advanced at L{n2.lineno} on a path where no ping reply was received (guards {sorted(facts2)}): "
                       f"the gate re-opens and commands/queries are sent to a spa that is not answering", loc(fi2, n2.ast))
        ctx.floor("R4", "writes of the ping evidence", n_w, 2)

    # ---- R5 -------------------------------------------------------------------
    # wait_for_response on a model queue with a model clock (vlib/handlermodel.py): when an attempt ends and what its
    # result means, for an own reply, a foreign datagram, an empty queue, a late reply, churning foreign traffic and a
    # zero timeout; the expiry test itself (age > timeout) is the handler life-cycle model's (C20.R? / loop_obligations)
    from ..handlermodel import wait_model
    w = repo.own_method(BASE, "wait_for_response")
    wait_model(ctx, repo, "R5", "R5")
    gw = cfg_of(w)
    heads = loop_heads(gw)
    for h in heads:
        avoid = [x for x in gw.loop_body(h) if x.suspends]
        ctx.ob("R5", f"{w.qual}::yields", h not in gw.reach_from(h, avoid=avoid), f"{w.qual}: polling loop has an iteration without a suspension point", w.loc)
    nb = 0
    # every request builder arms the timeout wait_for_response relies on: the request is built by interpretation and asked
    # when it times out (vlib/handlermodel.builder_armed) - whichever way the keyword reaches the constructor
    from ..handlermodel import builder_armed
    from . import c04 as _c04
    from ..absint import Interp as _I5, PyRaise as _P5, Undecided as _U5
    try:
        T_ = _I5(repo).eval(ast.parse("GeckoConfig.PROTOCOL_TIMEOUT_IN_SECONDS", mode="eval").body, {"__mod__": repo.method(BASE, "wait_for_response").mod, "__class__": None})
    except (_P5, _U5):
        T_ = None
    if not isinstance(T_, (int, float)):
        T_ = repo.try_fold(ast.parse("GeckoConfig.PROTOCOL_TIMEOUT_IN_SECONDS", mode="eval").body, (repo.cls("_GeckoIdleConfig", False) or repo.cls("_GeckoConfig")).mod)
    seen_b = set()
    for cname_, builder_, args_, _exp, _desc in _c04.message_table():
        if builder_ not in ("request", "full_request", "set", "set_value", "keypress") or (cname_, builder_) in seen_b:
            continue
        seen_b.add((cname_, builder_))
        m = repo.method(cname_, builder_)
        nb += 1
        pr = builder_armed(repo, cname_, builder_, args_)
        has = "raises" not in pr and pr["timeout"] is not None and pr["timeout"] > 0 and (T_ is None or pr["timeout"] == T_)
        ctx.ob("R5", f"{m.qual}::has-timeout", has,
               f"{m.qual} builds a request that {'raises ' + pr['raises'] if 'raises' in pr else 'times out after ' + str(pr['timeout']) + ' s'}; expected GeckoConfig.PROTOCOL_TIMEOUT_IN_SECONDS = {T_} "
               f"(with no timeout wait_for_response asserts; with another one the attempt's time bound is off)", m.loc)
    ctx.floor("R5", "request builders", nb, 9)
    ctx.assume("asyncio.Lock hands over in FIFO order and tasks interleave only at await")
