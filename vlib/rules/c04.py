"""C04 - wire format (filled in below; files_roundtrip_names is shared with C18)."""
from __future__ import annotations

from ..absint import Interp, Obj, PyRaise, Undecided
from ..core import AnalysisError


def build_message(repo, interp, cname, builder, args, kwargs=None):
    """Interpret static builder cname.builder(*args) of /repo and return the handler Obj."""
    fi = repo.method(cname, builder)
    return interp.call(fi, None, list(args), dict(kwargs or {}))


def files_roundtrip_names(ctx, repo, T, rule="R6"):
    """For every shipped (platform, cfg, log): the FILES reply built by /repo's own
    template from (GeckoPack.name, cfg, log), decoded by /repo's own FILES decoder, names
    the platform/cfg/log table modules that exist.  Both sides are interpreted by
    vlib.absint on constants taken from the tables (nothing is executed)."""
    interp = Interp(repo, max_depth=8)
    cname = "GeckoConfigFileProtocolHandler"
    handle = repo.method(cname, "handle")
    cls = repo.cls(cname)
    n = 0
    bad = 0
    for pack, cfg, log in T.combos():
        name = pack.props.get("name")
        key = f"{pack.stem}/cfg-{cfg.ver}/log-{log.ver}"
        try:
            interp.steps = 0
            msg = build_message(repo, interp, cname, "response", [name, cfg.ver, log.ver])
            content = msg.attrs.get("_content")
            if not isinstance(content, bytes):
                raise Undecided("FILES builder did not produce constant bytes")
            rx = Obj(cls)
            interp.call(handle, rx, [content, ("0.0.0.0", 0)])
            plat = rx.attrs.get("plateform_key")
            cv, lv = rx.attrs.get("config_version"), rx.attrs.get("log_version")
        except PyRaise as e:
            ctx.ob(rule, f"files::{key}", False, f"FILES reply for {name!r} C{cfg.ver} S{log.ver} does not decode: {e.what}")
            bad += 1
            continue
        except Undecided as e:
            raise AnalysisError(f"FILES round trip undecided for {key}: {e}")
        n += 1
        ok = (
            isinstance(plat, str)
            and plat.lower() == pack.stem
            and cv == cfg.ver
            and lv == log.ver
            and f"{plat.lower()}-cfg-{cv}" in T.modules
            and f"{plat.lower()}-log-{lv}" in T.modules
        )
        ctx.ob(rule, f"files::{key}", ok,
               f"FILES reply for {name!r} C{cfg.ver} S{log.ver} decodes to ({plat!r},{cv},{lv}) which does not name the shipped modules",
               sample={"rule": rule, "combo": key, "wire": content.decode("latin1"), "decoded": [plat, cv, lv]} if n % 200 == 1 else None)
    ctx.count("files_reply_round_trips", n)
    ctx.floor(rule, "platform x cfg x log combinations", n + bad, 600)
