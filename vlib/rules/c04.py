"""C04 - wire format: every message round-trips and is claimed by exactly its verb.

Deciding method: /repo's own builders are interpreted (vlib.absint) with SYMBOLIC field
values; the resulting symbolic byte string (vlib.symbytes) is fed to /repo's own
can_handle of every handler class (exclusivity) and to its own decoder, whose decoded
attributes are compared bit-by-bit with the field symbols.  One evaluation covers all
field values.  Framing regex, reply addressing, text parts and codec are decided by
constant folding + regex-AST inspection + interpretation of the split/unpack shape.
"""
from __future__ import annotations

import ast
import re

from ..absint import BV, BoundMethod, EnumMember, Interp, Native, Obj, Opaque, PyRaise, Undecided
from ..core import AnalysisError
from ..facts import loc
from ..src import Repo, Unfoldable, call_name, walk_no_nested
from ..symbytes import Blob, LenSym, SymBytes, bv_equals_field, field, sfield

BASE = "GeckoUdpProtocolHandler"
SENDER = ("10.1.2.3", 10022)
# twins / catch-alls that legitimately accept the same traffic, with reason
OVERLAP_OK = {
    frozenset(("GeckoPartialStatusBlockProtocolHandler", "GeckoAsyncPartialStatusBlockProtocolHandler")):
        "blocking and awaitable twin of the same STATP/STATQ conversation; never registered on the same connection",
}
CATCH_ALL = {"GeckoUnhandledProtocolHandler": "discard consumer: accepts everything by design, runs last (C07)"}


class _PayloadDependent:
    def __bool__(self):
        return True

    def __repr__(self):
        return "for some payloads"


PAYLOAD_DEPENDENT = _PayloadDependent()


def F(name, bits):
    return field(name, bits)


def build_message(repo, interp, cname, builder, args, kwargs=None):
    fi = repo.method(cname, builder)
    interp.steps = 0
    return interp.call(fi, None, list(args), dict(kwargs or {}))


def new_handler(repo, interp, cname, args=(), kwargs=None):
    cls = repo.cls(cname)
    from ..absint import ClassRef
    interp.steps = 0
    return interp.apply(ClassRef(cls), list(args), dict(kwargs or {}))


def wire_of(msg, interp=None):
    """content of a built message: the stored content, else what the (public) content property computes, else the
    stored raw datagram"""
    c = msg.attrs.get("_content")
    if c is None and interp is not None and getattr(msg, "cls", None) is not None:
        try:
            interp.steps = 0
            c = interp.getattr(msg, "content")
        except (PyRaise, Undecided):
            c = None
    if c is None:
        c = msg.attrs.get("_send_bytes")
    return c


# (class, builder, args-thunk, {decoded attr: expected}, description)
PUBLIC_ALIAS = {"_should_remove_handler": "should_remove_handler", "_spa_identifier": "spa_identifier", "_spa_name": "spa_name",
                "_client_identifier": "client_identifier", "_error_count": "total_error_count"}


def as_tuple(v):
    """a NamedTuple instance of the analysed program (a record with fields) read as the plain tuple it is"""
    if isinstance(v, Obj) and "__fields__" in v.attrs:
        return v._tuple()
    return v


def read_field(interp, rx, attr):
    """decoded field of a handler object: the attribute, or - when a refactoring moved it - the public
    property that exposes it (evaluated by interpretation)"""
    if attr in rx.attrs:
        return rx.attrs[attr]
    for cand in (attr, PUBLIC_ALIAS.get(attr), attr.lstrip("_")):
        if not cand:
            continue
        try:
            interp.steps = 0
            return interp.getattr(rx, cand)
        except (PyRaise, Undecided):
            continue
    return "<unset>"


def message_table():
    rem = [(1, sfield("days0", 16)), (3, sfield("days1", 16))]
    ch = [(F("pos0", 16), SymBytes.pack(">H", [F("w0", 16)])), (F("pos1", 16), SymBytes.pack(">H", [F("w1", 16)]))]
    return [
        ("GeckoPingProtocolHandler", "request", [], {}, "APING"),
        ("GeckoPingProtocolHandler", "response", [], {"_sequence": 0}, "APING reply"),
        ("GeckoVersionProtocolHandler", "request", [F("seq", 8)], {"_sequence": ("seq", 8)}, "AVERS"),
        ("GeckoVersionProtocolHandler", "response", [(F("enb", 16), F("enM", 8), F("enm", 8)), (F("cob", 16), F("coM", 8), F("com", 8))],
         {"en_build": ("enb", 16), "en_major": ("enM", 8), "en_minor": ("enm", 8), "co_build": ("cob", 16), "co_major": ("coM", 8), "co_minor": ("com", 8)}, "SVERS"),
        ("GeckoGetChannelProtocolHandler", "request", [F("seq", 8)], {"_sequence": ("seq", 8)}, "CURCH"),
        ("GeckoGetChannelProtocolHandler", "response", [F("chan", 8), F("sig", 8)], {"channel": ("chan", 8), "signal_strength": ("sig", 8)}, "CHCUR"),
        ("GeckoConfigFileProtocolHandler", "request", [F("seq", 8)], {"_sequence": ("seq", 8)}, "SFILE"),
        ("GeckoStatusBlockProtocolHandler", "request", [F("seq", 8), F("start", 16), F("length", 16)],
         {"sequence": ("seq", 8), "start": ("start", 16), "length": ("length", 16)}, "STATU"),
        ("GeckoStatusBlockProtocolHandler", "full_request", [F("seq", 8)], {"sequence": ("seq", 8), "start": 0, "length": 1024}, "STATU full"),
        ("GeckoStatusBlockProtocolHandler", "response", [F("idx", 8), F("nxt", 8), SymBytes.blob("block")],
         {"sequence": ("idx", 8), "next": ("nxt", 8), "length": ("len", "block"), "data": ("blob", "block")}, "STATV"),
        ("GeckoPackCommandProtocolHandler", "set_value", [F("seq", 8), F("pt", 8), F("cv", 8), F("lv", 8), F("pos", 16), 1, F("val", 8)],
         {"_sequence": ("seq", 8), "pack_type": ("pt", 8), "position": ("pos", 16), "is_set_value": True, "is_key_press": False,
          "new_data": ("bytes", SymBytes.pack(">B", [F("val", 8)]))}, "SPACK set 1 byte"),
        ("GeckoPackCommandProtocolHandler", "set_value", [F("seq", 8), F("pt", 8), F("cv", 8), F("lv", 8), F("pos", 16), 2, F("val", 16)],
         {"_sequence": ("seq", 8), "pack_type": ("pt", 8), "position": ("pos", 16), "is_set_value": True,
          "new_data": ("bytes", SymBytes.pack(">H", [F("val", 16)]))}, "SPACK set 2 bytes"),
        ("GeckoPackCommandProtocolHandler", "keypress", [F("seq", 8), F("pt", 8), F("key", 8)],
         {"_sequence": ("seq", 8), "pack_type": ("pt", 8), "keycode": ("key", 8), "is_key_press": True, "is_set_value": False}, "SPACK key"),
        ("GeckoPackCommandProtocolHandler", "response", [], {"_should_remove_handler": True}, "PACKS"),
        ("GeckoWatercareProtocolHandler", "request", [F("seq", 8)], {"_sequence": ("seq", 8), "schedule": False}, "GETWC"),
        ("GeckoWatercareProtocolHandler", "set", [F("seq", 8), F("mode", 8)], {"_sequence": ("seq", 8), "mode": ("mode", 8)}, "SETWC"),
        ("GeckoWatercareProtocolHandler", "response", [F("mode", 8)], {"mode": ("mode", 8), "_should_remove_handler": True}, "WCGET"),
        ("GeckoWatercareProtocolHandler", "giveschedule", [], {"_should_remove_handler": True}, "WCREQ"),
        ("GeckoRemindersProtocolHandler", "request", [F("seq", 8)], {"_sequence": ("seq", 8)}, "REQRM"),
        ("GeckoRemindersProtocolHandler", "response", [rem], {"reminders": ("reminders", [(1, "days0"), (3, "days1")])}, "RMREQ"),
        ("GeckoUpdateFirmwareProtocolHandler", "request", [F("seq", 8)], {"_sequence": ("seq", 8)}, "UPDTS"),
        ("GeckoUpdateFirmwareProtocolHandler", "response", [], {"_should_remove_handler": True}, "SUPDT"),
        ("GeckoRFErrProtocolHandler", "response", [], {"total_error_count": 1}, "RFERR"),
        ("GeckoPartialStatusBlockProtocolHandler", "report_changes", [None, ch],
         {"changes": ("changes", [("pos0", "w0"), ("pos1", "w1")])}, "STATP"),
        ("GeckoHelloProtocolHandler", "broadcast", [], {"was_broadcast_discovery": True}, "HELLO 1"),
        ("GeckoHelloProtocolHandler", "client", [b"IOS02ac6d28"], {"_client_identifier": b"IOS02ac6d28", "was_broadcast_discovery": False}, "HELLO client"),
        ("GeckoHelloProtocolHandler", "response", [b"SPA01:02:03:04:05:06", "My Spa"],
         {"_spa_identifier": b"SPA01:02:03:04:05:06", "_spa_name": "My Spa"}, "HELLO reply"),
        # the shape a spa answers with: active reminders followed by padding slots that all carry the same (invalid) type
        ("GeckoRemindersProtocolHandler", "response", [[(1, sfield("days0", 16)), (0, sfield("days1", 16)), (3, sfield("days2", 16)), (0, sfield("days3", 16)), (0, sfield("days4", 16))]],
         {"reminders": ("reminders", [(1, "days0"), (0, "days1"), (3, "days2"), (0, "days3"), (0, "days4")])}, "RMREQ with repeated types"),
    ]


def compare(exp, got):
    """-> (ok, message)"""
    if isinstance(exp, tuple) and len(exp) == 2 and isinstance(exp[0], str) and isinstance(exp[1], int):
        return bv_equals_field(got, exp[0], exp[1])
    if isinstance(exp, tuple) and exp[0] == "len":
        return (isinstance(got, LenSym) and got.blob == exp[1] and got.k == 0), f"decoded {got!r}, expected len({exp[1]})"
    if isinstance(exp, tuple) and exp[0] == "blob":
        ok = isinstance(got, SymBytes) and got.cells == [Blob(exp[1])]
        return ok, f"decoded payload {got!r}, expected exactly the {exp[1]} payload"
    if isinstance(exp, tuple) and exp[0] == "bytes":
        ok = isinstance(got, SymBytes) and got.cells == exp[1].cells
        return ok, f"decoded bytes {got!r}, expected {exp[1]!r}"
    if isinstance(exp, tuple) and exp[0] == "reminders":
        if not isinstance(got, list) or len(got) != len(exp[1]):
            return False, f"decoded {got!r}"
        for (t, dn), g in zip(exp[1], got):
            if not (isinstance(g, tuple) and len(g) == 2 and isinstance(g[0], EnumMember) and g[0].value == t):
                return False, f"reminder type decoded as {g!r}, expected type {t}"
            ok, msg = bv_equals_field(g[1], dn, 16, signed=True)
            if not ok:
                return False, f"reminder days: {msg}"
        return True, ""
    if isinstance(exp, tuple) and exp[0] == "changes":
        if not isinstance(got, list) or len(got) != len(exp[1]):
            return False, f"decoded {len(got) if isinstance(got, list) else got!r} change records, expected {len(exp[1])}"
        for (pn, wn), g in zip(exp[1], got):
            ok, msg = bv_equals_field(g[0], pn, 16)
            if not ok:
                return False, f"change position: {msg}"
            want = SymBytes.pack(">H", [F(wn, 16)]).cells
            if not (isinstance(g[1], SymBytes) and g[1].cells == want):
                return False, f"change data decoded as {g[1]!r}"
        return True, ""
    if isinstance(got, BV):
        return False, f"decoded a symbolic value where constant {exp!r} expected"
    return got == exp, f"decoded {got!r}, expected {exp!r}"


def handler_classes(repo):
    return sorted([c for c in repo.subclasses(BASE) if "can_handle" in {m for k in repo.mro(c) for m in k.methods}
                   and c.mod.rel.startswith("src/geckolib/driver/protocol/")], key=lambda c: c.short)


def fresh_handler(repo, interp, c, sock=None):
    if c.short in ("GeckoPartialStatusBlockProtocolHandler", "GeckoAsyncPartialStatusBlockProtocolHandler"):
        return new_handler(repo, interp, c.short, [sock])
    if c.short == "GeckoHelloProtocolHandler":
        return new_handler(repo, interp, c.short, [b"1"])
    return new_handler(repo, interp, c.short)


def can_handle(repo, interp, c, obj, wire):
    fi = repo.method(c.short, "can_handle")
    interp.steps = 0
    try:
        r = interp.call(fi, obj, [wire, SENDER])
    except Undecided as e:
        if "depends on the payload" in str(e):
            return PAYLOAD_DEPENDENT     # truthy: the handler claims the message for some payloads
        raise
    if not isinstance(r, bool):
        raise Undecided(f"can_handle returned {r!r}")
    return r


STR_SAMPLES = ("", "SIM-0123456789", "a|b\n<DATAS>\xff,\x00 ")           # names: separators, tag-like text, every latin-1 range
BYTES_SAMPLES = (b"", b"\x00\n</DATAS>|\xff", bytes(range(256)))


def _param_kinds(bfi, params):
    kinds = {}
    ann = {p.arg: (ast.unparse(p.annotation) if p.annotation is not None else "") for p in bfi.node.args.args}
    for p in params:
        a = ann.get(p, "")
        kinds[p] = "str" if a in ("str", "Optional[str]") else "bytes" if a in ("bytes", "bytearray") else "int"
    return kinds


def auto_round_trip(ctx, repo, interp, classes, b):
    """-> None when the generic round trip of an untabled builder is established, else the reason it is not.
    Integer fields are symbolic 8-bit values; text and byte-string fields (by annotation, or when the builder treats a
    field as text) take sample values with separators, tag-like text and every byte range."""
    cname, bname = b
    bfi = repo.method(cname, bname)
    a = bfi.node.args
    if a.vararg is not None or a.posonlyargs:
        return "unusual signature"
    params = [p.arg for p in a.args[: len(a.args) - len(a.defaults)]]
    kinds = _param_kinds(bfi, params)
    why = _auto_round_trip(ctx, repo, interp, classes, b, params, kinds)
    if why is not None and "attribute" in why and " of BV" in why and all(k == "int" for k in kinds.values()):
        # an unannotated field the builder encodes / joins: text, else a byte string
        for alt in ("str", "bytes"):
            for p in params:
                w2 = _auto_round_trip(ctx, repo, interp, classes, b, params, dict(kinds, **{p: alt}))
                if w2 is None:
                    return None
    return why


def _auto_round_trip(ctx, repo, interp, classes, b, params, kinds):
    cname, bname = b
    rounds = max([len(STR_SAMPLES) if k == "str" else len(BYTES_SAMPLES) if k == "bytes" else 1 for k in kinds.values()] or [1])
    for i in range(rounds):
        want = {}
        for p in params:
            k = kinds[p]
            want[p] = STR_SAMPLES[i % len(STR_SAMPLES)] if k == "str" else BYTES_SAMPLES[i % len(BYTES_SAMPLES)] if k == "bytes" else F(f"{bname}_{p}", 8)
        try:
            msg = build_message(repo, interp, cname, bname, [want[p] for p in params])
            wire = wire_of(msg, interp)
            if wire is None:
                return "the builder produced no content"
            wire = SymBytes.of(wire)
            if wire.concrete() is not None:
                wire = wire.concrete()
            accept = []
            for c in classes:
                if c.short in CATCH_ALL:
                    continue
                if can_handle(repo, interp, c, fresh_handler(repo, interp, c), wire):
                    accept.append(c.short)
            if accept != [cname]:
                return f"the message is claimed by {accept or 'nobody'}"
            sock = Obj(None, {"queue_send": Native(lambda a_, k_: None), "get_and_increment_sequence_counter": Native(lambda a_, k_: F("ackseq", 8))}, name="socket")
            rx = fresh_handler(repo, interp, repo.cls(cname), sock)
            interp.steps = 0
            interp.call(repo.method(cname, "handle"), rx, [wire, SENDER])
        except (PyRaise, Undecided) as e:
            return f"interpretation stopped: {e}"
        for p in params:
            found = False
            for attr in list(rx.attrs):
                if kinds[p] == "int":
                    ok, _ = compare((f"{bname}_{p}", 8), rx.attrs[attr])
                else:
                    got = rx.attrs[attr]
                    ok = type(got) is type(want[p]) and got == want[p]
                if ok:
                    found = True
                    break
            if not found:
                return f"parameter `{p}` ({kinds[p]}; sample {want[p]!r}) is not recovered by the decoder"
    ctx.ob("R2", f"{cname}.{bname}[auto]::round-trip", True, "", sample={"rule": "R2", "builder": f"{cname}.{bname}", "mode": "auto-derived", "fields": params, "kinds": kinds})
    return None


def _field_of(v):
    """(name, bits) when v is a plain symbolic field as field()/sfield() make them"""
    if not isinstance(v, BV):
        return None
    b0 = v.bits[0]
    if b0.top or len(b0.syms) != 1 or not b0.syms[0].endswith("[0]"):
        return None
    name = b0.syms[0][:-3]
    n = 0
    while n < len(v.bits) and v.bits[n].is_sym(f"{name}[{n}]"):
        n += 1
    return (name, n)


def _fields_in(x, out):
    f = _field_of(x)
    if f:
        out.setdefault(f[0], f[1])
    elif isinstance(x, (list, tuple)):
        for y in x:
            _fields_in(y, out)
    elif isinstance(x, SymBytes) and x.concrete() is None:
        raise Undecided("symbolic byte string in the arguments")
    return out


def _subst(x, val):
    f = _field_of(x)
    if f:
        return val[f[0]]
    if isinstance(x, tuple):
        return tuple(_subst(y, val) for y in x)
    if isinstance(x, list):
        return [_subst(y, val) for y in x]
    return x


def _sweep_values(bits):
    return list(range(256)) if bits <= 8 else [0, 1, 255, 256, 0x1234, 0x7FFF, 0x8000, 0xFFFE, 0xFFFF]


def concrete_sweep(ctx, repo, interp, classes, row, why):
    """A builder or decoder whose control flow depends on a field's value (`mode or DEFAULT`, `if seq:`) cannot be
    carried through on symbolic fields; the round trip is then decided on concrete values instead: every value of each
    8-bit field (boundary and sample values of a 16-bit one) while the other fields hold distinct samples."""
    cname, builder, args, expect, desc = row
    key = f"{cname}.{builder}[{desc}]"
    bfi = repo.method(cname, builder)
    try:
        fields = _fields_in(args, {})
    except Undecided as e:
        raise AnalysisError(f"{key}: cannot interpret symbolically ({why}) nor sweep concretely ({e})")
    if not fields:
        raise AnalysisError(f"{key}: cannot interpret: {why}")
    base = {n: (0x5A + 17 * i) & ((1 << b) - 1) for i, (n, b) in enumerate(sorted(fields.items()))}
    n = 0
    bad = []
    for fname, bits in sorted(fields.items()):
        for v in _sweep_values(bits):
            val = dict(base, **{fname: v})
            n += 1
            try:
                msg = build_message(repo, interp, cname, builder, _subst(args, val))
                wire = wire_of(msg, interp)
                wire = SymBytes.of(wire).concrete() if wire is not None else None
                if wire is None:
                    bad.append((fname, v, "no concrete content"))
                    continue
                accept = [c.short for c in classes if c.short not in CATCH_ALL and can_handle(repo, interp, c, fresh_handler(repo, interp, c), wire)]
                if cname not in accept or [a for a in accept if a != cname and frozenset((a, cname)) not in OVERLAP_OK]:
                    bad.append((fname, v, f"claimed by {accept or 'nobody'}"))
                    continue
                sock = Obj(None, {"queue_send": Native(lambda a_, k_: None), "get_and_increment_sequence_counter": Native(lambda a_, k_: 7)}, name="socket")
                rx = fresh_handler(repo, interp, repo.cls(cname), sock)
                interp.steps = 0
                interp.call(repo.method(cname, "handle"), rx, [wire, SENDER])
            except PyRaise as e:
                bad.append((fname, v, f"raises {e.what}"))
                continue
            except Undecided as e:
                raise AnalysisError(f"{key}: concrete sweep {fname}={v}: {e}")
            for attr, exp in expect.items():
                got = read_field(interp, rx, attr)
                if isinstance(exp, tuple) and len(exp) == 2 and isinstance(exp[0], str) and isinstance(exp[1], int):
                    want = val[exp[0]]
                elif isinstance(exp, tuple):
                    continue
                else:
                    want = exp
                if not (got == want and isinstance(got, (int, bool, bytes, str))):
                    bad.append((fname, v, f"`{attr}` decoded as {got!r}, built from {want!r}"))
    ctx.count(f"R2:concrete_sweep:{cname}.{builder}", n)
    ctx.ob("R2", f"{key}::concrete-sweep", not bad,
           f"{desc}: {cname}.{builder} -> handle does not round-trip for {len(bad)} of {n} swept field valuations, e.g. "
           + "; ".join(f"{f}={v}: {w}" for f, v, w in bad[:3]), bfi.loc,
           sample={"rule": "R2", "message": desc, "mode": "concrete sweep", "valuations": n, "failing": [list(map(str, b)) for b in bad[:5]]})


def payload_lengths_sweep(ctx, repo, interp, row, why):
    """a message carrying a byte-string payload, built and decoded with concrete payloads of lengths 0, 1, 2, 38, 39, 40 and
    255 (bytes of every kind: NUL, newline, blank, 0xFF) while the numeric fields hold distinct samples: every expected
    field - the payload and its length among them - must come back as built"""
    cname, builder, args, expect, desc = row
    key = f"{cname}.{builder}[{desc}]"
    bfi = repo.method(cname, builder)
    nums = {}
    for a_ in args:
        f_ = _field_of(a_)
        if f_:
            nums.setdefault(f_[0], f_[1])
    base = {n: (0x21 + 13 * i) & ((1 << b) - 1) for i, (n, b) in enumerate(sorted(nums.items()))}
    bad, n = [], 0
    for ln in (0, 1, 2, 38, 39, 40, 255):
        data = bytes(([0, 10, 32, 255, 0x3C, 0x27] * 50)[:ln])
        cargs = [data if (isinstance(a_, SymBytes) and a_.concrete() is None) else _subst(a_, base) for a_ in args]
        n += 1
        try:
            msg = build_message(repo, interp, cname, builder, cargs)
            wire = wire_of(msg, interp)
            wire = SymBytes.of(wire).concrete() if wire is not None else None
            if wire is None:
                bad.append((ln, "no concrete content"))
                continue
            sock = Obj(None, {"queue_send": Native(lambda a_, k_: None), "get_and_increment_sequence_counter": Native(lambda a_, k_: 7)}, name="socket")
            rx = fresh_handler(repo, interp, repo.cls(cname), sock)
            interp.steps = 0
            interp.call(repo.method(cname, "handle"), rx, [wire, SENDER])
        except PyRaise as e:
            bad.append((ln, f"raises {e.what}"))
            continue
        except Undecided as e:
            raise AnalysisError(f"{key}: cannot interpret symbolically ({why}) nor with a concrete {ln}-byte payload ({e})")
        for attr, exp in expect.items():
            got = read_field(interp, rx, attr)
            if isinstance(exp, tuple) and exp and exp[0] == "len":
                want = ln
            elif isinstance(exp, tuple) and exp and exp[0] == "blob":
                want = data
            elif isinstance(exp, tuple) and len(exp) == 2 and isinstance(exp[0], str) and isinstance(exp[1], int):
                want = base[exp[0]]
            elif isinstance(exp, tuple):
                continue
            else:
                want = exp
            got = bytes(got) if isinstance(got, (bytearray, memoryview)) else got
            if got != want:
                bad.append((ln, f"`{attr}` decoded as {got!r}, built from {want!r}"))
    ctx.count(f"R2:payload_lengths_sweep:{cname}.{builder}", n)
    ctx.ob("R2", f"{key}::payload-lengths", not bad,
           f"{desc}: {cname}.{builder} -> handle does not round-trip for payload lengths {sorted({b[0] for b in bad})}, e.g. " + "; ".join(f"{ln} bytes: {w}" for ln, w in bad[:3]),
           bfi.loc, sample={"rule": "R2", "message": desc, "mode": "concrete payload lengths", "lengths": n})


def round_trips(ctx, repo):
    interp = Interp(repo, max_depth=10)
    classes = handler_classes(repo)
    ctx.floor("R1", "handler classes", len(classes), 12)
    table = message_table()
    # every static builder of every handler class must be in the table (exhaustiveness)
    builders = set()
    for c in classes:
        for nm, m in c.methods.items():
            if m.is_static and not nm.startswith("_") and nm not in ("broadcast_address",):
                builders.add((c.short, nm))
    covered = {(c, b) for c, b, *_ in table} | {("GeckoConfigFileProtocolHandler", "response")}  # FILES: R6, all 895 combos
    for b in sorted(builders - covered):
        # a builder that only delegates to covered builders of its own class emits messages of a covered kind
        bm = repo.method(*b)
        rets = [x.value for x in ast.walk(bm.node) if isinstance(x, ast.Return)]
        def _delegates(v):
            return isinstance(v, ast.Call) and isinstance(v.func, ast.Attribute) and (b[0], v.func.attr) in covered and \
                (ast.unparse(v.func.value) in (b[0], "cls") or ast.unparse(v.func.value).endswith(b[0]))
        if rets and all(_delegates(v) for v in rets):
            ctx.count(f"R2:delegating_builder:{b[0]}.{b[1]}", 1)
            continue
        # a message kind added after the audit: derive its round trip generically - every positional parameter is a
        # symbolic 8-bit field, the message must be claimed by its own class only, and each field must come back,
        # bit for bit, in some attribute of the decoding handler.  Anything less than that: ANALYSIS-ERROR.
        why = auto_round_trip(ctx, repo, interp, classes, b)
        if why is None:
            ctx.count(f"R2:auto_round_trip:{b[0]}.{b[1]}", 1)
            continue
        ctx.error(f"builder {b[0]}.{b[1]} is not covered by the round-trip table, does not delegate to a covered builder, and its round trip could not be derived automatically ({why}): the analysis must be extended before C04 can be decided")
    ctx.floor("R2", "message builders", len(builders), 24)

    socks = {}
    verbs_emitted = {}
    for cname, builder, args, expect, desc in table:
        key = f"{cname}.{builder}[{desc}]"
        bfi = repo.method(cname, builder, required=False)
        if bfi is None:
            ctx.error(f"builder {cname}.{builder} vanished")
            continue
        try:
            msg = build_message(repo, interp, cname, builder, args)
        except PyRaise as e:
            ctx.ob("R2", f"{key}::builds", False, f"{cname}.{builder} raises {e.what} for in-range field values", bfi.loc)
            continue
        except Undecided as e:
            # control flow or a library call that needs a concrete value (`if seq:`, chr(seq)): decided on concrete values;
            # the sweep itself reports what cannot be interpreted even then
            concrete_sweep(ctx, repo, interp, classes, (cname, builder, args, expect, desc), f"the builder: {e}")
            continue
        wire = wire_of(msg, interp)
        if wire is None:
            ctx.ob("R2", f"{key}::builds", False, f"{cname}.{builder} produced no content", bfi.loc)
            continue
        wire = SymBytes.of(wire)
        verb = bytes(c for c in wire.cells[:7] if isinstance(c, int))
        verb = verb[:5] if not verb.startswith(b"<") else verb
        if wire.concrete() is not None:
            wire = wire.concrete()
        verbs_emitted[key] = verb
        # R1: accepted by exactly its own class
        accept = []
        for c in classes:
            if c.short in CATCH_ALL:
                continue
            try:
                obj = fresh_handler(repo, interp, c)
                if can_handle(repo, interp, c, obj, wire):
                    accept.append(c.short)
            except (Undecided, PyRaise) as e:
                raise AnalysisError(f"{c.short}.can_handle on {desc}: {e}")
        own = cname in accept
        ctx.ob("R1", f"{key}::accepted-by-own-handler", own,
               f"message {desc} ({verb!r}) built by {cname}.{builder} is accepted by no handler of its own class (accepted by: {accept or 'nobody'}): the peer cannot receive it",
               bfi.loc, sample={"rule": "R1", "message": desc, "verb": verb.decode("latin1"), "accepted_by": accept})
        others = [a for a in accept if a != cname and frozenset((a, cname)) not in OVERLAP_OK]
        ctx.ob("R1", f"{key}::exclusive", not others, f"message {desc} is also claimed by {others}", bfi.loc)
        if not own:
            continue
        # R2: decode and compare
        c = repo.cls(cname)
        captured = []
        sock = Obj(None, {
            "queue_send": Native(lambda a, k: captured.append(a)),
            "get_and_increment_sequence_counter": Native(lambda a, k: F("ackseq", 8) if a == [False] else F("BADKIND", 8)),
        }, name="socket")
        try:
            rx = fresh_handler(repo, interp, c, sock)
            hfi = repo.method(cname, "handle")
            interp.steps = 0
            interp.call(hfi, rx, [wire, SENDER])
        except PyRaise as e:
            ctx.ob("R2", f"{key}::decodes", False, f"{cname}.handle raises {e.what} on the message built by {builder} ({desc})", repo.method(cname, "handle").loc)
            continue
        except Undecided as e:
            if any(isinstance(a_, SymBytes) and a_.concrete() is None for a_ in args):
                # a payload of unknown length handled in a way the symbolic bytes do not carry (a slice counted from the
                # end, a strip): decided on concrete payloads of every interesting length instead, the empty one included
                payload_lengths_sweep(ctx, repo, interp, (cname, builder, args, expect, desc), f"the decoder: {e}")
                continue
            concrete_sweep(ctx, repo, interp, classes, (cname, builder, args, expect, desc), f"the decoder: {e}")
            continue
        for attr, exp in expect.items():
            got = read_field(interp, rx, attr)
            ok, why = compare(exp, got)
            ctx.ob("R2", f"{key}::{attr}", ok,
                   f"{desc}: field `{attr}` does not round-trip through {cname}.{builder} -> handle: {why}", repo.method(cname, "handle").loc,
                   sample={"rule": "R2", "message": desc, "field": attr, "ok": ok} if attr in ("sequence", "position", "reminders") else None)
        if builder == "report_changes":
            # the acknowledgement the decoder sent
            ok = len(captured) == 1
            why = f"{len(captured)} acknowledgements"
            if ok:
                ack = wire_of(captured[0][0])
                ack = SymBytes.of(ack)
                want = SymBytes.of(b"STATQ") + SymBytes.pack(">B", [F("ackseq", 8)])
                ok = ack.cells == want.cells
                why = f"acknowledgement is {ack!r}"
                # and it decodes with the same class
                rx2 = fresh_handler(repo, interp, c, sock)
                interp.call(repo.method(cname, "handle"), rx2, [ack, SENDER])
                ok2, why2 = bv_equals_field(rx2.attrs.get("sequence"), "ackseq", 8)
                ctx.ob("R2", f"{key}::ack-decodes", ok2, f"STATQ acknowledgement does not decode to its sequence: {why2}", repo.method(cname, "handle").loc)
            ctx.ob("R2", f"{key}::ack-layout", ok, f"STATP acknowledgement: {why}", repo.method(cname, "handle").loc)
    # ---- persistent handlers: decoding message Y after message X on the SAME handler instance must
    # give Y's fields - nothing decoded from X may survive (listening handlers are long-lived:
    # the simulator and the consume tasks keep one instance per verb family)
    by_class = {}
    for row in table:
        by_class.setdefault(row[0], []).append(row)
    n_pairs = 0
    n_iso = 0
    for cname, rows in sorted(by_class.items()):
        wires = []
        for _c, builder, args, expect, desc in rows:
            try:
                msg = build_message(repo, interp, cname, builder, args)
                w = wire_of(msg, interp)
                if w is None:
                    continue
                w = SymBytes.of(w)
                if w.concrete() is not None:
                    w = w.concrete()
                ok_own = can_handle(repo, interp, repo.cls(cname), fresh_handler(repo, interp, repo.cls(cname)), w)
            except (PyRaise, Undecided):
                continue
            if ok_own:
                wires.append((builder, desc, w, expect))
        c = repo.cls(cname)
        for bx, dx, wx, _ex in wires:
            for by, dy, wy, ey in wires:
                if dx == dy:
                    continue
                sock = Obj(None, {"queue_send": Native(lambda a, k: None),
                                  "get_and_increment_sequence_counter": Native(lambda a, k: F("ackseq", 8))}, name="socket")
                try:
                    rx = fresh_handler(repo, interp, c, sock)
                    hfi = repo.method(cname, "handle")
                    interp.steps = 0
                    interp.call(hfi, rx, [wx, SENDER])
                    interp.steps = 0
                    interp.call(hfi, rx, [wy, SENDER])
                except PyRaise as e:
                    ctx.ob("R2", f"{cname}[{dx} then {dy}]::decodes", False, f"{cname}.handle raises {e.what} decoding {dy} after {dx} on one handler instance", repo.method(cname, "handle").loc)
                    continue
                except Undecided as e:
                    raise AnalysisError(f"{cname} [{dx} then {dy}]: {e}")
                n_pairs += 1
                for attr, exp in ey.items():
                    if attr in ("_should_remove_handler", "_error_count", "total_error_count") or (isinstance(exp, tuple) and exp and exp[0] in ("changes", "reminders")):
                        continue  # accumulating / life-cycle attributes are C05 / C11 / C20 matters
                    got = read_field(interp, rx, attr)
                    ok, why = compare(exp, got)
                    ctx.ob("R2", f"{cname}[{dx} then {dy}]::{attr}", ok,
                           f"decoding {dy} after {dx} on the same (long-lived) {cname} instance gives `{attr}` wrong: {why} - state decoded from the earlier message survives", repo.method(cname, "handle").loc)
        # instance isolation: what one handler instance decoded is not part of what ANOTHER instance of the class decodes
        # (two connections, or the simulator and a client in one process) - all fields, accumulating ones included
        for by, dy, wy, ey in wires:
            bx, dx, wx, _ex = wires[0] if wires[0][1] != dy or len(wires) == 1 else wires[1]
            sock = Obj(None, {"queue_send": Native(lambda a, k: None),
                              "get_and_increment_sequence_counter": Native(lambda a, k: F("ackseq", 8))}, name="socket")
            try:
                hfi = repo.method(cname, "handle")
                rx1 = fresh_handler(repo, interp, c, sock)
                interp.steps = 0
                interp.call(hfi, rx1, [wx, SENDER])
                rx2 = fresh_handler(repo, interp, c, sock)
                interp.steps = 0
                interp.call(hfi, rx2, [wy, SENDER])
            except PyRaise as e:
                ctx.ob("R2", f"{cname}[{dy} on a second instance]::decodes", False, f"{cname}.handle raises {e.what} decoding {dy} on a fresh instance after another instance decoded {dx}", repo.method(cname, "handle").loc)
                continue
            except Undecided as e:
                raise AnalysisError(f"{cname} [{dy} on a second instance]: {e}")
            n_iso += 1
            for attr, exp in ey.items():
                if attr in ("_should_remove_handler", "_error_count", "total_error_count"):
                    continue
                got = read_field(interp, rx2, attr)
                ok, why = compare(exp, got)
                ctx.ob("R2", f"{cname}[{dy} on a second instance]::{attr}", ok,
                       f"a fresh {cname} decoding {dy} after ANOTHER instance decoded {dx} gives `{attr}` wrong: {why} - decoded state is shared between instances of the class", repo.method(cname, "handle").loc)
    ctx.count("R2:sequential_decode_pairs", n_pairs)
    ctx.floor("R2", "sequential decode pairs", n_pairs, 20)
    ctx.floor("R2", "second-instance decodes", n_iso, 15)

    # async partial handler decodes the same STATP
    try:
        msg = build_message(repo, interp, "GeckoPartialStatusBlockProtocolHandler", "report_changes", [None, message_table()[23][2][1]])
        wire = SymBytes.of(wire_of(msg))
        captured = []
        proto = Obj(None, {"queue_send": Native(lambda a, k: captured.append(a)),
                           "get_and_increment_sequence_counter": Native(lambda a, k: F("ackseq", 8))})
        rx = new_handler(repo, interp, "GeckoAsyncPartialStatusBlockProtocolHandler", [proto])
        interp.call(repo.method("GeckoAsyncPartialStatusBlockProtocolHandler", "async_handle"), rx, [wire, SENDER])
        ok, why = compare(("changes", [("pos0", "w0"), ("pos1", "w1")]), rx.attrs.get("changes"))
        ctx.ob("R2", "GeckoAsyncPartialStatusBlockProtocolHandler.async_handle::changes", ok, f"async STATP decode: {why}")
    except (PyRaise, Undecided) as e:
        raise AnalysisError(f"async STATP decode: {e}")
    return verbs_emitted


def verb_table(ctx, repo):
    """R1a: every *_VERB constant is 5 bytes and decoders slice exactly that much."""
    verbs = {}
    for m in repo.all_mods():
        if "/driver/protocol/" not in m.rel:
            continue
        for nm, ex in m.consts.items():
            if nm.endswith("_VERB"):
                v = repo.try_fold(ex, m)
                verbs[nm] = v
                ctx.ob("R1", f"verb::{nm}", isinstance(v, bytes) and len(v) == 5, f"{nm} = {v!r} is not a 5-byte verb", m.rel)
    ctx.floor("R1", "verb constants", len(verbs), 20)
    vals = [v for v in verbs.values() if isinstance(v, bytes)]
    ctx.ob("R1", "verbs::distinct", len(set(vals)) == len(vals), "two verb constants have the same value")
    n = 0
    for c in handler_classes(repo):
        for hn in ("handle", "async_handle"):
            h = c.methods.get(hn)
            if h is None:
                continue
            params_ = [a_.arg for a_ in h.node.args.posonlyargs + h.node.args.args]
            rb_ = params_[1] if len(params_) > 1 else "received_bytes"      # the datagram: the first parameter after self, whatever it is called
            for node in ast.walk(h.node):
                if isinstance(node, ast.Assign) and isinstance(node.value, ast.Subscript) and ast.unparse(node.value.value) == rb_:
                    sl = node.value.slice
                    if isinstance(sl, ast.Slice) and sl.upper is None and sl.lower is not None and len(node.targets) == 1 and isinstance(node.targets[0], ast.Name):
                        n += 1
                        ctx.ob("R1", f"{h.qual}::verb-offset", repo.try_fold(sl.lower, h.mod, h.cls) == 5, f"{h.qual}: payload sliced at {ast.unparse(sl.lower)}, verbs are 5 bytes", loc(h, node))
    ctx.floor("R1", "payload slice sites", n, 6)
    return verbs


def framing(ctx, repo):
    interp = Interp(repo, max_depth=8)
    cname = "GeckoPacketProtocolHandler"
    # the framing tags: module constants *_OPEN / *_CLOSE of the module that defines the packet handler (or, when they were
    # moved, of whichever protocol module defines them)
    m = repo.cls(cname).mod
    tags = {k: repo.try_fold(v, m) for k, v in m.consts.items() if k.endswith("_OPEN") or k.endswith("_CLOSE")}
    if "PACKET_OPEN" not in tags:
        for m2 in repo.all_mods():
            for k, v in m2.consts.items():
                if (k.endswith("_OPEN") or k.endswith("_CLOSE")) and k not in tags:
                    tags[k] = repo.try_fold(v, m2)
    # R4 (iii): send_bytes layout with symbolic identifiers and payload
    msg = new_handler(repo, interp, cname, [], {"parms": ("ip", 1, SymBytes.blob("P2"), SymBytes.blob("P3")), "content": SymBytes.blob("payload")})
    sb = interp.call(repo.method(cname, "send_bytes"), msg, [])
    cells = SymBytes.of(sb).cells

    def between(open_, close_):
        o, c = list(tags[open_]), list(tags[close_])
        for i in range(len(cells)):
            if cells[i:i + len(o)] == o:
                j = i + len(o)
                k = j
                while k < len(cells) and cells[k:k + len(c)] != c:
                    k += 1
                return cells[j:k]
        return None

    src, dst, dat = between("SRCCN_OPEN", "SRCCN_CLOSE"), between("DESCN_OPEN", "DESCN_CLOSE"), between("DATAS_OPEN", "DATAS_CLOSE")
    sfi = repo.method(cname, "send_bytes")
    ctx.ob("R4", "send_bytes::source-is-parms3", src == [Blob("P3")], f"send_bytes puts {src} between the SRCCN tags, expected parms[3] (our own identifier as received in DESCN)", sfi.loc,
           sample={"rule": "R4", "SRCCN": repr(src), "DESCN": repr(dst), "DATAS": repr(dat)})
    ctx.ob("R4", "send_bytes::destination-is-parms2", dst == [Blob("P2")], f"send_bytes puts {dst} between the DESCN tags, expected parms[2] (the peer's identifier as received in SRCCN)", sfi.loc)
    ctx.ob("R4", "send_bytes::payload", dat == [Blob("payload")], f"send_bytes puts {dat} between the DATAS tags", sfi.loc)
    want_outer = list(tags["PACKET_OPEN"])
    ctx.ob("R4", "send_bytes::packet-tags", cells[:len(want_outer)] == want_outer and cells[-len(tags["PACKET_CLOSE"]):] == list(tags["PACKET_CLOSE"]),
           "send_bytes is not wrapped in <PACKT>..</PACKT>", sfi.loc)
    order = [i for i, c in enumerate(cells) if isinstance(c, Blob)]
    ctx.ob("R4", "send_bytes::section-order", [cells[i].name for i in order] == ["P3", "P2", "payload"], "sections are not in the order SRCCN, DESCN, DATAS", sfi.loc)
    # R4 (ii): handle stores (ip, port, group1, group2)
    rx = new_handler(repo, interp, cname)
    sliced = []

    def hook(ip, node, callee, args, kwargs):
        if isinstance(callee, BoundMethod) and callee.fi.name == "_extract_packet_parts":
            sliced.append(args[0])
            return (SymBytes.blob("G1"), SymBytes.blob("G2"), SymBytes.blob("G3"))
        return NotImplemented

    interp.call_hook = hook
    wire = SymBytes.of(tags["PACKET_OPEN"]) + SymBytes.blob("inner") + SymBytes.of(tags["PACKET_CLOSE"])
    interp.call(repo.method(cname, "handle"), rx, [wire, ("1.2.3.4", 99)])
    interp.call_hook = None
    hfi = repo.method(cname, "handle")
    p = as_tuple(read_field(interp, rx, "_parms"))
    ok = isinstance(p, tuple) and len(p) == 4 and p[0] == "1.2.3.4" and p[1] == 99 and p[2] == SymBytes.blob("G1") and p[3] == SymBytes.blob("G2")
    ctx.ob("R4", "handle::parms-orientation", ok, f"handle stores parms {p!r}, expected (sender ip, sender port, <SRCCN group>, <DESCN group>)", hfi.loc)
    ctx.ob("R4", "handle::content", rx.attrs.get("_packet_content") == SymBytes.blob("G3"), "handle does not keep the DATAS group as packet content", hfi.loc)
    ctx.ob("R4", "handle::strips-packet-tags", bool(sliced) and SymBytes.of(sliced[0]).cells == [Blob("inner")],
           f"handle passes {sliced[0] if sliced else None!r} to the extractor instead of the bytes between <PACKT> and </PACKT>", hfi.loc)
    # swap: reply with parms=<received parms> => SRCCN = received DESCN, DESCN = received SRCCN  (follows from the two facts above)
    # end to end, nothing hooked: the frame send_bytes built, handed to a fresh handler's handle(), gives back the
    # identifiers and - for ANY payload - exactly the payload (the regex is applied symbolically, vlib.symregex; strip()
    # and friends on a payload are adversarial: a payload byte at the frontier is lost)
    rx2 = new_handler(repo, interp, cname)
    try:
        interp.steps = 0
        interp.call(repo.method(cname, "handle"), rx2, [sb, ("1.2.3.4", 99)])
        p2 = as_tuple(read_field(interp, rx2, "_parms"))
        got = (p2[2] if isinstance(p2, tuple) and len(p2) == 4 else None, p2[3] if isinstance(p2, tuple) and len(p2) == 4 else None, read_field(interp, rx2, "_packet_content"))
    except PyRaise as e:
        got = (f"raises {e.what}",) * 3
    except Undecided as e:
        raise AnalysisError(f"{cname}.handle on the frame send_bytes built: {e}")
    want3 = (SymBytes.blob("P3"), SymBytes.blob("P2"), SymBytes.blob("payload"))
    for nm, g, w in zip(("source-identifier", "destination-identifier", "payload"), got, want3):
        ctx.ob("R4", f"frame-round-trip::{nm}", isinstance(g, SymBytes) and g.cells == w.cells,
               f"a frame built by send_bytes and handed to handle() gives back {g!r} as its {nm}, expected exactly {w!r}: "
               f"for some payload / identifier bytes the receiver sees something other than what was framed", hfi.loc,
               sample={"rule": "R4", "part": nm, "decoded": repr(g)})

    # R4 (i) + R5: the regex
    efi = repo.method(cname, "_extract_packet_parts")
    pat = None
    flags = None

    def from_call(n, first_is_pattern=True):
        p_ = repo.try_fold(n.args[0], efi.mod) if n.args else None
        rest = n.args[2:] if ast.unparse(n.func) != "re.compile" else n.args[1:]
        fl = [ast.unparse(a) for a in rest] + [ast.unparse(k.value) for k in n.keywords if k.arg == "flags"]
        return p_, fl

    for n in ast.walk(efi.node):
        if isinstance(n, ast.Call) and ast.unparse(n.func) in ("re.search", "re.match", "re.fullmatch"):
            pat, flags = from_call(n)
        elif isinstance(n, ast.Call) and isinstance(n.func, ast.Attribute) and n.func.attr in ("search", "match", "fullmatch") and isinstance(n.func.value, ast.Name):
            # precompiled pattern: a module-level (or local) NAME = re.compile(...)
            src = efi.mod.consts.get(n.func.value.id)
            if src is None:
                for a in ast.walk(efi.node):
                    if isinstance(a, ast.Assign) and ast.unparse(a.targets[0]) == n.func.value.id:
                        src = a.value
            if isinstance(src, ast.Call) and ast.unparse(src.func) == "re.compile":
                pat, flags = from_call(src)
    if not isinstance(pat, bytes):
        # one level down: a module function the extractor delegates to, a module-level precompiled pattern
        for n0 in ast.walk(efi.node):
            if isinstance(n0, ast.Call) and isinstance(n0.func, ast.Name) and n0.func.id in efi.mod.functions:
                helper = efi.mod.functions[n0.func.id]
                for n in ast.walk(helper.node):
                    if isinstance(n, ast.Call) and ast.unparse(n.func) in ("re.search", "re.match", "re.fullmatch"):
                        pat, flags = from_call(n)
                    elif isinstance(n, ast.Call) and isinstance(n.func, ast.Attribute) and n.func.attr in ("search", "match", "fullmatch") and isinstance(n.func.value, ast.Name):
                        src = efi.mod.consts.get(n.func.value.id)
                        if isinstance(src, ast.Call) and ast.unparse(src.func) == "re.compile":
                            pat, flags = from_call(src)
    if not isinstance(pat, bytes):
        # the pattern is not visible as a constant: the end-to-end round trip above (symbolic regex: no DOTALL -> no
        # match, a greedy group before the last overruns, a lazy last group is cut) is the decision
        ctx.note("framing regex not found as a constant pattern: R5 is decided by the symbolic frame round trip (R4 frame-round-trip::*) only")
        return tags
    ctx.ob("R5", "regex::dotall", any("DOTALL" in f or f.endswith("re.S") for f in flags or []),
           "framing regex is compiled without re.DOTALL: payloads containing a newline byte do not match", efi.loc)
    import re._parser as sre
    tree = sre.parse(pat.decode("latin1"))
    seq = []
    lit = ""
    for op, av in tree:
        if str(op) == "LITERAL":
            lit += chr(av)
        else:
            if lit:
                seq.append(("lit", lit))
                lit = ""
            if str(op) == "SUBPATTERN":
                inner = av[3]
                kind = "?"
                if len(inner) == 1 and str(inner[0][0]) in ("MAX_REPEAT", "MIN_REPEAT"):
                    lazy = str(inner[0][0]) == "MIN_REPEAT"
                    body = inner[0][1][2]
                    if len(body) == 1 and str(body[0][0]) == "ANY":
                        kind = "lazy-any" if lazy else "greedy-any"
                    elif len(body) == 1 and str(body[0][0]) == "IN":
                        kind = "class"
                seq.append(("group", kind))
            else:
                seq.append(("other", str(op)))
    if lit:
        seq.append(("lit", lit))
    lits = [v for k, v in seq if k == "lit"]
    want = [(tags["SRCCN_OPEN"]), (tags["SRCCN_CLOSE"] + tags["DESCN_OPEN"]), (tags["DESCN_CLOSE"] + tags["DATAS_OPEN"]), tags["DATAS_CLOSE"]]
    ctx.ob("R4", "regex::group-order", [l.encode("latin1") for l in lits] == want and [k for k, v in seq] == ["lit", "group", "lit", "group", "lit", "group", "lit"],
           f"framing regex skeleton {seq} is not SRCCN(group)DESCN(group)DATAS(group)", efi.loc)
    groups = [v for k, v in seq if k == "group"]
    ctx.floor("R5", "regex groups", len(groups), 3)
    for i, gk in enumerate(groups[:-1]):
        ctx.ob("R5", f"regex::group{i + 1}-cannot-overrun", gk in ("lazy-any", "class"),
               f"capture group {i + 1} of the framing regex is greedy `(.*)` although more unconstrained groups follow: a DATAS payload containing "
               f"`{(lits[i + 1] if i + 1 < len(lits) else '')}` moves the split point into the payload, so identifiers and content decode to something other than what was sent",
               efi.loc, sample={"rule": "R5", "pattern": pat.decode("latin1"), "groups": groups})
    if groups:
        ctx.ob("R5", "regex::last-group-greedy", groups[-1] == "greedy-any",
               "the DATAS group is not greedy: a payload containing </DATAS> would be truncated", efi.loc)
    # no-match => (None, None, None)
    return tags


def text_parts(ctx, repo):
    """R6: fixed-arity unpacking of an unbounded split; witness via interpretation."""
    interp = Interp(repo, max_depth=8)
    n_sites = 0
    for c in handler_classes(repo):
        for h in c.methods.values():
            for n in walk_no_nested(h.node):
                if isinstance(n, ast.Assign) and isinstance(n.targets[0], (ast.Tuple, ast.List)) and isinstance(n.value, ast.Call) and call_name(n.value) == "split":
                    n_sites += 1
                    arity = len(n.targets[0].elts)
                    call = n.value
                    maxsplit = None
                    if len(call.args) >= 2:
                        maxsplit = repo.try_fold(call.args[1])
                    for kw in call.keywords:
                        if kw.arg == "maxsplit":
                            maxsplit = repo.try_fold(kw.value)
                    ctx.ob("R6", f"{h.qual}::split-arity", maxsplit == arity - 1,
                           f"{h.qual}: `{ast.unparse(n)}` unpacks an unbounded split into {arity} targets: a value containing the separator "
                           f"{ast.unparse(call.args[0]) if call.args else ''} (e.g. a spa name with '|') raises ValueError instead of decoding", loc(h, n))
    ctx.floor("R6", "fixed-arity split sites", n_sites, 1)
    # witnesses: names with separator / latin-1 characters
    cname = "GeckoHelloProtocolHandler"
    for name in ("My|Spa", "Café über", "a|b|c"):
        key = f"hello-reply::{name.encode('unicode_escape').decode()}"
        try:
            msg = build_message(repo, interp, cname, "response", [b"SPA01:02:03:04:05:06", name])
            rx = new_handler(repo, interp, cname, [b"1"])
            interp.steps = 0
            interp.call(repo.method(cname, "handle"), rx, [wire_of(msg), SENDER])
            _gi, _gn = read_field(interp, rx, "_spa_identifier"), read_field(interp, rx, "_spa_name")
            ok = _gi == b"SPA01:02:03:04:05:06" and _gn == name
            why = f"decoded ({_gi!r}, {_gn!r})"
        except PyRaise as e:
            ok, why = False, f"decoder raises {e.what}"
        except Undecided as e:
            raise AnalysisError(f"hello reply: {e}")
        ctx.ob("R6", key, ok, f"HELLO reply for spa name {name!r}: {why}", repo.method(cname, "handle").loc)


class _Captured(Exception):
    def __init__(self, value):
        self.value = value


def hello_payload_extraction(ctx, repo, rule="R6"):
    """The HELLO decoder must hand exactly the bytes between <HELLO> and </HELLO> to its
    parser - for ANY payload.  The wire is built with a symbolic payload; the value the
    decoder first inspects (startswith/split/...) must be that payload, untouched."""
    interp = Interp(repo, max_depth=8)
    cname = "GeckoHelloProtocolHandler"
    m = repo.cls(cname).mod
    op = cl = None
    for m2 in [m] + list(repo.all_mods()):
        if "HELLO_OPEN" in m2.consts and "HELLO_CLOSE" in m2.consts:
            op, cl = repo.try_fold(m2.consts.get("HELLO_OPEN"), m2), repo.try_fold(m2.consts.get("HELLO_CLOSE"), m2)
            break
    if not isinstance(op, bytes) or not isinstance(cl, bytes):
        raise AnalysisError("HELLO_OPEN/HELLO_CLOSE constants not found")
    wire = SymBytes.of(op) + SymBytes.blob("payload") + SymBytes.of(cl)

    def attr_hook(ip, base, attr):
        if isinstance(base, SymBytes) and any(isinstance(c, Blob) for c in base.cells) and attr in ("startswith", "split", "decode", "endswith", "partition", "find", "index"):
            raise _Captured(base)
        return NotImplemented

    interp.attr_hook = attr_hook
    rx = new_handler(repo, interp, cname, [b"1"])
    hfi = repo.method(cname, "handle")
    got = None
    try:
        interp.steps = 0
        interp.call(hfi, rx, [wire, SENDER])
    except _Captured as c:
        got = c.value
    except PyRaise as e:
        ctx.ob(rule, "hello::payload-extraction", False, f"HELLO decoder raises {e.what} on a framed payload", hfi.loc)
        return
    except Undecided as e:
        raise AnalysisError(f"HELLO payload extraction: {e}")
    ok = got is not None and got.cells == [Blob("payload")]
    ctx.ob(rule, "hello::payload-extraction", ok,
           f"the HELLO decoder parses {got!r} instead of exactly the bytes between {op!r} and {cl!r}: payload bytes can be lost or framing bytes kept "
           f"(e.g. strip() with a character set eats trailing name characters)", hfi.loc,
           sample={"rule": rule, "wire": repr(wire), "parsed": repr(got)})


def reply_addressing_model(ctx, repo, rule):
    """the long-lived packet handler, built by its constructor on a recording socket, is given frames from three
    conversations one after the other: two from the SAME (ip, port) with different identifier pairs, one from another
    address.  For each frame the parms it hands on (and keeps) are (ip, port, the frame's source id, the frame's
    destination id) - what every reply is addressed with - and a reply built with them carries the identifiers swapped."""
    cname = "GeckoPacketProtocolHandler"
    interp = Interp(repo, max_depth=10)
    seen = []
    sock = Obj(None, {"dispatch_recevied_data": Native(lambda a, k: seen.append((a[0], a[1])), "dispatch")}, name="socket")
    convs = [(("10.0.0.9", 10022), b"IOS11111111-aaaa", b"SPA66:77:88:99:aa:bb"), (("10.0.0.9", 10022), b"IOS33333333-cccc", b"SPA66:77:88:99:aa:bb"),
             (("10.0.0.9", 10022), b"IOS33333333-cccc", b"SPA00:11:22:33:44:55"), (("10.0.0.7", 4444), b"IOS11111111-aaaa", b"SPA66:77:88:99:aa:bb")]
    bad = None
    try:
        rx = new_handler(repo, interp, cname, [], {"socket": sock})
        for i, (addr, src, dst) in enumerate(convs):
            frame = b"<PACKT><SRCCN>" + src + b"</SRCCN><DESCN>" + dst + b"</DESCN><DATAS>APING\x00</DATAS></PACKT>"
            interp.steps = 0
            interp.call(repo.method(cname, "handle"), rx, [frame, addr])
            want = (addr[0], addr[1], src, dst)
            kept = as_tuple(read_field(interp, rx, "parms"))
            passed = as_tuple(seen[-1][1]) if len(seen) == i + 1 else None
            kept = tuple(kept) if isinstance(kept, (list, tuple)) else kept
            passed = tuple(passed) if isinstance(passed, (list, tuple)) else passed
            if (kept != want or passed != want) and bad is None:
                bad = (i, want, kept, passed)
                continue
            reply = new_handler(repo, interp, cname, [], {"parms": kept, "content": b"APING\x00"})
            wire = interp.getattr(reply, "send_bytes")
            wire = SymBytes.of(wire).concrete()
            if wire is None or (b"<SRCCN>" + dst + b"</SRCCN>") not in wire or (b"<DESCN>" + src + b"</DESCN>") not in wire:
                bad = bad or (i, want, kept, wire)
    except PyRaise as e:
        bad = (len(seen), "raises", e.what, None)
    except Undecided as e:
        raise AnalysisError(f"{cname}: reply addressing on a recording socket: {e}")
    ctx.ob(rule, f"{cname}.handle::parms-of-this-frame", bad is None,
           f"{cname}.handle, one handler instance, frame {bad[0] + 1 if bad else ''} of four conversations (two of them from one address with different identifiers): expected parms {bad[1] if bad else ''}, "
           f"kept {bad[2] if bad else ''}, handed on / reply {bad[3] if bad else ''} - a reply built from a received packet must carry THAT packet's identifiers, swapped",
           repo.method(cname, "handle").loc, sample={"rule": rule, "conversations": len(convs)})


def codec(ctx, repo):
    enc = repo.try_fold(ast.parse("GeckoConstants.MESSAGE_ENCODING", mode="eval").body)
    import codecs
    ok = False
    try:
        ci = codecs.lookup(enc)
        ok = ci.name in ("iso8859-1", "latin-1", "latin1")
    except Exception:
        pass
    ctx.ob("R7", "MESSAGE_ENCODING::single-byte-total", ok,
           f"GeckoConstants.MESSAGE_ENCODING = {enc!r} is not latin-1: not every byte value decodes (identifiers and names are arbitrary bytes)")
    n = 0
    for fi in repo.all_functions():
        if "/utils/" in fi.mod.rel:
            continue
        for node in walk_no_nested(fi.node):
            if isinstance(node, ast.Call) and call_name(node) in ("encode", "decode") and isinstance(node.func, ast.Attribute):
                n += 1
                # the codec named at the site, by value (the shared constant, a module constant of its own, a literal):
                # what matters is that every byte value is carried, not how the name is spelled
                vals = [repo.try_fold(x, fi.mod, fi.cls) for x in list(node.args)[:1] + [k.value for k in node.keywords if k.arg == "encoding"]]
                total = False
                for v in vals:
                    try:
                        total = isinstance(v, str) and codecs.lookup(v).name in ("iso8859-1", "latin-1", "latin1")
                    except LookupError:
                        total = False
                if not total and _only_diagnostics(fi, node):
                    ctx.count("R7:conversions that stay inside diagnostics (logging, counters)", 1)
                    continue
                ctx.ob("R7", f"{fi.qual}::{call_name(node)}-{_nth(fi, node)}", total,
                       f"{fi.qual}: `{ast.unparse(node)[:70]}` does not name a codec that carries every byte value (latin-1, as GeckoConstants.MESSAGE_ENCODING; "
                       f"found {vals!r}; the default utf-8 cannot carry arbitrary bytes)", loc(fi, node))
    ctx.floor("R7", "encode/decode sites", n, 8)


def _only_diagnostics(fi, site):
    """True when the text made by the conversion `site` provably stays inside diagnostics: it is held in local names only
    and every use of those names is an argument of a logging call, a dictionary key (`d[k]`, `d.get(k, ..)`), a
    comparison / test, or the making of another such local (concatenation, formatting).  Anything else - returned,
    stored on an object, passed to another call, joined into bytes - may reach a message or the decoded state, and the
    codec rule applies."""
    from ..src import is_logging_call
    parents = {}
    for n in ast.walk(fi.node):
        for c in ast.iter_child_nodes(n):
            parents[id(c)] = n

    def stmt_of(n):
        while n is not None and not isinstance(n, ast.stmt):
            n = parents.get(id(n))
        return n

    def pure_text(e, inner):
        """e builds a text from `inner` by concatenation / formatting only"""
        if e is inner:
            return True
        if isinstance(e, ast.BinOp) and isinstance(e.op, (ast.Add, ast.Mod)):
            return any(pure_text(x, inner) for x in (e.left, e.right))
        if isinstance(e, ast.JoinedStr):
            return any(isinstance(v, ast.FormattedValue) and pure_text(v.value, inner) for v in e.values)
        if isinstance(e, ast.IfExp):
            return pure_text(e.body, inner) or pure_text(e.orelse, inner)
        return False
    st = stmt_of(site)
    if not (isinstance(st, ast.Assign) and len(st.targets) == 1 and isinstance(st.targets[0], ast.Name) and pure_text(st.value, site)):
        return False
    tracked, work = {st.targets[0].id}, [st.targets[0].id]
    while work:
        nm = work.pop()
        for n in ast.walk(fi.node):
            if not (isinstance(n, ast.Name) and n.id == nm and isinstance(n.ctx, ast.Load)):
                continue
            par = parents.get(id(n))
            # up through pure text building
            top = n
            while isinstance(par, (ast.BinOp, ast.JoinedStr, ast.FormattedValue, ast.IfExp)) and not (isinstance(par, ast.IfExp) and par.test is top):
                top, par = par, parents.get(id(par))
            if isinstance(par, ast.Call) and is_logging_call(par) and top in par.args:
                continue
            if isinstance(par, ast.Subscript) and par.slice is top:
                continue
            if isinstance(par, ast.Call) and isinstance(par.func, ast.Attribute) and par.func.attr in ("get", "setdefault", "pop") and par.args and par.args[0] is top:
                continue
            if isinstance(par, ast.Compare) or (isinstance(par, (ast.If, ast.While, ast.IfExp)) and getattr(par, "test", None) is top):
                continue
            if isinstance(par, ast.Assign) and len(par.targets) == 1 and isinstance(par.targets[0], ast.Name) and par.value is top:
                if par.targets[0].id not in tracked:
                    tracked.add(par.targets[0].id)
                    work.append(par.targets[0].id)
                continue
            return False
    return True


def _nth(fi, node):
    i = 0
    for n in walk_no_nested(fi.node):
        if isinstance(n, ast.Call) and call_name(n) in ("encode", "decode"):
            if n is node:
                return i
            i += 1
    return i


def files_roundtrip_names(ctx, repo, T, rule="R6"):
    """For every shipped (platform, cfg, log): the FILES reply built by /repo's own
    template from (GeckoPack.name, cfg, log), decoded by /repo's own FILES decoder, names
    the platform/cfg/log table modules that exist.  Both sides are interpreted by
    vlib.absint on constants taken from the tables (nothing is executed)."""
    interp = Interp(repo, max_depth=8)
    cname = "GeckoConfigFileProtocolHandler"
    handle = repo.method(cname, "handle")
    cls = repo.cls(cname)
    n = 0
    bad = 0
    for pack, cfg, log in T.combos():
        name = pack.props.get("name")
        key = f"{pack.stem}/cfg-{cfg.ver}/log-{log.ver}"
        try:
            interp.steps = 0
            msg = build_message(repo, interp, cname, "response", [name, cfg.ver, log.ver])
            content = msg.attrs.get("_content")
            if not isinstance(content, bytes):
                raise Undecided("FILES builder did not produce constant bytes")
            rx = Obj(cls)
            interp.call(handle, rx, [content, ("0.0.0.0", 0)])
            plat = rx.attrs.get("plateform_key")
            cv, lv = rx.attrs.get("config_version"), rx.attrs.get("log_version")
        except PyRaise as e:
            ctx.ob(rule, f"files::{key}", False, f"FILES reply for {name!r} C{cfg.ver} S{log.ver} does not decode: {e.what}")
            bad += 1
            continue
        except Undecided as e:
            raise AnalysisError(f"FILES round trip undecided for {key}: {e}")
        n += 1
        ok = (
            isinstance(plat, str)
            and plat.lower() == pack.stem
            and cv == cfg.ver
            and lv == log.ver
            and f"{plat.lower()}-cfg-{cv}" in T.modules
            and f"{plat.lower()}-log-{lv}" in T.modules
        )
        ctx.ob(rule, f"files::{key}", ok,
               f"FILES reply for {name!r} C{cfg.ver} S{log.ver} decodes to ({plat!r},{cv},{lv}) which does not name the shipped modules",
               sample={"rule": rule, "combo": key, "wire": content.decode("latin1"), "decoded": [plat, cv, lv]} if n % 200 == 1 else None)
    ctx.count("files_reply_round_trips", n)
    ctx.floor(rule, "platform x cfg x log combinations", n + bad, 600)


def check(ctx):
    repo = Repo()
    ctx.rule("R1", "verb table & exclusivity: 5-byte distinct verbs, decoders slice 5; every message any builder can emit is accepted by its own handler class and by no other (twins/catch-all tabled)")
    ctx.rule("R2", "constructor <-> decoder agreement per message kind by symbolic round trip: decode(build(fields)) == fields bit-for-bit for all field values (struct formats, offsets, byte order, signedness, payload slices)")
    ctx.rule("R4", "reply addressing: send_bytes puts parms[3] in SRCCN and parms[2] in DESCN; handle stores (ip, port, SRCCN group, DESCN group): a reply built from received parms goes back to the sender with identifiers swapped")
    ctx.rule("R5", "framing regex unambiguous: DOTALL; every capture group followed by another unconstrained group is lazy/excluding; last group greedy")
    ctx.rule("R6", "text parts: fixed-arity unpack of split needs maxsplit; HELLO replies with '|' / latin-1 names decode; FILES reply of every shipped platform x cfg x log names existing modules")
    ctx.rule("R7", "codec: MESSAGE_ENCODING is latin-1 and every encode/decode in the library names a codec that carries every byte value (folded by value: the shared constant, a module constant or a literal)")
    verb_table(ctx, repo)
    round_trips(ctx, repo)
    framing(ctx, repo)
    reply_addressing_model(ctx, repo, "R4")
    text_parts(ctx, repo)
    hello_payload_extraction(ctx, repo)
    codec(ctx, repo)
    from ..packs import tables
    files_roundtrip_names(ctx, repo, tables(repo), rule="R6")
    ctx.exhaustive = False
    ctx.assume("struct.pack/unpack semantics as modelled in vlib.symbytes (byte order, field sizes via struct.calcsize)")
    ctx.note("Not decided: truncated/malformed datagrams; values outside the struct field ranges; identifiers that themselves contain framing tags.")
    ctx.trusted += ["re._parser (regex AST of the constant pattern)", "vlib.symbytes struct model"]
    ctx.rule("R8", "the set-value command as the spa reads it: both set-value callbacks, interpreted on a model connection whose pack type, config version and log version are pairwise DIFFERENT, emit bytes equal to the published layout (sequence, pack type, length, 0x46, config version, log version, position, data) - the library's own decoder discards the two version bytes, so a builder that transposes them round-trips through it unnoticed (C13.R5's write model borrowed)")
    from ..writemodel import device_writes as _dw4
    _dw4(ctx.borrowed("R8", "C13"), repo, "R5", kinds=True)


def hello_replies_are_claimed(ctx, repo, rule):
    """concrete form of the HELLO round trip (the symbolic one needs a decoder it can read): for names without, with one
    and with several separator characters, empty, and with Latin-1 letters, the reply the builder makes is CLAIMED by a
    fresh hello handler (can_handle) and decodes to the identifier and the name it was built from.  A frame test that
    allows one separator only leaves the reply of a spa named `Hot|Tub` unclaimed: on the awaitable locator it stays at
    the head of the queue and every reply behind it is lost too."""
    from ..absint import Interp, PyRaise, Undecided
    H = "GeckoHelloProtocolHandler"
    n = 0
    for ident, name in ((b"SPA01:02:03:04:05:06", "My Spa"), (b"SPA-A", "Hot|Tub"), (b"SPA-B", "Hot|Tub|Deck"), (b"SPA-C", "|leading"), (b"SPA-D", "trailing|"),
                        (b"SPA-E", ""), (b"SPA-F", "Caf\\xe9 \\xc4rger".encode().decode("unicode_escape"))):
        it = Interp(repo, max_depth=10)
        try:
            msg = build_message(repo, it, H, "response", [ident, name])
            it.steps = 0
            wire = it.getattr(msg, "send_bytes")
            wire = SymBytes.of(wire).concrete() if not isinstance(wire, (bytes, bytearray)) else bytes(wire)
            rx = fresh_handler(repo, it, repo.cls(H))
            claimed = can_handle(repo, it, repo.cls(H), rx, wire)
            got = None
            if claimed is True:
                it.steps = 0
                it.call(repo.method(H, "handle"), rx, [wire, SENDER])
                got = (it.getattr(rx, "spa_identifier"), it.getattr(rx, "spa_name"))
        except PyRaise as e:
            claimed, got = f"raises {e.what}", None
        except Undecided as e:
            raise AnalysisError(f"{H}: reply for the name {name!r} on concrete bytes: {e}")
        n += 1
        ctx.ob(rule, f"{H}::reply-named-{name!r}::claimed-and-decoded", claimed is True and got == (ident, name),
               f"{H}: the reply built for identifier {ident!r}, name {name!r} is {'claimed' if claimed is True else 'NOT claimed (' + str(claimed) + ')'} by a hello handler and decodes to {got!r} - "
               f"expected it to be claimed and to decode to what it was built from (a reply nobody claims is never listed, and on the awaitable locator blocks the replies behind it)",
               repo.method(H, "can_handle").loc, sample={"rule": rule, "name": name})
    ctx.floor(rule, "hello replies built, claimed and decoded on concrete bytes", n, 6)


def outer_header_wins(ctx, repo, rule):
    """whose packet is it: the identifier pair of a framed packet is the one in ITS header - the first <SRCCN>..<DESCN>
    ..<DATAS> of the datagram - whatever its payload contains.  A foreign packet (another pair in the header) whose
    payload embeds a complete header naming this connection's pair must still read as foreign; a greedy prefix in the
    header pattern takes the LAST header of the datagram, and the connection re-queues the embedded content as its own."""
    from ..absint import Interp, PyRaise, Undecided
    P = "GeckoPacketProtocolHandler"
    n = 0

    def frame(src, dst, body):
        return b"<PACKT><SRCCN>" + src + b"</SRCCN><DESCN>" + dst + b"</DESCN><DATAS>" + body + b"</DATAS></PACKT>"
    mine = (b"SPA01:02:03:04:05:06", b"IOSclient-0001")
    other = (b"SPA99:99:99:99:99:99", b"IOSclient-9999")
    inner = b"<SRCCN>" + mine[0] + b"</SRCCN><DESCN>" + mine[1] + b"</DESCN><DATAS>STATP\x01\x00\x20\xbe\xef"
    cases = {"plain-foreign": (other, b"APING\x00"), "foreign-with-embedded-header": (other, inner),
             "own-with-embedded-foreign-header": (mine, b"<SRCCN>" + other[0] + b"</SRCCN><DESCN>" + other[1] + b"</DESCN><DATAS>RFERR")}
    for key, (pair, body) in cases.items():
        it = Interp(repo, max_depth=10)
        try:
            ref = new_handler(repo, it, P)
            it.call(repo.method(P, "handle"), ref, [frame(pair[0], pair[1], b"APING\x00"), SENDER])
            want_parms = as_tuple(it.getattr(ref, "parms"))
            rx = new_handler(repo, it, P)
            it.steps = 0
            it.call(repo.method(P, "handle"), rx, [frame(pair[0], pair[1], body), SENDER])
            got_parms, got_body = as_tuple(it.getattr(rx, "parms")), it.getattr(rx, "packet_content")
            got_body = SymBytes.of(got_body).concrete() if not isinstance(got_body, (bytes, bytearray, type(None))) else got_body
        except PyRaise as e:
            want_parms, got_parms, got_body = None, f"raises {e.what}", None
        except Undecided as e:
            raise AnalysisError(f"{P}.handle on concrete nested frames ({key}): {e}")
        n += 1
        ok = want_parms is not None and got_parms == want_parms and got_body is not None and bytes(got_body) == body
        ctx.ob(rule, f"{P}::{key}::identifiers-from-its-own-header", ok,
               f"{P}.handle on a packet from {pair[0]!r} to {pair[1]!r} whose payload is {body[:40]!r}...: reads identifiers {got_parms!r} and content {bytes(got_body)[:30] if got_body is not None else None!r} - "
               f"expected the identifiers of the packet's own (first) header {want_parms!r} and the whole payload: a packet addressed to somebody else must not be read as this connection's",
               repo.method(P, "handle").loc, sample={"rule": rule, "case": key})
    ctx.floor(rule, "nested frames decoded on concrete bytes", n, 3)
