"""C11 - every shipped pack table yields a facade whose read-only API is total.

Claimed: totality of construction and of the enumerated read-only members with respect
to WHICH KEYS EXIST (all platform x cfg x log combinations, exhaustively) plus the
exception classes visible in the code shape (label lookups, reminder types, watercare
byte).  NOT claimed: exception freedom for arbitrary block contents in general.
"""
from __future__ import annotations

import ast
import collections

from ..absint import ClassRef, EnumMember, Interp, Obj, Opaque, PyRaise, Undecided
from ..cfg import cfg_of
from ..core import AnalysisError
from ..facts import class_const, loc
from ..packs import tables
from ..src import Repo, Unfoldable, call_name, walk_no_nested

CONSTRUCTION = [
    # (qualified function, which part)  - the async and the blocking construction paths
    "GeckoAsyncSpa._connect", "GeckoSpa._final_connect",
    "GeckoAsyncFacade.__init__", "GeckoAsyncFacade._scan_outputs",
    "GeckoFacade._on_connected", "GeckoFacade.scan_outputs",
    "GeckoWaterHeater.__init__", "GeckoWaterCare.__init__", "GeckoReminders.__init__", "GeckoKeypad.__init__",
    "GeckoSwitch.__init__", "GeckoPump.__init__", "GeckoSensor.__init__", "GeckoErrorSensor.__init__",
    "GeckoTempStructAccessor._get_value",
]


def fold_key(repo, fi, e):
    try:
        v = repo.fold(e, fi.mod, fi.cls)
        return v if isinstance(v, str) else None
    except Unfoldable:
        return None


def accessor_subscripts(repo, fi):
    """-> [(node, key or None, guarded: bool, text)] for every `<x>.accessors[K]`"""
    g = cfg_of(fi)
    out = []
    parents = {}
    for n in ast.walk(fi.node):
        for ch in ast.iter_child_nodes(n):
            parents[ch] = n
    for n in g.stmt_nodes():
        for sub in n.walk():
            if isinstance(sub, ast.Subscript) and isinstance(sub.ctx, ast.Load) and ast.unparse(sub.value).endswith("accessors"):
                k = fold_key(repo, fi, sub.slice)
                recv = ast.unparse(sub.value)
                kt = ast.unparse(sub.slice)
                facts = g.guard_atoms(n)
                guarded = (f"{kt} in {recv}", True) in facts
                # inside a comprehension with `if <k> in <recv>`
                p = parents.get(sub)
                while p is not None and not guarded:
                    if isinstance(p, (ast.ListComp, ast.DictComp, ast.SetComp, ast.GeneratorExp)):
                        for gen in p.generators:
                            for cond in gen.ifs:
                                if ast.unparse(cond) == f"{kt} in {recv}":
                                    guarded = True
                    p = parents.get(p)
                out.append((n, k, guarded, ast.unparse(sub)))
    return out


def conditional_attrs(repo, cname):
    """R2: attributes of class cname assigned in __init__ only under `K in ...accessors`
    and read somewhere outside that guard -> [(attr, key, read site)]"""
    init = repo.own_method(cname, "__init__")
    g = cfg_of(init)
    assigned = collections.defaultdict(list)
    for n in g.stmt_nodes():
        if isinstance(n.ast, ast.Assign) or (isinstance(n.ast, ast.AnnAssign) and n.ast.value is not None):
            for t in (n.ast.targets if isinstance(n.ast, ast.Assign) else [n.ast.target]):
                for tt in ast.walk(t):
                    if isinstance(tt, ast.Attribute) and isinstance(tt.value, ast.Name) and tt.value.id == "self" and isinstance(tt.ctx, ast.Store):
                        keys = set()
                        for txt, p in g.guard_atoms(n):
                            if p and " in " in txt and txt.endswith("accessors"):
                                k = txt.split(" in ")[0]
                                try:
                                    kv = repo.fold(ast.parse(k, mode="eval").body, init.mod, init.cls)
                                except Exception:
                                    kv = None
                                if isinstance(kv, str):
                                    keys.add(kv)
                        assigned[tt.attr].append((n, keys))
    out = []
    cls = repo.cls(cname)
    for attr, sites in assigned.items():
        if any(not ks for _, ks in sites):
            continue  # has an unconditional assignment
        common = set.intersection(*[ks for _, ks in sites])
        if not common:
            continue
        key = sorted(common)[0]
        # a read not under the same guard
        for m in cls.methods.values():
            gm = cfg_of(m)
            for n in gm.stmt_nodes():
                for sub in n.walk():
                    if isinstance(sub, ast.Attribute) and sub.attr == attr and isinstance(sub.ctx, ast.Load) and isinstance(sub.value, ast.Name) and sub.value.id == "self":
                        facts = gm.guard_atoms(n)
                        if not any(p and txt.endswith("accessors") and " in " in txt for txt, p in facts):
                            out.append((attr, key, m, n))
                            break
                    else:
                        continue
                    break
    # one witness per attr
    seen = {}
    for attr, key, m, n in out:
        seen.setdefault((attr, key), (m, n))
    return [(a, k, m, n) for (a, k), (m, n) in seen.items()]


def _reads_block_values(repo, cname, atoms, depth=3):
    """do the guard atoms (following calls to the class's own methods) read an accessor's value?"""
    seen = set()

    def expr_reads(e, d):
        for n in ast.walk(e):
            if isinstance(n, ast.Attribute) and n.attr in ("value", "raw_value"):
                return True
            if isinstance(n, ast.Subscript) and ast.unparse(n.value).endswith("accessors"):
                return True
            if isinstance(n, ast.Call) and isinstance(n.func, ast.Attribute) and isinstance(n.func.value, ast.Name) and n.func.value.id == "self" and d > 0:
                m = repo.method(cname, n.func.attr, required=False)
                if m is not None and m.qual not in seen:
                    seen.add(m.qual)
                    if expr_reads(m.node, d - 1):
                        return True
        return False

    for a in atoms:
        txt = a[4:] if a.startswith("not ") else a
        try:
            e = ast.parse(txt, mode="eval").body
        except SyntaxError:
            continue
        if expr_reads(e, depth):
            return True
    return False


def enum_decode_total(ctx, repo, rule):
    """GeckoStructAccessor._get_value interpreted for an Enum item with 3 labels and every raw byte 0..255: a listed byte
    reads its label, every other byte reads 'Unknown', nothing raises."""
    gv = repo.own_method("GeckoStructAccessor", "_get_value")
    interp = Interp(repo, max_depth=6)
    acc_cls = repo.cls("GeckoStructAccessor")
    bad = None
    for raw in range(256):
        obj = Obj(acc_cls, {"type": "Enum", "items": ["A", "B", "C"], "tag": "t"})
        interp.call_hook = lambda ip, node, callee, args, kwargs, raw=raw: raw if getattr(getattr(callee, "fi", None), "name", "") == "_get_raw_value" else NotImplemented
        try:
            interp.steps = 0
            v = interp.call(gv, obj, [None])
            if raw >= 3 and v != "Unknown" and bad is None:
                bad = (raw, v)
            if raw < 3 and v != "ABC"[raw] and bad is None:
                bad = (raw, v)
        except PyRaise as e:
            bad = bad or (raw, e.what)
        except Undecided as e:
            raise AnalysisError(f"_get_value: {e}")
    interp.call_hook = None
    ctx.ob(rule, "GeckoStructAccessor._get_value::all-raw-bytes", bad is None, f"enum decode of raw value {bad[0] if bad else ''} (3 labels) gives {bad[1] if bad else ''}: listed bytes read their label, every other byte reads 'Unknown'", gv.loc,
           sample={"rule": rule, "raw_values": 256, "labels": 3})


def check(ctx):
    repo = Repo()
    T = tables(repo)
    ctx.exhaustive = True
    ctx.rule("R1", "required keys x combinations: accessor keys subscripted on the construction path without a dominating `key in accessors` guard (plus keys implied by R2/R3) must exist in every shipped platform x cfg x log combination (exhaustive join)")
    ctx.rule("R2", "definite assignment: an attribute assigned in __init__ only under `K in accessors` but read outside that guard makes K a required key")
    ctx.rule("R3", "optional element dereferenced: a None-able member placed in a device list that is iterated with attribute access makes its guard key required")
    ctx.rule("R4", "label lookups are total: enum lookup falls back to 'Unknown' on IndexError; GeckoWaterCare renderings evaluated for every mode byte 0..255 and None")
    ctx.rule("R5", "type assumptions on table values: every output key is an Enum item; every device state key is Enum or Bool")
    ctx.rule("R6", "reminders: decode of every reminder type byte 0..255 does not raise; to_string total; Reminder.__str__ total over the sign of days")

    # ---- R1: collect MUST keys ----------------------------------------------------------
    # (a) the connect tail (pack identity read right after the tables are loaded): constant-key subscripts in the
    #     connect functions and in the methods of their own class they call
    must = {}  # key -> (function, line, reason)
    cond = set()
    dyn = 0
    n_sub = 0
    from ..callgraph import callgraph as _callgraph
    cg = _callgraph(repo)
    tail = []
    for q in ("GeckoAsyncSpa._connect", "GeckoSpa._final_connect"):
        fi = repo.func(q, required=False)
        if fi is None:
            ctx.error(f"construction-path anchor {q} vanished")
            continue
        seen_q, stack = {fi.qual}, [fi]
        while stack:
            f0 = stack.pop()
            tail.append(f0)
            for callee in cg.callees(f0) if hasattr(cg, "callees") else []:
                if callee.cls is not None and fi.cls is not None and callee.cls.short == fi.cls.short and callee.qual not in seen_q:
                    seen_q.add(callee.qual)
                    stack.append(callee)
    for fi in tail:
        for n, k, guarded, text in accessor_subscripts(repo, fi):
            n_sub += 1
            if k is None:
                dyn += 1
                continue
            if guarded:
                cond.add(k)
            else:
                must.setdefault(k, (fi, n.lineno, f"`{text}` in {fi.qual} (unguarded subscript)"))
    ctx.floor("R1", "accessor subscripts on the connect tail", n_sub, 8)
    ctx.count("R1:data_driven_subscripts (discharged by C18.R4 / C12.R4)", dyn)
    # (b) the facade: built by its own constructor on a model of every shipped (config, log) pair (vlib/buildmodel.py)
    from ..buildmodel import constructions as _constructions
    built, bstats, relevant = _constructions(repo, T, ("first", "last", "mixed") if ctx.tier == "thorough" else ("mixed", "first"), workers=12)
    for k_, v_ in bstats.items():
        ctx.count(f"R1:facade constructions:{k_}", v_)
    ctx.floor("R1", "facade constructions interpreted", bstats["runs"], 100)
    ctx.floor("R1", "item names the constructions look up", len(relevant), 40)
    # R2
    for cname in ("GeckoWaterHeater",):
        for attr, key, m, n in conditional_attrs(repo, cname):
            must.setdefault(key, (m, n.lineno, f"self.{attr} is assigned only when {key!r} exists but read unconditionally in {m.qual} L{n.lineno} (AttributeError otherwise)"))
            ctx.ob("R2", f"{cname}.{attr}::requires::{key}", True, f"conditional attribute {attr} -> required key {key}")
    # R3: optional members inside all_automation_devices
    for fac in ("GeckoAsyncFacade", "GeckoFacade"):
        aad = repo.method(fac, "all_automation_devices")
        members = [ast.unparse(e) for n in ast.walk(aad.node) if isinstance(n, ast.List) for e in n.elts]
        init_none = set()
        for m in repo.all_methods(fac).values():
            for n in ast.walk(m.node):
                if isinstance(n, (ast.Assign, ast.AnnAssign)):
                    tg = n.targets[0] if isinstance(n, ast.Assign) else n.target
                    val = n.value
                    if isinstance(val, ast.Constant) and val.value is None and isinstance(tg, ast.Attribute):
                        init_none.add(tg.attr)
        for mem in members:
            prop = mem.split(".")[-1]
            pm = repo.method(fac, prop, required=False)
            if pm is None:
                continue
            rets = [ast.unparse(n.value) for n in ast.walk(pm.node) if isinstance(n, ast.Return) and n.value is not None]
            for r in rets:
                attr = r.split(".")[-1]
                if attr in init_none:
                    # when is it assigned non-None?
                    for m in repo.all_methods(fac).values():
                        g = cfg_of(m)
                        for n in g.stmt_nodes():
                            if isinstance(n.ast, ast.Assign) and ast.unparse(n.ast.targets[0]) == f"self.{attr}" and not (isinstance(n.ast.value, ast.Constant) and n.ast.value.value is None):
                                keys = []
                                other = []
                                aliases = []  # unexpanded spellings of an item-presence test (guard_atoms lists both)
                                canon_atoms = set()
                                for txt, p in g.guard_atoms(n):
                                    if txt.isidentifier():
                                        # a boolean carried in a local (residue of an inlined predicate): what decides it are the
                                        # expressions it is bound to - constants aside
                                        for dn in g.stmt_nodes():
                                            if isinstance(dn.ast, ast.Assign) and any(isinstance(t_, ast.Name) and t_.id == txt for t_ in dn.ast.targets) \
                                                    and not isinstance(dn.ast.value, ast.Constant):
                                                try:
                                                    canon_atoms.add((ast.unparse(g.expand(dn.ast.value, at=dn)), p))
                                                except RecursionError:
                                                    canon_atoms.add((ast.unparse(dn.ast.value), p))
                                        continue
                                    try:
                                        txt = ast.unparse(g.expand(ast.parse(txt, mode="eval").body, at=n))   # locals of inlined helpers -> what they stand for
                                    except (SyntaxError, RecursionError):
                                        pass
                                    canon_atoms.add((txt, p))
                                for txt, p in sorted(canon_atoms):
                                    if p and " in " in txt and txt.endswith("accessors"):
                                        kv = fold_key(repo, m, ast.parse(txt.split(" in ")[0], mode="eval").body)
                                        if kv:
                                            keys.append(kv)
                                        else:
                                            aliases.append(txt)
                                        continue
                                    other.append(("" if p else "not ") + txt)
                                if aliases and not keys:
                                    other += aliases  # item-presence test on a key the analysis cannot resolve
                                # the member is dereferenced for every status block: whether it is None may
                                # depend on which items the tables have (joined below), never on block contents
                                if other and not _reads_block_values(repo, fac, other):
                                    ctx.error(f"{fac}.{prop}: guard [{'; '.join(other)}] of the optional list member {mem} is neither item presence nor a visible read of status-block values - idiom unsupported")
                                    continue
                                ctx.ob("R3", f"{fac}.{prop}::none-only-when-item-missing", not other,
                                       f"{fac}.all_automation_devices contains {mem}, which stays None unless [{'; '.join(other)}] holds - a condition on status-block contents or one the analysis cannot resolve to item presence; the list is iterated with .watch/.key so such a block raises AttributeError",
                                       f"{m.mod.path}:{n.lineno}")
                                for kv in keys:
                                    must.setdefault(kv, (aad, aad.node.lineno, f"{fac}.all_automation_devices contains {mem} which stays None unless {kv!r} exists; the list is iterated with .watch/.key/.unwatch_all"))
                                    ctx.ob("R3", f"{fac}.{prop}::requires::{kv}", True, f"optional list member {mem} -> required key {kv}")
    # temperature accessors need the units key whenever they are read
    units_key = fold_key(repo, repo.method("GeckoTempStructAccessor", "_get_value"), ast.parse("GeckoConstants.KEY_TEMP_UNITS", mode="eval").body)
    ctx.count("R1:required_keys", len(must))
    ctx.extra["required_keys"] = {k: v[2] for k, v in sorted(must.items())}
    ctx.extra["conditional_keys"] = sorted(cond)
    ctx.floor("R1", "required keys of the connect tail", len(must), 4)

    # home kind of each key
    home = {}
    for k in must:
        cnt = collections.Counter(m.kind for m in T.modules.values() if k in set(m.keys()))
        home[k] = cnt.most_common(1)[0][0] if cnt else "log"
    # ---- join with all combinations -------------------------------------------------------
    combos = T.combos()
    ctx.floor("R1", "combinations", len(combos), 600)
    keysets = {stem: set(m.keys()) for stem, m in T.modules.items()}
    has_temp = {stem: any(i.ctor == "GeckoTempStructAccessor" for i in m.items) for stem, m in T.modules.items()}
    missing_by_module = collections.defaultdict(lambda: collections.defaultdict(int))
    n_bad = 0
    pair_fail = {}     # (cfg stem, log stem) -> [reasons]
    for pack, cfg, log in combos:
        ks = keysets[cfg.stem] | keysets[log.stem]
        why_ = []
        for k in must:
            if k not in ks:
                why_.append(f"{k} missing: {must[k][2]}")
        if (has_temp[cfg.stem] or has_temp[log.stem]) and units_key not in ks and units_key not in must:
            why_.append(f"{units_key} missing: temperature items need the units item")
        why_ += built.get((cfg.stem, log.stem), [])
        if why_:
            pair_fail[(cfg.stem, log.stem)] = why_
        n_bad += bool(why_)
    ctx.count("R1:combinations_checked", len(combos))
    ctx.count("R1:combinations_whose_facade_cannot_be_built", n_bad)
    uses = collections.defaultdict(set)
    for _p, cfg, log in combos:
        uses[cfg.stem].add((cfg.stem, log.stem))
        uses[log.stem].add((cfg.stem, log.stem))
    dead = {mod for mod, ps in uses.items() if ps and all(p_ in pair_fail for p_ in ps)}
    for mod in sorted(T.modules):
        if T.modules[mod].kind == "pack":
            continue
        if mod in dead:
            ps = sorted(uses[mod])
            reasons = sorted({r for p_ in ps for r in pair_fail[p_]})
            # keyed by the table module (the input that fails): the reasons are in the message
            ctx.ob("R1", f"facade-unbuildable::{mod}", False,
                   f"every shipped combination using {mod} ({len(ps)} config/log pairs) fails to build: " + "; ".join(reasons[:6]),
                   T.modules[mod].path, detail={"module": mod, "reasons": reasons[:10]})
        else:
            ctx.ob("R1", f"facade-buildable::{mod}", True, "",
                   sample={"rule": "R1", "module": mod, "pairs": len(uses.get(mod, ()))} if mod.endswith("-50") else None)
    for (cs, ls), why_ in sorted(pair_fail.items()):
        if cs in dead or ls in dead:
            continue
        ctx.ob("R1", f"facade-unbuildable::{cs}+{ls}", False,
               f"the shipped combination ({cs}, {ls}) fails to build: " + "; ".join(why_[:4]), T.modules[ls].path, detail={"pair": [cs, ls], "reasons": why_[:10]})

    # ---- R4 label lookups -----------------------------------------------------------------
    enum_decode_total(ctx, repo, "R4")
    interp = Interp(repo, max_depth=6)
    # watercare renderings for every byte
    wc = repo.cls("GeckoWaterCare")
    from ..facademodel import Rec as _Rec, model_facade as _mf
    n_eval = 0
    for member in ("__str__", "monitor", "mode", "modes"):
        m = repo.method("GeckoWaterCare", member)
        for v in [None] + list(range(256)):
            try:
                # built by its own constructor on a model facade; the mode arrives the way the facade delivers it
                interp.steps = 0
                obj = interp.apply(ClassRef(wc), [_mf(_Rec(), {})[0]], {})
                if v is not None:
                    interp.call(repo.method("GeckoWaterCare", "change_watercare_mode"), obj, [v])
            except (PyRaise, Undecided) as e:
                raise AnalysisError(f"GeckoWaterCare(facade).change_watercare_mode({v}) on the model facade: {e}")
            try:
                interp.steps = 0
                interp.call(m, obj, [])
                n_eval += 1
            except PyRaise as e:
                ctx.ob("R4", f"GeckoWaterCare.{member}::mode-{v}", False,
                       f"GeckoWaterCare.{member} raises {e.what} for watercare mode byte {v}", m.loc, detail={"mode": v})
                break
            except Undecided as e:
                raise AnalysisError(f"GeckoWaterCare.{member}: {e}")
        else:
            ctx.ob("R4", f"GeckoWaterCare.{member}::total", True, "", sample={"rule": "R4", "member": member, "modes_evaluated": 257})
    ctx.count("R4:watercare_evaluations", n_eval)
    # a spa reports its mode again and again: every byte after every kind of earlier report (a named mode, the last named
    # mode, an unnamed byte, nothing yet).  Arguments of logging calls are evaluated, as Python does at every level.
    n_seq = 0
    cw = repo.method("GeckoWaterCare", "change_watercare_mode")
    for prev in (None, 0, 4, 5, 200):
        bad_seq = None
        for v in list(range(256)) + [None]:
            it4 = Interp(repo, max_depth=8)
            it4.log_hook = lambda level, args: None
            try:
                obj = it4.apply(ClassRef(wc), [_mf(_Rec(), {})[0]], {})
                if prev is not None:
                    it4.call(cw, obj, [prev])
            except (PyRaise, Undecided) as e:
                raise AnalysisError(f"GeckoWaterCare(facade).change_watercare_mode({prev}) on the model facade: {e}")
            try:
                it4.steps = 0
                it4.call(cw, obj, [v])
                for member in ("__str__", "mode", "monitor"):
                    it4.call(repo.method("GeckoWaterCare", member), obj, [])
                n_seq += 1
            except PyRaise as e:
                bad_seq = bad_seq or (v, e.what)
            except Undecided as e:
                raise AnalysisError(f"GeckoWaterCare.change_watercare_mode({v}) after {prev}: {e}")
        ctx.ob("R4", f"GeckoWaterCare.change_watercare_mode::after={prev}::every-byte", bad_seq is None,
               f"a water-care report of mode byte {bad_seq[0] if bad_seq else ''} after an earlier report of {prev} raises {bad_seq[1] if bad_seq else ''}: the facade's update loop dies on a byte a spa can report", cw.loc)
    ctx.count("R4:watercare_report_sequences", n_seq)

    # ---- R5 table types ---------------------------------------------------------------------
    c = repo.cls("GeckoConstants")
    DEV = class_const(repo, "GeckoConstants", "DEVICES")
    n_out = 0
    for stem, m in sorted(T.modules.items()):
        for k in m.props.get("output_keys", []):
            it = m.item(k)
            if it is None:
                continue
            n_out += 1
            if it.ctor != "GeckoEnumStructAccessor":
                ctx.ob("R5", f"{stem}::{k}::output-is-enum", False, f"{stem}: output {k} is a {it.ctor}; the device scan calls .startswith on its value", f"{m.path}:{it.lineno}")
        for d, props in DEV.items():
            it = m.item(props[2])
            if it is not None and it.ctor not in ("GeckoEnumStructAccessor", "GeckoBoolStructAccessor"):
                ctx.ob("R5", f"{stem}::{props[2]}::state-type", False, f"{stem}: device state item {props[2]} is a {it.ctor} (is_on expects Enum or Bool)", f"{m.path}:{it.lineno}")
    ctx.ob("R5", "outputs-are-enums", True, f"{n_out} output items checked")
    ctx.count("R5:output_items", n_out)

    # ---- R6 reminders ---------------------------------------------------------------------------
    rh = repo.method("GeckoRemindersProtocolHandler", "handle")
    rcls = repo.cls("GeckoRemindersProtocolHandler")
    import struct as _s
    bad = None
    decoded_types = set()
    for t in range(256):
        rx = Obj(rcls, {"reminders": [], "_should_remove_handler": False})
        wire = b"RMREQ" + _s.pack("<BhB", t, -13, 1) + _s.pack("<BhB", 1, 5, 1)
        try:
            interp.steps = 0
            interp.call(rh, rx, [wire, ("1.1.1.1", 1)])
            for r in rx.attrs["reminders"]:
                decoded_types.add(getattr(r[0], "value", None))
        except PyRaise as e:
            bad = bad or (t, e.what)
        except Undecided as e:
            raise AnalysisError(f"reminders decode: {e}")
    ctx.ob("R6", "reminders::every-type-byte-decodes", bad is None, f"RMREQ with reminder type byte {bad[0] if bad else ''} raises {bad[1] if bad else ''}", rh.loc,
           sample={"rule": "R6", "type_bytes": 256, "valid_types": sorted(x for x in decoded_types if x is not None)})
    ts = repo.method("GeckoReminderType", "to_string")
    tcls = repo.cls("GeckoReminderType")
    for nm, ex in tcls.consts.items():
        if isinstance(ex, ast.Constant) and isinstance(ex.value, int):
            try:
                r = interp.call(ts, None, [EnumMember(tcls, nm, ex.value)])
                ok = isinstance(r, str)
            except (PyRaise, Undecided):
                ok = False
            ctx.ob("R6", f"GeckoReminderType.to_string::{nm}", ok, f"to_string({nm}) does not yield a string", ts.loc)
    rs = repo.method("Reminder", "__str__")
    rc = repo.cls("Reminder")
    # reminders as they come off the wire: decode with the protocol handler, build the facade's Reminder
    # objects through their own constructor, then evaluate every read-only member
    members = [m for m in repo.all_methods(rc).values() if m.is_property and m.name != "monitor"] + [rs]
    n_eval = 0
    for t in range(0, 8):
        for days in (-400, -1, 0, 1, 687):
            rx = Obj(rcls, {"reminders": [], "_should_remove_handler": False})
            wire = b"RMREQ" + _s.pack("<BhB", t, days, 1)
            try:
                interp.steps = 0
                interp.call(rh, rx, [wire, ("1.1.1.1", 1)])
            except (PyRaise, Undecided):
                continue  # covered by every-type-byte-decodes
            for rec in rx.attrs["reminders"]:
                if rec[0] == 0:
                    continue  # INVALID records are dropped by change_reminders / _on_reminders before a Reminder is built
                try:
                    interp.steps = 0
                    obj = interp.apply(ClassRef(rc), [rec], {})
                except (PyRaise, Undecided) as e:
                    raise AnalysisError(f"Reminder construction: {e}")
                for m in members:
                    try:
                        interp.steps = 0
                        interp.call(m, obj, [])
                        ok, why = True, ""
                    except PyRaise as e:
                        ok, why = False, e.what
                    except Undecided as e:
                        raise AnalysisError(f"Reminder.{m.name}: {e}")
                    n_eval += 1
                    if not ok or (t == 1):
                        ctx.ob("R6", f"Reminder.{m.name}::type{t}::days{days}", ok,
                               f"Reminder.{m.name} raises {why} for a reminder decoded from the wire (type byte {t}, {days} days; the decoder stores the type as {type(rec[0]).__name__ if not hasattr(rec[0], 'cls') else 'enum member'})", m.loc)
    ctx.floor("R6", "reminder member evaluations on decoded records", n_eval, 90)
    # lookup by kind: GeckoReminders built by its own constructor on a model facade, fed through change_reminders with
    # the decoded records of a spa that reports (a) nothing, (b) only other kinds, (c) the kind asked for
    from ..facademodel import Rec, model_facade
    gr = repo.cls("GeckoReminders")
    look = repo.method("GeckoReminders", "get_reminder")
    kinds = [EnumMember(tcls, nm, ex.value) for nm, ex in tcls.consts.items() if isinstance(ex, ast.Constant) and isinstance(ex.value, int) and ex.value != 0]
    n_look = 0
    for kind in kinds:
        others = [k for k in kinds if k.value != kind.value]
        for label, recs in (("empty-list", []), ("other-kinds-only", [(o, 5) for o in others[:2]]), ("present", [(others[0], 3), (kind, -2)])):
            fac, _spa = model_facade(Rec(), {})
            try:
                interp.steps = 0
                robj = interp.apply(ClassRef(gr), [fac], {})
                interp.call(repo.method("GeckoReminders", "change_reminders"), robj, [list(recs)])
            except (PyRaise, Undecided) as e:
                raise AnalysisError(f"GeckoReminders(facade).change_reminders on the model facade: {e}")
            try:
                interp.steps = 0
                got = interp.call(look, robj, [kind])
                if label == "present":
                    ok = got is not None and getattr(interp.getattr(got, "type"), "value", None) == kind.value and interp.getattr(got, "days") == -2
                    why = f"returns {got!r}"
                else:
                    ok, why = got is None, f"returns {got!r}"
            except PyRaise as e:
                ok, why = False, f"raises {e.what}"
            except Undecided as e:
                raise AnalysisError(f"{look.qual}: {e}")
            n_look += 1
            ctx.ob("R6", f"{look.qual}::{label}", ok,
                   f"{look.qual}({kind.name}) on a reminder list with {label.replace('-', ' ')} {why}: the lookup must give the reminder of that kind, or None when the spa reports none - never raise", look.loc,
                   sample={"rule": "R6", "lookup": kind.name, "list": label} if kind is kinds[0] else None)
    ctx.floor("R6", "reminder lookups interpreted", n_look, 15)
    # ---- R9 error text: the error sensor built by its own constructor over real Bool accessors on a model structure,
    # for every valuation of three error flags (and a non-Bool item among the error keys)
    ctx.rule("R9", "error text is total and names the active flags: GeckoErrorSensor built by its constructor on a model structure whose error keys are three real Bool items and one Enum item - for all 8 valuations of the flags its state evaluates, is 'None' exactly when no flag is set, and otherwise names every set flag once")
    from ..facademodel import Rec as _R2, model_facade as _mf2
    es = repo.cls("GeckoErrorSensor")
    n_es = 0
    for bits in range(8):
        it9 = Interp(repo, max_depth=12)
        blockb = bytearray(32)
        blockb[5] = bits
        st9 = Obj(None, {"status_block": bytes(blockb), "accessors": {}, "error_keys": ["ErrA", "ErrMode", "ErrB", "ErrC"]}, name="struct")
        try:
            accs9 = {"Other": it9.apply(ClassRef(repo.cls("GeckoBoolStructAccessor")), [st9, "Other", 6, 0, None], {}),
                     "ErrA": it9.apply(ClassRef(repo.cls("GeckoBoolStructAccessor")), [st9, "ErrA", 5, 0, None], {}),
                     "ErrMode": it9.apply(ClassRef(repo.cls("GeckoEnumStructAccessor")), [st9, "ErrMode", 7, 0, ["X", "Y"], None, 2, None], {}),
                     "ErrB": it9.apply(ClassRef(repo.cls("GeckoBoolStructAccessor")), [st9, "ErrB", 5, 1, None], {}),
                     "ErrC": it9.apply(ClassRef(repo.cls("GeckoBoolStructAccessor")), [st9, "ErrC", 5, 2, None], {})}
            st9.attrs["accessors"] = accs9
            fac9, spa9 = _mf2(_R2(), accs9, struct=st9)
            it9.steps = 0
            sensor = it9.apply(ClassRef(es), [fac9], {})
            got9 = it9.getattr(sensor, "state")
        except PyRaise as e:
            got9 = f"raises {e.what}"
        except Undecided as e:
            raise AnalysisError(f"GeckoErrorSensor on the model structure: {e}")
        active = [nm for i, nm in enumerate(("ErrA", "ErrB", "ErrC")) if bits >> i & 1]
        if not active:
            ok9 = got9 == "None"
        else:
            ok9 = isinstance(got9, str) and not got9.startswith("raises") and sorted(x.strip() for x in got9.split(",")) == sorted(active)
        n_es += 1
        ctx.ob("R9", f"GeckoErrorSensor::flags={bits:03b}", ok9,
               f"GeckoErrorSensor over error flags ErrA/ErrB/ErrC = {bits & 1}/{bits >> 1 & 1}/{bits >> 2 & 1}: state {got9!r}, expected {'None' if not active else 'the text naming ' + ', '.join(active)}",
               repo.method("GeckoErrorSensor", "update_state").loc, sample={"rule": "R9", "flags": bits, "state": str(got9)} if bits in (0, 3) else None)
    ctx.floor("R9", "error-flag valuations", n_es, 8)
    # ---- R8 heater members are total: an out-of-label unit byte reads 'Unknown' (R4) and every read-only member of the
    # heater, built by its own constructor on a model spa, must still evaluate (with / without the flag items)
    ctx.rule("R10", "device states are total: on the facades built for the richest shipped (config, log) pair of every platform, every automation device is read with each of its Enum items holding a byte outside its label list (the accessor reads 'Unknown'): every read-only member of the device (properties, __str__, __repr__) evaluates without raising")
    from ..buildmodel import out_of_list_states as _ools
    n10_, m10_ = 0, 0
    for (plat_, cs_, ls_, fcls_), (r_, extra_) in sorted(_ools(repo, T).items()):
        if r_ is not None or extra_ is None:
            continue      # a pair whose facade cannot be built is R1's finding
        bad_, nm_ = extra_
        n10_ += 1
        m10_ += nm_
        ctx.ob("R10", f"{fcls_}::{plat_}::out-of-list-states-read", not bad_,
               f"{fcls_} built on ({cs_}, {ls_}): with the devices' Enum items reading 'Unknown' (a byte outside the label list) {len(bad_)} member read(s) fail, e.g. {bad_[:3]} - "
               f"an out-of-list state must read as 'Unknown', not raise into whoever polls the device", repo.method(fcls_, "all_automation_devices").loc,
               sample={"rule": "R10", "facade": fcls_, "platform": plat_, "members_evaluated": nm_} if plat_.startswith("inyt") else None)
    ctx.count("R10:facades inspected", n10_)
    ctx.count("R10:device members evaluated with out-of-list states", m10_)
    ctx.floor("R10", "facades inspected with out-of-list device states", n10_, 10)
    ctx.floor("R10", "device members evaluated with out-of-list states", m10_, 500)
    ctx.rule("R12", "device members are total on the wiring that builds every device: the same facades, built with output number n reading the n-th user-device label of its own list (pumps at both speeds, blower, WATERFALL, light - the shipped snapshots and the mixed valuation wire only some of them), every Enum item reading a label of its list: every read-only member of every device built (`modes` included: the waterfall is a pump whose demand is labelled OFF|ON, not OFF|LO|HI) evaluates without raising - and so do its string renderings once a client watches it with a plain function (an observer need not be a bound method)")
    n12_, m12_, kinds12_ = 0, 0, set()
    built_mixed_ = {k_ for k_, (rr_, _e) in _ools(repo, T).items() if rr_ is None}
    for (plat_, cs_, ls_, fcls_), (r_, extra_) in sorted(_ools(repo, T, valuation="devices", unknown=False, subscribe=True).items()):
        if r_ is not None and (plat_, cs_, ls_, fcls_) in built_mixed_:
            # the same pair builds on another block: it is THIS wiring (every offered device present) that cannot be built
            ctx.ob("R12", f"{fcls_}::{plat_}::every-device-wired-builds", False,
                   f"{fcls_} on ({cs_}, {ls_}) cannot be constructed once every offered user device is wired: {r_} - a key the table advertises (an entry of user_demand_keys spelt unlike its item) is found "
                   f"case-insensitively by the scan and then looked up as spelt", repo.method(fcls_, "all_automation_devices").loc)
            continue
        if r_ is not None or extra_ is None:
            continue      # a pair whose facade cannot be built is R1's finding
        bad_, nm_ = extra_
        n12_ += 1
        m12_ += nm_
        ctx.ob("R12", f"{fcls_}::{plat_}::every-device-wired-read", not bad_,
               f"{fcls_} built on ({cs_}, {ls_}) with every offered user device wired: {len(bad_)} member read(s) fail, e.g. {bad_[:3]} - a read-only member of a device the tables can produce raises into whoever polls it",
               repo.method(fcls_, "all_automation_devices").loc,
               sample={"rule": "R12", "facade": fcls_, "platform": plat_, "members_evaluated": nm_} if plat_.startswith("inyt") else None)
    ctx.count("R12:facades inspected with every device wired", n12_)
    ctx.count("R12:device members evaluated", m12_)
    ctx.floor("R12", "facades inspected with every device wired", n12_, 10)
    ctx.floor("R12", "device members evaluated with every device wired", m12_, 1000)
    ctx.rule("R11", "temperatures are numbers for any block contents: unit item and temperature item built by their constructors on real bytes - for words across the whole 16-bit range (0 and 65535 included) and both units the item presents a number (raw/18 or (raw+320)/10): a sentinel such as None for an all-ones word breaks every rendering and comparison the heater makes (C14.R8 borrowed)")
    from .c14 import temperature_on_real_bytes as _torb
    _torb(ctx.borrowed("R11", "C14", key_contains="::presents::"), repo, "R8")
    ctx.rule("R8", "heater totality: with the unit item reading 'C', 'F' or 'Unknown' (any out-of-label byte) and every presence pattern AND every value of the heating / cooling flag items (both set included: two independent bits of a block), every read-only member of GeckoWaterHeater evaluates without raising")
    from .c14 import build_heater
    hcls = repo.cls("GeckoWaterHeater")
    hmembers = [m for k in repo.mro(hcls) for m in k.methods.values() if (m.is_property or m.name in ("__str__", "__repr__")) and not m.name.startswith("_") or m.name in ("__str__",)]
    seen_m, n_h = set(), 0
    for u in ("C", "F", "Unknown"):
        for flags in ((None, None), (True, None), (False, None), (None, False), (None, True), (False, True), (True, False), (False, False), (True, True)):
            it3 = Interp(repo, max_depth=12)
            try:
                heater, _a, _r = build_heater(repo, it3, units=u, heating=flags[0], cooling=flags[1])
            except PyRaise as e:
                ctx.ob("R8", f"GeckoWaterHeater.__init__::unit={u}::flags={flags}", False,
                       f"GeckoWaterHeater cannot be built on a pack with the unit item reading {u!r}, heating flag {'absent' if flags[0] is None else 'present'}, cooling flag "
                       f"{'absent' if flags[1] is None else 'present'}: raises {e.what}", repo.method("GeckoWaterHeater", "__init__").loc)
                continue
            except Undecided as e:
                raise AnalysisError(f"GeckoWaterHeater construction: {e}")
            for m in hmembers:
                if m.name in ("monitor",) and False:
                    continue
                try:
                    it3.steps = 0
                    it3.call(m, heater, [])
                    ok, why = True, ""
                except PyRaise as e:
                    ok, why = False, e.what
                except Undecided as e:
                    if "format" in str(e) or "Opaque" in str(e):
                        continue  # rendering of opaque values (datetime etc.) is not modelled
                    raise AnalysisError(f"GeckoWaterHeater.{m.name}: {e}")
                n_h += 1
                if not ok or (m.name, u) not in seen_m:
                    seen_m.add((m.name, u))
                    ctx.ob("R8", f"GeckoWaterHeater.{m.name}::unit={u}::flags={flags}", ok,
                           f"GeckoWaterHeater.{m.name} raises {why} when the unit item reads {u!r} (heating flag {flags[0]}, cooling flag {flags[1]}): a status block with an out-of-label unit byte makes a read-only member fail", m.loc)
    ctx.floor("R8", "heater member evaluations", n_h, 250)
    ctx.assume("a facade is constructed for every combination the spa can report (the FILES reply names cfg and log versions independently)")
    ctx.note("NOT decided: exception freedom of every member for arbitrary 1024-byte block contents beyond the classes above (label lookups, reminder types, watercare byte, missing items).")
