"""C12 - device inventory equals the spa's output wiring, with unique keys.

R1 pipeline shape (order-preserving constructs only), R2 sibling agreement of the two
scans, R3 class<->list, R4 state key exists for every wiring (exhaustive table join),
R5 keys distinct (constant folding), R6 lookup by key.
NOT decided: that prefix matching yields exactly the wired devices for label sets never
shipped.
"""
from __future__ import annotations

import ast

from ..cfg import cfg_of
from ..core import AnalysisError
from ..facts import class_const, loc
from ..packs import tables
from ..src import Repo, call_name, deep_strip, walk_no_nested

SCANS = (("GeckoAsyncFacade", "_scan_outputs"), ("GeckoFacade", "scan_outputs"))
UNORDERED = {"set", "frozenset", "sorted", "reversed"}


def local_defs(fi):
    """name -> list of value expressions assigned to it (locals and self attrs by text)"""
    d = {}
    for n in walk_no_nested(fi.node):
        if isinstance(n, ast.Assign) and len(n.targets) == 1:
            d.setdefault(ast.unparse(n.targets[0]), []).append(n)
    return d


def check_scan(ctx, repo, cname, fname):
    fi = repo.own_method(cname, fname)
    key = fi.qual
    defs = local_defs(fi)
    # chain: all_output_connections -> actual_connections -> actual_devices -> actual_user_devices -> lists
    need = ["all_output_connections", "actual_connections", "actual_devices", "self.actual_user_devices", "self._pumps", "self._blowers", "self._lights"]
    for nm in need:
        ctx.ob("R1", f"{key}::stage::{nm}", nm in defs, f"{fi.qual}: pipeline stage `{nm}` not found", fi.loc)
    if not all(nm in defs for nm in need):
        return None
    # R1 order-preserving constructs only
    for nm in need:
        for a in defs[nm]:
            for c in ast.walk(a.value):
                if isinstance(c, ast.Call) and isinstance(c.func, ast.Name) and c.func.id in UNORDERED:
                    ctx.ob("R1", f"{key}::{nm}::order-preserving", False,
                           f"{fi.qual}: `{nm}` is built with {c.func.id}(...): device order (and which duplicate survives) is no longer the table order - "
                           f"{'set iteration order depends on string hashing, which is randomised per process' if c.func.id in ('set', 'frozenset') else 'order changed'}",
                           loc(fi, a))
                if isinstance(c, (ast.Set, ast.SetComp)):
                    ctx.ob("R1", f"{key}::{nm}::order-preserving", False, f"{fi.qual}: `{nm}` uses a set display/comprehension", loc(fi, a))
        ctx.ob("R1", f"{key}::{nm}::checked", True, "")
    # idiom recognition: the stages must be comprehensions (the only idiom this rule reads);
    # a rewrite as explicit loops is reported as ANALYSIS-ERROR (unsupported idiom), never as a violation
    for nm, kinds in (("all_output_connections", (ast.DictComp,)), ("actual_connections", (ast.DictComp,)),
                      ("self.actual_user_devices", (ast.ListComp,)), ("self._pumps", (ast.ListComp,)),
                      ("self._blowers", (ast.ListComp,)), ("self._lights", (ast.ListComp,))):
        if not all(isinstance(a.value, kinds) for a in defs[nm]):
            ctx.error(f"{fi.qual}: stage `{nm}` is not written as a comprehension - idiom not supported by C12.R1/R3")
            return None
    if not any(isinstance(c, (ast.ListComp, ast.GeneratorExp)) for c in ast.walk(defs["actual_devices"][0].value)):
        ctx.error(f"{fi.qual}: stage `actual_devices` is not written as a comprehension - idiom not supported by C12.R1")
        return None
    # stage contents
    aoc = defs["all_output_connections"][0].value
    ok = isinstance(aoc, ast.DictComp) and ast.unparse(aoc.generators[0].iter).endswith("struct.all_outputs") and ast.unparse(aoc.value).endswith(f"accessors[{ast.unparse(aoc.generators[0].target)}].value")
    ctx.ob("R1", f"{key}::outputs-read", ok, f"{fi.qual}: connections are not {{output: accessors[output].value for output in all_outputs}}", loc(fi, defs["all_output_connections"][0]))
    ac = defs["actual_connections"][0].value
    ok = isinstance(ac, ast.DictComp) and ac.generators[0].ifs and ast.unparse(ac.generators[0].ifs[0]).replace('"', "'") in ("val != 'NA'",) and "all_output_connections.items()" in ast.unparse(ac.generators[0].iter)
    ctx.ob("R1", f"{key}::drops-NA", ok, f"{fi.qual}: unconnected outputs (\"NA\") are not filtered out exactly", loc(fi, defs["actual_connections"][0]))
    ad = defs["actual_devices"][0].value
    comps = [c for c in ast.walk(ad) if isinstance(c, (ast.ListComp, ast.GeneratorExp))]
    ok = False
    if comps:
        c = comps[0]
        gens = c.generators
        ok = (len(gens) == 2 and ast.unparse(gens[0].iter).endswith("struct.all_devices") and "actual_connections.values()" in ast.unparse(gens[1].iter)
              and gens[1].ifs and ast.unparse(gens[1].ifs[0]) == f"{ast.unparse(gens[1].target)}.startswith({ast.unparse(gens[0].target)})"
              and ast.unparse(c.elt) == ast.unparse(gens[0].target))
    ctx.ob("R1", f"{key}::devices-by-prefix-in-table-order", ok,
           f"{fi.qual}: devices are not [device for device in all_devices for val in connections if val.startswith(device)] (outer loop over the device table gives table order)", loc(fi, defs["actual_devices"][0]))
    # de-dup must be order preserving: list(dict.fromkeys(...))
    txt = ast.unparse(ad)
    dedup = txt.startswith("list(dict.fromkeys(")
    ctx.ob("R1", f"{key}::order-preserving-dedup", dedup,
           f"{fi.qual}: duplicates (same device on several outputs) are not removed with an order-preserving construct (found `{txt[:40]}...`)", loc(fi, defs["actual_devices"][0]),
           sample={"rule": "R1", "function": fi.qual, "dedup": txt[:60]})
    aud = defs["self.actual_user_devices"][0].value
    ok = False
    if isinstance(aud, ast.ListComp) and len(aud.generators) == 2:
        g0, g1 = aud.generators
        cond = ast.unparse(g1.ifs[0]) if g1.ifs else ""
        ok = ast.unparse(g0.iter) == "actual_devices" and ast.unparse(g1.iter).endswith("struct.user_demands") and ".upper()" in cond and "Ud" in cond and "==" in cond
        if ok and isinstance(aud.elt, ast.Dict):
            et = ast.unparse(aud.elt)
            ok = "'device': device" in et and ".tag" in et and ".items" in et
    ctx.ob("R1", f"{key}::joined-with-user-demands", ok, f"{fi.qual}: devices are not joined with user demands by case-insensitive Ud<device>", loc(fi, defs["self.actual_user_devices"][0]))
    f2 = defs["self.actual_user_devices"][1].value if len(defs["self.actual_user_devices"]) > 1 else None
    ok = isinstance(f2, ast.ListComp) and ast.unparse(f2.generators[0].iter) == "self.actual_user_devices" and f2.generators[0].ifs and \
        ast.unparse(f2.generators[0].ifs[0]).endswith("in GeckoConstants.DEVICES")
    ctx.ob("R1", f"{key}::filtered-by-DEVICES", ok, f"{fi.qual}: unknown device classes are not filtered with `in GeckoConstants.DEVICES`", fi.loc)
    # R3 class <-> list
    for attr, cls, const in (("self._pumps", "GeckoPump", "DEVICE_CLASS_PUMP"), ("self._blowers", "GeckoBlower", "DEVICE_CLASS_BLOWER"), ("self._lights", "GeckoLight", "DEVICE_CLASS_LIGHT")):
        v = defs[attr][-1].value
        ok = isinstance(v, ast.ListComp) and isinstance(v.elt, ast.Call) and call_name(v.elt) == cls and ast.unparse(v.generators[0].iter) == "self.actual_user_devices"
        if ok:
            cond = ast.unparse(v.generators[0].ifs[0]) if v.generators[0].ifs else ""
            ok = cond.endswith(f"== GeckoConstants.{const}") and "[3]" in cond
            a = [ast.unparse(x) for x in v.elt.args]
            tgt = ast.unparse(v.generators[0].target)
            ok = ok and a[:3] == ["self", f"{tgt}['device']", f"GeckoConstants.DEVICES[{tgt}['device']]"]
            if cls == "GeckoPump":
                ok = ok and len(a) == 4 and a[3] == f"{tgt}['user_demand']"
        ctx.ob("R3", f"{key}::{attr}::class-matches-filter", ok,
               f"{fi.qual}: `{attr}` is not [ {cls}(self, d['device'], DEVICES[d['device']], ...) for d in actual_user_devices if DEVICES[..][3] == {const} ]", loc(fi, defs[attr][-1]),
               sample={"rule": "R3", "list": attr, "class": cls, "filter": const})
    return fi


STRUCTS = ("GeckoStructure", "GeckoAsyncStructure")
SOURCES = {"all_devices": "all_device_keys", "user_demands": "user_demand_keys"}


def _order_preserving_view(e, src_attr):
    """True: e is the table's list itself or an order-preserving copy; False: an order-destroying
    construct is present; None: neither recognised"""
    for c in ast.walk(e):
        if isinstance(c, ast.Call) and isinstance(c.func, ast.Name) and c.func.id in UNORDERED:
            return False
        if isinstance(c, ast.Call) and isinstance(c.func, ast.Attribute) and c.func.attr in ("shuffle", "sample"):
            return False
        if isinstance(c, (ast.Set, ast.SetComp)):
            return False
        if isinstance(c, ast.Subscript) and isinstance(c.slice, ast.Slice) and c.slice.step is not None and ast.unparse(c.slice.step) != "1":
            return False
    def is_src(x):
        return isinstance(x, ast.Attribute) and x.attr == src_attr
    if is_src(e):
        return True
    if isinstance(e, ast.Call) and isinstance(e.func, ast.Name) and e.func.id in ("list", "tuple") and len(e.args) == 1 and is_src(e.args[0]):
        return True
    if isinstance(e, ast.Call) and isinstance(e.func, ast.Attribute) and e.func.attr == "copy" and is_src(e.func.value) and not e.args:
        return True
    if isinstance(e, ast.Subscript) and is_src(e.value) and isinstance(e.slice, ast.Slice) and e.slice.lower is None and e.slice.upper is None:
        return True
    if isinstance(e, ast.ListComp) and len(e.generators) == 1 and is_src(e.generators[0].iter) and ast.unparse(e.elt) == ast.unparse(e.generators[0].target):
        return True
    return None


def check_table_order_source(ctx, repo):
    """R1 (source end): the lists the scans iterate - struct.all_devices / struct.user_demands - are the
    log table's own key lists in the table's order, in both structure classes"""
    n_sites = 0
    check_table_order_source.__dict__["_seen"] = set()
    for cname in STRUCTS:
        cls = repo.cls(cname, required=False)
        if cls is None:
            ctx.error(f"structure class {cname} vanished")
            continue
        seen_m = check_table_order_source.__dict__.setdefault("_seen", set())
        for m in [mm for k in repo.mro(cls) for mm in k.methods.values()]:
            if id(m.node) in seen_m:
                continue
            seen_m.add(id(m.node))
            for n in walk_no_nested(m.node):
                if isinstance(n, (ast.Assign, ast.AnnAssign)):
                    tgs = n.targets if isinstance(n, ast.Assign) else [n.target]
                    for t in tgs:
                        if isinstance(t, ast.Attribute) and t.attr in SOURCES and isinstance(t.value, ast.Name) and t.value.id == "self" and n.value is not None:
                            v = n.value
                            if isinstance(v, (ast.List, ast.Tuple)) and not v.elts:
                                continue
                            n_sites += 1
                            r = _order_preserving_view(v, SOURCES[t.attr])
                            if r is None:
                                ctx.error(f"{m.qual}: `self.{t.attr} = {ast.unparse(v)}` is not a recognised view of the log table's {SOURCES[t.attr]} - idiom not supported by C12.R1")
                                continue
                            ctx.ob("R1", f"{m.qual}::{t.attr}::table-order", r,
                                   f"{m.qual}: `self.{t.attr} = {ast.unparse(v)}` reorders the log table's {SOURCES[t.attr]}; the facade lists devices in the order of this list, so the inventory is no longer in table order",
                                   loc(m, n), sample={"rule": "R1", "site": m.qual, "attr": t.attr, "value": ast.unparse(v)})
                # in-place reordering
                if isinstance(n, ast.Call) and isinstance(n.func, ast.Attribute) and n.func.attr in ("sort", "reverse") and isinstance(n.func.value, ast.Attribute) and n.func.value.attr in SOURCES:
                    ctx.ob("R1", f"{m.qual}::{n.func.value.attr}::table-order", False, f"{m.qual}: in-place {n.func.attr}() of {ast.unparse(n.func.value)}", loc(m, n))
    ctx.floor("R1", "struct.all_devices/user_demands definition sites", n_sites, 2)


def structure_tables(ctx, repo, rule):
    from ..absint import ClassRef, Interp, Obj, Opaque, PyRaise, Undecided

    def pack(tag, cfg_items, log_items, outs, devs, uds):
        cfg = Obj(None, {"accessors": {k: f"{tag}.cfg.{k}" for k in cfg_items}, "output_keys": list(outs)}, name=f"{tag}-config")
        log = Obj(None, {"accessors": {k: f"{tag}.log.{k}" for k in log_items}, "all_device_keys": list(devs), "user_demand_keys": list(uds),
                         "error_keys": [f"{tag}Err"]}, name=f"{tag}-log")
        return cfg, log
    A = pack("A", ["Out1", "Out2", "Shared", "OnlyA_cfg"], ["P1", "UdP1", "Shared", "OnlyA_log"], ["Out1", "Out2"], ["P1", "P2"], ["UdP1"])
    # B's lists are neither sorted nor length-ordered: the structure must keep the table's own order
    B_OUT, B_DEV, B_UD = ["Out9", "Out1", "OutLi"], ["Waterfall", "P1", "BL", "P10", "LI"], ["UdWaterfall", "UdP1", "UdBL", "UdLI"]
    B = pack("B", ["Out1", "Shared"], ["BL", "UdBL", "Shared"], B_OUT, B_DEV, B_UD)
    n = 0
    for cname in ("GeckoStructure", "GeckoAsyncStructure"):
        c = repo.cls(cname)
        init = repo.method(cname, "__init__")
        fi = repo.method(cname, "build_accessors")
        nargs = len([a for a in init.node.args.args if a.arg != "self"]) - len(init.node.args.defaults)
        for label, loads in (("first-load", [B]), ("reload", [A, B])):
            it = Interp(repo, max_depth=8)
            try:
                st = it.apply(ClassRef(c), [Opaque(f"callback{i}") for i in range(nargs)], {})
                for cfg, log in loads:
                    it.steps = 0
                    it.call(fi, st, [cfg, log])
                accs = it.getattr(st, "accessors")
                got = {k: accs[k] for k in accs} if isinstance(accs, dict) else accs
                lists = tuple(list(it.getattr(st, a)) for a in ("all_outputs", "all_devices", "user_demands"))
            except (PyRaise, Undecided, TypeError) as e:
                raise AnalysisError(f"{cname}.build_accessors on model pack classes ({label}): {e}")
            want = {"Out1": "B.cfg.Out1", "Shared": "B.log.Shared", "BL": "B.log.BL", "UdBL": "B.log.UdBL"}
            n += 1
            extra = sorted(set(got) - set(want)) if isinstance(got, dict) else None
            ctx.ob(rule, f"{cname}.build_accessors::{label}::items", got == want,
                   f"{cname}.build_accessors ({'after another pack was loaded before' if label == 'reload' else 'first load'}) leaves the items {got}, expected exactly the loaded pair's {want}"
                   + (f": {extra} belong to the earlier pack - sensors and devices would be offered for items this spa does not have" if extra else ""),
                   fi.loc, sample={"rule": rule, "structure": cname, "case": label, "items": sorted(got) if isinstance(got, dict) else str(got)})
            ctx.ob(rule, f"{cname}.build_accessors::{label}::lists", lists == (B_OUT, B_DEV, B_UD),
                   f"{cname}.build_accessors ({label}) leaves outputs/devices/demands {lists}, expected the loaded pair's own lists in the table's own order {(B_OUT, B_DEV, B_UD)}", fi.loc)
    ctx.floor(rule, "structure loads interpreted", n, 4)


def check(ctx):
    repo = Repo()
    T = tables(repo)
    ctx.rule("R1", "pipeline shape: outputs -> values != 'NA' -> devices by prefix in table order -> order-preserving de-dup -> join with Ud<device> demands -> filter by DEVICES; no set/sorted/reversed anywhere between all_devices and the device lists")
    ctx.rule("R2", "sibling agreement: the async and the blocking scan are identical after normalisation")
    ctx.rule("R3", "class <-> list: each device list filters on class constant X and constructs the class mapped to X with (device key, DEVICES row, matched demand)")
    ctx.rule("R4", "state key exists for every wiring: for every combination and every device in DEVICES with a Ud demand, DEVICES[d][2] is an item (exhaustive join)")
    ctx.rule("R5", "keys distinct: DEVICES keys, upper-cased sensor names, heater/watercare/reminders/keypad literals and the eco key are pairwise distinct; unique_id = parent-key")
    ctx.rule("R7", "device table completeness: every pump P<n>, Waterfall, BL and LI that a shipped log table offers with a Ud<device> demand has a DEVICES row of the matching class")
    ctx.rule("R6", "get_device returns the first element whose key equals the argument; devices lists the keys of the same list")
    ctx.rule("R8", "the inventory is taken from the pack that is loaded now: on both structure classes, built by their own constructors, build_accessors(config, log) leaves exactly the items of that pair (log item wins a name clash) and that pair's output / device / demand lists - also when another pair was loaded before (nothing of an earlier pack survives a reload, so no sensor or device is offered for an item the spa does not have)")
    structure_tables(ctx, repo, "R8")
    ctx.rule("R10", "keys, unique ids and lookup on the facade as built: for the richest shipped (config, log) pair of every platform both facades are built by their own constructors on a model of that pair (vlib/buildmodel.py); the keys of all automation devices are pairwise distinct, so are their unique ids, and get_device(key) returns that very device - also for sensors whose names share a prefix ('Filter Status:Clean' / 'Filter Status:Purge')")
    from ..buildmodel import inventories as _inventories
    n10 = 0
    for (plat, cs_, ls_, fcls_), (r_, inv_) in sorted(_inventories(repo, T).items()):
        if r_ is not None or inv_ is None:
            continue      # a pair whose facade cannot be built is C11's finding
        n10 += 1
        keys_ = [x[0] for x in inv_]
        dup_k = sorted({k for k in keys_ if keys_.count(k) > 1}, key=str)
        uids_ = [x[1] for x in inv_]
        dup_u = sorted({u for u in uids_ if uids_.count(u) > 1}, key=str)
        wrong = [x[0] for x in inv_ if not x[3]]
        ctx.ob("R10", f"{fcls_}::{plat}::keys-distinct-and-lookup", not dup_k and not dup_u and not wrong,
               f"{fcls_} built on ({cs_}, {ls_}) presents {len(inv_)} devices: duplicate keys {dup_k[:4]}, duplicate unique ids {dup_u[:3]}, get_device(key) returns another device for {wrong[:4]}",
               repo.method(fcls_, "get_device").loc, sample={"rule": "R10", "facade": fcls_, "platform": plat, "devices": len(inv_)} if plat.startswith("inyt") else None)
    ctx.floor("R10", "facade inventories interpreted", n10, 10)
    ctx.rule("R11", "for ANY status block: an output byte that is not in the item's label list (one past the last option included) reads 'Unknown' - not wired to a known device - and never raises out of the scan (C11.R4's enum decode over all 256 raw bytes borrowed)")
    from .c11 import enum_decode_total as _edt
    _edt(ctx.borrowed("R11", "C11"), repo, "R4")
    ctx.rule("R13", "every output that can carry a device is scanned: in every shipped config table, each `Out...` Enum item whose label list offers a user device (a pump speed, blower, waterfall, light) is listed in that table's output_keys - the scan reads only the listed outputs, so an output dropped from the list (`OutLi` of one inXM config) makes the facade lose the device wired to it on exactly those spas")
    _USER13 = ("P1", "P2", "P3", "P4", "P5", "BL", "Waterfall", "LI")
    n13 = 0
    for stem_, m_ in sorted(T.modules.items()):
        if m_.kind != "cfg":
            continue
        outs_ = set(m_.props.get("output_keys", []) or [])
        for it_ in m_.items:
            if not it_.key.startswith("Out"):
                continue
            try:
                g_ = T.geometry(it_)
            except Exception:  # noqa: BLE001 - malformed items are C18's findings
                continue
            labs_ = [l_ for l_ in (g_.get("items") or []) if isinstance(l_, str) and any(l_.startswith(d_) for d_ in _USER13)]
            if g_.get("type") != "Enum" or not labs_:
                continue
            n13 += 1
            if it_.key not in outs_:
                ctx.ob("R13", f"{stem_}::{it_.key}::scanned", False,
                       f"{stem_}: output item {it_.key} can be wired to {labs_[:4]} but is not in output_keys {sorted(outs_)[:6]}...: a device on that output never reaches the inventory", m_.path)
    ctx.ob("R13", "device-carrying-outputs-are-listed", True, f"{n13} device-carrying output items of the config tables are all listed", sample={"rule": "R13", "items": n13})
    ctx.count("R13:device-carrying output items", n13)
    ctx.floor("R13", "device-carrying output items", n13, 600)
    ctx.rule("R14", "the inventory is read from THIS spa's block: the declarations a connection builds from the pack modules are bound to its own structure - no function keeps such per-connection objects in a module-level container under a key that does not include the connection (`_DECLARATIONS[module_name] = Cls(struct)`: every later connection with the same pack versions reads the first connection's block - zeroed after its disconnect, so the facade of a reconnected spa has no devices) (C10.R8 extended and borrowed)")
    from .c10 import shared_module_state as _sms12
    _sms12(ctx.borrowed("R14", "C10"), repo, "R8")
    ctx.rule("R12", "the inventory does not drift: on model facades of both classes every read-only member that returns devices is read three times - the pump, blower, light and sensor lists the scan left are unchanged and every read gives the same devices (a member that builds its answer by extending one of the facade's own lists files blowers under the pumps and lists them again on every read)")
    from ..facademodel import inventory_reads_are_pure as _irp
    _irp(ctx, repo, "R12")
    ctx.rule("R9", "a pump's mode list is its own demand item's label list, whatever other pumps exist in the process: two GeckoPump objects built by the constructor in one interpreter - same device key and demand tag, different label lists (as for P3 on inXM vs the other platforms) - each report their own list, in either order of asking")
    from ..absint import ClassRef as _CR, Interp as _I, PyRaise as _PR, Undecided as _U
    from ..facademodel import Rec as _Rec, accessor as _acc, model_facade as _mf
    for order in ("first-then-second", "second-then-first"):
        it = _I(repo, max_depth=12)
        got = {}
        try:
            pumps = {}
            for nm, opts in (("first", ["OFF", "HI"]), ("second", ["OFF", "LO", "HI"])):
                rec = _Rec()
                accs = {"P3": _acc(rec, "P3", "OFF"), "UdP3": _acc(rec, "UdP3", "OFF", "Enum", list(opts))}
                fac, _spa = _mf(rec, accs)
                pumps[nm] = it.apply(_CR(repo.cls("GeckoPump")), [fac, "P3", ("Pump 3", 3, "P3", "PUMP"), {"demand": "UdP3", "options": list(opts)}], {})
            for nm in (("first", "second") if order == "first-then-second" else ("second", "first")):
                got[nm] = list(it.getattr(pumps[nm], "modes"))
        except _PR as e:
            got = {"raises": e.what}
        except (_U, TypeError) as e:
            raise AnalysisError(f"GeckoPump.modes on two model facades: {e}")
        ctx.ob("R9", f"GeckoPump.modes::two-facades::{order}", got == {"first": ["OFF", "HI"], "second": ["OFF", "LO", "HI"]},
               f"two pumps with demand tag UdP3 and label lists ['OFF','HI'] / ['OFF','LO','HI'], asked {order.replace('-', ' ')}: mode lists {got} - a pump reports another pump's modes (state shared between instances)",
               repo.method("GeckoPump", "modes").loc, sample={"rule": "R9", "order": order, "modes": {k: v for k, v in got.items()}})
    # ... and no automation class keeps per-device data in a class-level container (C10.R8's rule borrowed)
    from .c10 import shared_class_state
    shared_class_state(ctx.borrowed("R9", "C10"), repo, "R8", only_under="/automation/")
    # R1-R3 by interpretation on model wirings (vlib/facademodel.py): both scans against the statement
    from ..facademodel import inventory
    inv = inventory(ctx, repo, "R1", SCANS)
    # source end of the order (struct.all_devices / user_demands are the table's lists, in table order): decided on the
    # structure model of R8 (the shape rule check_table_order_source alarmed on a table-driven setattr loop and was retired)
    scans = []
    diff = sorted({(w, d) for (w, d, c) in inv if inv[(w, d, c)] != inv.get((w, d, SCANS[0][0]))})
    ctx.ob("R2", "scan-siblings-agree", not diff, f"the async and the blocking scan build different inventories for wirings {diff[:3]}", repo.method(*SCANS[1]).loc)
    # R4 table join
    c = repo.cls("GeckoConstants")
    DEV = class_const(repo, "GeckoConstants", "DEVICES")
    n = 0
    bad = {}
    for pack, cfg, log in T.combos():
        keys = set(cfg.keys()) | set(log.keys())
        devs = log.props.get("all_device_keys", [])
        uds = [u.upper() for u in log.props.get("user_demand_keys", [])]
        for d in devs:
            if d in DEV and f"UD{d}".upper() in uds:
                n += 1
                if DEV[d][2] not in keys:
                    bad.setdefault((log.stem, d), 0)
                    bad[(log.stem, d)] += 1
    ctx.count("R4:wirings_checked", n)
    ctx.floor("R4", "device x combination wirings", n, 2000)
    for (stem, d), cnt in sorted(bad.items()):
        ctx.ob("R4", f"{stem}::{d}::state-key", False, f"{stem}: device {d} has a user demand but its state item {DEV[d][2]!r} does not exist in {cnt} combination(s): constructing the device raises KeyError", T.modules[stem].path)
    ctx.ob("R4", "all-wirings-have-state-key", not bad, f"{len(bad)} (module, device) pairs lack the state item", sample={"rule": "R4", "wirings": n, "devices": sorted(DEV)})
    # R7: the device table covers the statement's device kinds.  A device absent from DEVICES is silently
    # dropped by the "remove unknown device classes" filter, so every pump (P<n>), the waterfall, the blower and
    # the light that some shipped log table offers with a Ud<device> demand needs a row of the right class
    import re as _re
    KIND = ((_re.compile(r"^P[0-9]+$"), "DEVICE_CLASS_PUMP"), (_re.compile(r"^Waterfall$"), "DEVICE_CLASS_PUMP"),
            (_re.compile(r"^BL$"), "DEVICE_CLASS_BLOWER"), (_re.compile(r"^LI$"), "DEVICE_CLASS_LIGHT"))
    offered = {}
    for stem, m in T.modules.items():
        uds = {u.upper() for u in m.props.get("user_demand_keys", [])}
        for d in m.props.get("all_device_keys", []):
            if f"UD{d}".upper() in uds:
                offered.setdefault(d, stem)
    n_k = 0
    for d, stem in sorted(offered.items()):
        for rx, const in KIND:
            if rx.match(d):
                n_k += 1
                want = class_const(repo, "GeckoConstants", const)
                row = DEV.get(d)
                ok = row is not None and len(row) >= 4 and row[3] == want
                ctx.ob("R7", f"DEVICES::{d}", ok,
                       f"device {d} (offered with a Ud{d} demand by {stem} and others) has {'no row' if row is None else 'class ' + repr(row[3])} in GeckoConstants.DEVICES, expected a {want} row: an output wired to {d} silently yields no device",
                       c.loc, sample={"rule": "R7", "device": d, "row": list(row) if row else None})
    ctx.floor("R7", "statement device kinds offered by shipped tables", n_k, 8)
    # user demand key is an Enum with labels (modes list)
    for stem, m in sorted(T.modules.items()):
        wanted = {f"UD{d}".upper() for d in m.props.get("all_device_keys", []) if d in DEV}
        for u in m.props.get("user_demand_keys", []):
            if u.upper() not in wanted:
                continue  # a demand that never matches a user device (timers etc.)
            it = m.item(u)
            if it is not None and it.ctor != "GeckoEnumStructAccessor":
                ctx.ob("R4", f"{stem}::{u}::demand-is-enum", False, f"{stem}: user demand {u} is a {it.ctor}, no mode list", f"{m.path}:{it.lineno}")

    # R5 keys distinct
    sens = class_const(repo, "GeckoConstants", "SENSORS")
    bsens = class_const(repo, "GeckoConstants", "BINARY_SENSORS")
    keys = list(DEV.keys())
    keys += [s[0].upper() for s in sens] + [s[0].upper() for s in bsens]
    lit = {}
    for cname in ("GeckoWaterHeater", "GeckoWaterCare", "GeckoReminders", "GeckoKeypad", "GeckoErrorSensor"):
        init = repo.own_method(cname, "__init__")
        for n2 in ast.walk(init.node):
            if isinstance(n2, ast.Call) and isinstance(n2.func, ast.Attribute) and n2.func.attr == "__init__" and "super" in ast.unparse(n2.func):
                args = [repo.try_fold(a, init.mod, init.cls) for a in n2.args]
                if cname == "GeckoErrorSensor":
                    lit[cname] = args[1].upper() if isinstance(args[1], str) else None
                else:
                    lit[cname] = args[2] if len(args) > 2 else None
    keys += [v for v in lit.values()]
    keys.append(repo.fold(c.consts["KEY_ECON_ACTIVE"], c.mod, c))
    ctx.ob("R5", "automation-keys::all-resolved", all(isinstance(k, str) for k in keys), f"could not resolve all automation keys: {keys}")
    dup = sorted({k for k in keys if keys.count(k) > 1})
    ctx.ob("R5", "automation-keys::distinct", not dup, f"automation keys are not pairwise distinct: {dup} (two devices would share a unique id and get_device would return the wrong one)",
           c.loc, sample={"rule": "R5", "keys": keys})
    ctx.count("R5:keys", len(keys))
    # keys and ids of constructed objects (by interpretation; vlib/facademodel.py model spa)
    from ..absint import ClassRef, Interp, Native, Obj, PyRaise, Undecided
    from ..facademodel import Rec, accessor, model_facade
    interp = Interp(repo, max_depth=12)
    try:
        base = interp.apply(ClassRef(repo.cls("GeckoAutomationBase")), ["PARENT", "A name", "Parent name", "KEY"], {})
        uid, k = interp.getattr(base, "unique_id"), interp.getattr(base, "key")
    except (PyRaise, Undecided) as e:
        raise AnalysisError(f"GeckoAutomationBase: {e}")
    ctx.ob("R5", "unique_id::parent-dash-key", uid == "PARENT-KEY", f"unique_id of (parent id 'PARENT', key 'KEY') is {uid!r}, expected 'PARENT-KEY'", repo.method("GeckoAutomationBase", "unique_id").loc)
    ctx.ob("R5", "key::returns-key", k == "KEY", f"key of an object registered under 'KEY' is {k!r}", repo.method("GeckoAutomationBase", "key").loc)
    rec = Rec()
    accs = {"StateKey": accessor(rec, "StateKey", "OFF"), "UdDEV": accessor(rec, "UdDEV", "OFF"), "SensorKey": accessor(rec, "SensorKey", 1, "Byte")}
    fac, _spa = model_facade(rec, accs)
    row = ("Device name", 3, "StateKey", "PUMP")
    for cname, args in (("GeckoSwitch", [fac, "DEV", row]), ("GeckoPump", [fac, "DEV", row, {"demand": "UdDEV", "options": ["OFF", "HI"]}]),
                        ("GeckoBlower", [fac, "DEV", row]), ("GeckoLight", [fac, "DEV", row])):
        try:
            interp.steps = 0
            o = interp.apply(ClassRef(repo.cls(cname)), args, {})
            got = (interp.getattr(o, "key"), interp.getattr(o, "unique_id"))
        except (PyRaise, Undecided) as e:
            raise AnalysisError(f"{cname}(...): {e}")
        ctx.ob("R5", f"{cname}::key-is-device-key", got == ("DEV", "SPA-ID-DEV"), f"{cname} built for device key 'DEV' on facade 'SPA-ID' has (key, unique id) {got}, expected ('DEV', 'SPA-ID-DEV')", repo.method(cname, "__init__").loc)
    try:
        interp.steps = 0
        sn = interp.apply(ClassRef(repo.cls("GeckoSensor")), [fac, "Some Sensor", accs["SensorKey"]], {})
        got = interp.getattr(sn, "key")
    except (PyRaise, Undecided) as e:
        raise AnalysisError(f"GeckoSensor(...): {e}")
    ctx.ob("R5", "GeckoSensorBase::key-is-upper-name", got == "SOME SENSOR", f"sensor 'Some Sensor' has key {got!r}, expected 'SOME SENSOR' (R5 counts sensor keys as upper-cased names)", repo.method("GeckoSensorBase", "__init__").loc)

    # R6 lookup (by interpretation): first element whose key matches; None when absent; devices lists the keys
    for fac_c in ("GeckoAsyncFacade", "GeckoFacade"):
        devs = [Obj(None, {"key": "A", "n": 1}), Obj(None, {"key": "B", "n": 2}), Obj(None, {"key": "A", "n": 3})]
        me = Obj(repo.cls(fac_c), {})
        it2 = Interp(repo)
        it2.attr_hook = lambda _i, b_, a_, me=me, devs=devs: devs if (b_ is me and a_ == "all_automation_devices") else NotImplemented
        gd = repo.method(fac_c, "get_device")
        try:
            ra, rb, rz = (it2.call(gd, me, [kk]) for kk in ("A", "B", "Z"))
            keys = it2.getattr(me, "devices")
        except (PyRaise, Undecided) as e:
            raise AnalysisError(f"{fac_c}.get_device: {e}")
        ctx.ob("R6", f"{fac_c}.get_device::first-match-by-key", ra is devs[0] and rb is devs[1] and rz is None,
               f"{fac_c}.get_device on devices keyed [A, B, A] returns {[getattr(x, 'attrs', {}).get('n') if x is not None else None for x in (ra, rb, rz)]} for A, B, Z - expected the first A, B, None", gd.loc)
        # every key the library hands out is looked up as it is (the shipped keys are not all upper case: Waterfall, EconActive)
        real_keys = [k_ for k_ in dict.fromkeys(list(DEV) + [repo.fold(c.consts["KEY_ECON_ACTIVE"], c.mod, c), "HEAT", "P1"]) if isinstance(k_, str)]
        devs2 = [Obj(None, {"key": k_, "n": i_}) for i_, k_ in enumerate(real_keys)]
        it3 = Interp(repo)
        it3.attr_hook = lambda _i, b_, a_, me=me, devs2=devs2: devs2 if (b_ is me and a_ == "all_automation_devices") else NotImplemented
        try:
            back = [it3.call(gd, me, [d_.attrs["key"]]) for d_ in devs2]
        except (PyRaise, Undecided) as e:
            raise AnalysisError(f"{fac_c}.get_device: {e}")
        wrong = [d_.attrs["key"] for d_, r_ in zip(devs2, back) if r_ is not next(x for x in devs2 if x.attrs["key"] == d_.attrs["key"])]
        ctx.ob("R6", f"{fac_c}.get_device::every-listed-key-finds-its-device", not wrong,
               f"{fac_c}.get_device does not return the device for the key(s) {wrong} it lists itself (keys as shipped: {real_keys})", gd.loc)
        ctx.ob("R6", f"{fac_c}.devices::keys-of-same-list", list(keys) == ["A", "B", "A"], f"{fac_c}.devices is {keys}, expected the keys of all_automation_devices in order", repo.method(fac_c, "devices").loc)
    ctx.note("NOT decided: that startswith-matching yields exactly the wired devices for label sets never shipped (e.g. a label that is a prefix of another device's label).")


def _first_diff(a, b):
    la, lb = a.split("\n"), b.split("\n")
    for x, y in zip(la, lb):
        if x != y:
            return f"`{x[:90]}` vs `{y[:90]}`"
    return f"{len(la)} vs {len(lb)} statements"
